// C08 — height- and time-dependent rules flip exactly at their boundaries.
//
// For every generated network and every rule of the boundary table a scenario
// prepares an element / contract on a real chain and then, tip after tip,
// offers the transaction that is valid except for the rule (rebuilt and
// re-signed for each tip) to the real ValidateBlock, advancing the chain by
// empty blocks in between. The verdict pattern must be exactly the one the
// rule's bound predicts (computed by the scenario from network parameters,
// the element's recorded heights and the harness's own median); both sides of
// the flip must be observed; a rejection on the wrong side must be the rule's
// own error, otherwise the case is inconclusive (harness flaw).
package main

import (
	"fmt"
	"regexp"
	"strings"
	"time"

	"go.sia.tech/core/consensus"
	"go.sia.tech/core/types"
	"verif/internal/chaingen"
	"verif/internal/harness"
	"verif/internal/refmodel"
)

type probe struct {
	name string
	// mk builds the candidate block for the current tip (nil block => cannot be built for this tip, with reason)
	mk func() (types.Block, consensus.V1BlockSupplement, error)
	// want tells whether the rule permits the transaction in the child of tip
	want func(tip consensus.State) bool
	// ruleErr matches the rule's own rejection
	ruleErr *regexp.Regexp
	steps   int
	// cannotBuild: on tips where the transaction cannot even be formed honestly (e.g. the proof-height block does not exist) the verdict is "rejected" by construction
}

type scen struct {
	b   *harness.B
	c   *chaingen.Chain
	fam string
	adv func() bool // overrides how the chain is advanced between probes (default: an empty block on schedule)
}

func (s *scen) advance() bool {
	if s.adv != nil {
		return s.adv()
	}
	blk, bs, err := s.c.EmptyBlock()
	if err != nil {
		s.b.Inconclusive("cannot seal an empty block: " + err.Error())
		return false
	}
	if err := s.c.Offer(blk, bs, nil); err != nil {
		s.b.Violate("C08/empty-block-rejected", "an empty block was rejected: "+chaingen.NormErr(err), map[string]any{"height": s.c.Height() + 1})
		return false
	}
	return true
}

func (s *scen) run(p probe) {
	sawAccept, sawReject := false, false
	flips := 0
	var prev *bool
	var pattern string
	for i := 0; i < p.steps; i++ {
		tip := s.c.Tip()
		child := tip.Index.Height + 1
		want := p.want(tip)
		blk, bs, err := p.mk()
		var got bool
		var verr error
		if err != nil && strings.Contains(err.Error(), "not funded") {
			// the wallet has no spendable output for this scenario right now: nothing observed, nothing judged
			s.b.Count("scenarios_skipped_for_lack_of_funds", 1)
			return
		}
		if err != nil {
			// the transaction cannot be formed for this tip (counts as "not accepted"; must coincide with want == false)
			got = false
			verr = fmt.Errorf("cannot be formed: %v", err)
		} else {
			verr = consensus.ValidateBlock(tip, blk, bs)
			got = verr == nil
		}
		s.b.Eval(1)
		if got {
			pattern += "A"
		} else {
			pattern += "r"
		}
		if prev != nil && *prev != got {
			flips++
		}
		g := got
		prev = &g
		switch {
		case got == want:
			if got {
				sawAccept = true
			} else {
				sawReject = true
				if err == nil && !p.ruleErr.MatchString(verr.Error()) {
					// rejected as expected but by another rule: the scenario does not isolate the rule at this height
					s.b.Count("rejected_by_other_rule_on_the_expected_side", 1)
					s.b.SetAdd("other_rule_rejections", p.name+" => "+chaingen.NormErr(verr))
				}
			}
		case want && !got:
			if err == nil && p.ruleErr.MatchString(verr.Error()) {
				s.b.Violate("C08/late/"+p.name, fmt.Sprintf("%s: still rejected by the rule in the child at height %d although the bound is reached (%v)", p.name, child, verr), map[string]any{"rule": p.name, "child_height": child, "family": s.fam, "network": s.c.Net.Name})
			} else {
				s.b.Inconclusive(fmt.Sprintf("%s: expected acceptance but the scenario's transaction was rejected for another reason: %s", p.name, chaingen.NormErr(verr)))
				return
			}
		case !want && got:
			s.b.Violate("C08/early/"+p.name, fmt.Sprintf("%s: accepted in the child at height %d although the rule's bound is not reached", p.name, child), map[string]any{"rule": p.name, "child_height": child, "family": s.fam, "network": s.c.Net.Name})
		}
		if i < p.steps-1 && !s.advance() {
			return
		}
	}
	s.b.Distinct(p.name, s.fam, s.c.Net.N.MaturityDelay, pattern)
	if sawAccept && sawReject {
		s.b.Count("boundaries_observed_on_both_sides", 1)
		s.b.SetAdd("rules_with_both_sides", p.name)
	} else {
		s.b.Count("boundaries_one_sided:"+p.name, 1)
	}
}

// ---------------------------------------------------------------- helpers

// spendable picks a live output the generator can spend right now with a
// transaction of the given version.
func (s *scen) spendable(v2 bool) (types.SiacoinElement, *chaingen.Lock, bool) {
	tip := s.c.Tip()
	child := tip.Index.Height + 1
	for _, id := range s.c.S.OrderedSC() {
		e := s.c.S.SCEs[id]
		l := s.c.W.Locks[e.SiacoinOutput.Address]
		if l == nil || e.MaturityHeight > child || e.SiacoinOutput.Value.Cmp(types.Siacoins(10)) < 0 {
			continue
		}
		if v2 && l.SpendableV2(tip.Index.Height, chaingen.Median(tip)) && l.Kind != "uc-unknown-alg" {
			return e.Copy(), l, true
		}
		if !v2 && l.SpendableV1(child) {
			return e.Copy(), l, true
		}
	}
	return types.SiacoinElement{}, nil, false
}

func (s *scen) v2Allowed() bool {
	return s.c.Height()+1 >= s.c.Net.N.HardforkV2.AllowHeight
}
func (s *scen) v1Allowed() bool {
	return s.c.Height()+1 < s.c.Net.N.HardforkV2.RequireHeight
}

// payTo creates an output of 5 SC at addr (using a v1 or v2 transaction, whichever is allowed) and returns its ID.
func (s *scen) payTo(addr types.Address) (types.SiacoinOutputID, bool) {
	cs := s.c.Tip()
	val := types.Siacoins(5)
	if s.v1Allowed() {
		if e, l, ok := s.spendable(false); ok {
			txn := types.Transaction{SiacoinInputs: []types.SiacoinInput{{ParentID: e.ID, UnlockConditions: *l.UC}},
				SiacoinOutputs: []types.SiacoinOutput{{Value: val, Address: addr}, {Value: e.SiacoinOutput.Value.Sub(val), Address: l.Addr}}}
			s.c.SignV1(cs, &txn, nil)
			if blk, bs, err := s.c.BlockWith([]types.Transaction{txn}, nil); err == nil && s.c.Offer(blk, bs, nil) == nil {
				return txn.SiacoinOutputID(0), true
			}
		}
	}
	if s.v2Allowed() {
		if e, l, ok := s.spendable(true); ok {
			txn := types.V2Transaction{SiacoinInputs: []types.V2SiacoinInput{{Parent: e, SatisfiedPolicy: types.SatisfiedPolicy{Policy: l.Policy}}},
				SiacoinOutputs: []types.SiacoinOutput{{Value: val, Address: addr}, {Value: e.SiacoinOutput.Value.Sub(val), Address: l.Addr}}}
			s.c.SignV2(cs, &txn, nil)
			if blk, bs, err := s.c.BlockWith(nil, []types.V2Transaction{txn}); err == nil && s.c.Offer(blk, bs, nil) == nil {
				return txn.SiacoinOutputID(txn.ID(), 0), true
			}
		}
	}
	return types.SiacoinOutputID{}, false
}

func (s *scen) spendV1(id types.SiacoinOutputID, l *chaingen.Lock, sigTimelock uint64) func() (types.Block, consensus.V1BlockSupplement, error) {
	return s.spendV1Sel(id, l, sigTimelock, nil)
}

// spendV1Sel: as spendV1, with the signature timelock set only on the signatures whose key sel selects (nil = all).
func (s *scen) spendV1Sel(id types.SiacoinOutputID, l *chaingen.Lock, sigTimelock uint64, sel func(uk types.UnlockKey) bool) func() (types.Block, consensus.V1BlockSupplement, error) {
	return func() (types.Block, consensus.V1BlockSupplement, error) {
		e, ok := s.c.S.SCEs[id]
		if !ok {
			return types.Block{}, consensus.V1BlockSupplement{}, fmt.Errorf("output gone")
		}
		cs := s.c.Tip()
		txn := types.Transaction{SiacoinInputs: []types.SiacoinInput{{ParentID: id, UnlockConditions: *l.UC}}, SiacoinOutputs: []types.SiacoinOutput{{Value: e.SiacoinOutput.Value, Address: types.VoidAddress}}}
		s.c.SignV1(cs, &txn, nil)
		if sigTimelock > 0 {
			for i := range txn.Signatures {
				ts := &txn.Signatures[i]
				if sel != nil && !sel(l.UC.PublicKeys[ts.PublicKeyIndex]) {
					continue
				}
				ts.Timelock = sigTimelock
				var pk types.PublicKey
				copy(pk[:], l.UC.PublicKeys[ts.PublicKeyIndex].Key)
				if k, ok := s.c.W.Priv(pk); ok {
					sig := k.SignHash(cs.WholeSigHash(txn, ts.ParentID, ts.PublicKeyIndex, ts.Timelock, nil))
					ts.Signature = sig[:]
				}
			}
		}
		return s.c.BlockWith([]types.Transaction{txn}, nil)
	}
}

func (s *scen) spendV2(id types.SiacoinOutputID, l *chaingen.Lock) func() (types.Block, consensus.V1BlockSupplement, error) {
	return func() (types.Block, consensus.V1BlockSupplement, error) {
		e, ok := s.c.S.SCEs[id]
		if !ok {
			return types.Block{}, consensus.V1BlockSupplement{}, fmt.Errorf("output gone")
		}
		txn := s.c.NewV2Spend(s.c.Tip(), e.Copy(), l, types.VoidAddress)
		return s.c.BlockWith(nil, []types.V2Transaction{txn})
	}
}

func re(s string) *regexp.Regexp { return regexp.MustCompile(s) }

func stdUC(s *scen, key int) *chaingen.Lock { return s.c.W.StdV1(s.c.W.Keys[key]) }

// ---------------------------------------------------------------- scenarios

func (s *scen) maturity() {
	// a miner payout to a standard key: mature at creation height + delay
	l := stdUC(s, 3)
	cs := s.c.Tip()
	blk := types.Block{ParentID: cs.Index.ID, Timestamp: cs.PrevTimestamps[0].Add(s.c.Net.N.BlockInterval)}
	if s.c.Height()+1 >= s.c.Net.N.HardforkV2.RequireHeight || (s.v2Allowed() && s.c.Rng.IntN(2) == 0) {
		blk.V2 = &types.V2BlockData{}
	}
	if err := s.c.Seal(cs, &blk, l.Addr, 1, nil); err != nil {
		return
	}
	if s.c.Offer(blk, s.c.SupplementFor(blk), nil) != nil {
		return
	}
	id := blk.ID().MinerOutputID(0)
	M := s.c.Height() + s.c.Net.N.MaturityDelay
	want := func(tip consensus.State) bool { return tip.Index.Height+1 >= M }
	steps := int(s.c.Net.N.MaturityDelay) + 2
	v1Window := s.v1Allowed() && M+2 < s.c.Net.N.HardforkV2.RequireHeight
	if s.v2Allowed() && (!v1Window || s.c.Rng.IntN(2) == 0) {
		s.run(probe{name: "v2-output-maturity", mk: s.spendV2(id, l), want: want, ruleErr: re("immature parent"), steps: steps})
	} else if v1Window {
		s.run(probe{name: "v1-output-maturity", mk: s.spendV1(id, l, 0), want: want, ruleErr: re("immature parent"), steps: steps})
	}
}

func (s *scen) claimMaturity() {
	// spend a siafund output; the claim output matures at height + delay
	cs := s.c.Tip()
	child := cs.Index.Height + 1
	claimLock := stdUC(s, 4)
	var claimID types.SiacoinOutputID
	done := false
	for _, id := range s.c.S.OrderedSF() {
		e := s.c.S.SFEs[id]
		l := s.c.W.Locks[e.SiafundOutput.Address]
		if l == nil {
			continue
		}
		if s.v1Allowed() && l.SpendableV1(child) {
			txn := types.Transaction{SiafundInputs: []types.SiafundInput{{ParentID: id, UnlockConditions: *l.UC, ClaimAddress: claimLock.Addr}}, SiafundOutputs: []types.SiafundOutput{{Value: e.SiafundOutput.Value, Address: l.Addr}}}
			s.c.SignV1(cs, &txn, nil)
			if blk, bs, err := s.c.BlockWith([]types.Transaction{txn}, nil); err == nil && s.c.Offer(blk, bs, nil) == nil {
				claimID, done = id.ClaimOutputID(), true
			}
			break
		}
		if s.v2Allowed() && l.SpendableV2(cs.Index.Height, chaingen.Median(cs)) && l.Kind != "uc-unknown-alg" {
			txn := types.V2Transaction{SiafundInputs: []types.V2SiafundInput{{Parent: e.Copy(), ClaimAddress: claimLock.Addr, SatisfiedPolicy: types.SatisfiedPolicy{Policy: l.Policy}}}, SiafundOutputs: []types.SiafundOutput{{Value: e.SiafundOutput.Value, Address: l.Addr}}}
			s.c.SignV2(cs, &txn, nil)
			if blk, bs, err := s.c.BlockWith(nil, []types.V2Transaction{txn}); err == nil && s.c.Offer(blk, bs, nil) == nil {
				claimID, done = id.V2ClaimOutputID(), true
			}
			break
		}
	}
	if !done {
		return
	}
	if e, ok := s.c.S.SCEs[claimID]; !ok || e.SiacoinOutput.Value.IsZero() {
		return // nothing claimed yet: a zero-valued claim cannot be spent into a non-zero output
	}
	M := s.c.Height() + s.c.Net.N.MaturityDelay
	want := func(tip consensus.State) bool { return tip.Index.Height+1 >= M }
	steps := int(s.c.Net.N.MaturityDelay) + 2
	v1Window := s.v1Allowed() && M+2 < s.c.Net.N.HardforkV2.RequireHeight
	if s.v2Allowed() && !v1Window {
		s.run(probe{name: "v2-claim-output-maturity", mk: s.spendV2(claimID, claimLock), want: want, ruleErr: re("immature parent"), steps: steps})
	} else if v1Window {
		s.run(probe{name: "v1-claim-output-maturity", mk: s.spendV1(claimID, claimLock, 0), want: want, ruleErr: re("immature parent"), steps: steps})
	}
}

func (s *scen) v1Timelocks() {
	if !s.v1Allowed() || s.c.Height()+6 >= s.c.Net.N.HardforkV2.RequireHeight {
		return
	}
	k := s.c.W.Keys[2]
	T := s.c.Height() + 4
	uc := types.UnlockConditions{Timelock: T, PublicKeys: []types.UnlockKey{k.PublicKey().UnlockKey()}, SignaturesRequired: 1}
	l := &chaingen.Lock{Kind: "uc-timelock", Addr: uc.UnlockHash(), UC: &uc, UCSigners: []int{0}, Policy: types.SpendPolicy{Type: types.PolicyTypeUnlockConditions(uc)}, PolKeys: []types.PublicKey{k.PublicKey()}, V1MinChild: T, V2MinParent: T}
	s.c.W.Locks[l.Addr] = l
	if id, ok := s.payTo(l.Addr); ok {
		s.run(probe{name: "v1-unlock-conditions-timelock", mk: s.spendV1(id, l, 0), want: func(tip consensus.State) bool { return tip.Index.Height+1 >= T }, ruleErr: re("timelocked parent"), steps: int(T-s.c.Height()) + 2})
	}
	// signature timelock
	if !s.v1Allowed() || s.c.Height()+6 >= s.c.Net.N.HardforkV2.RequireHeight {
		return
	}
	l2 := stdUC(s, 2)
	if id, ok := s.payTo(l2.Addr); ok {
		T2 := s.c.Height() + 3
		s.run(probe{name: "v1-signature-timelock", mk: s.spendV1(id, l2, T2), want: func(tip consensus.State) bool { return tip.Index.Height+1 >= T2 }, ruleErr: re("timelock of signature"), steps: 5})
	}
	// the same rule for a signature under a key of an unrecognised algorithm (accepted without verification, but
	// still a signature with a timelock): 2-of-2 of an ed25519 key and such a key, timelock on the latter only
	if !s.v1Allowed() || s.c.Height()+6 >= s.c.Net.N.HardforkV2.RequireHeight {
		return
	}
	uk := types.UnlockKey{Algorithm: types.NewSpecifier("lattice"), Key: []byte{1, 2, 3, byte(s.c.Height())}}
	uc2 := types.UnlockConditions{PublicKeys: []types.UnlockKey{k.PublicKey().UnlockKey(), uk}, SignaturesRequired: 2}
	if s.c.Rng.IntN(2) == 0 {
		uc2.PublicKeys[0], uc2.PublicKeys[1] = uc2.PublicKeys[1], uc2.PublicKeys[0]
	}
	l3 := &chaingen.Lock{Kind: "uc-unknown-alg", Addr: uc2.UnlockHash(), UC: &uc2, UCSigners: []int{0, 1}, Policy: types.SpendPolicy{Type: types.PolicyTypeUnlockConditions(uc2)}, PolKeys: []types.PublicKey{k.PublicKey()}, V2MinParent: 1 << 40} // never picked for v2 spends by the generator
	s.c.W.Locks[l3.Addr] = l3
	if id, ok := s.payTo(l3.Addr); ok {
		T3 := s.c.Height() + 3
		s.run(probe{name: "v1-signature-timelock/unrecognised-key-algorithm", mk: s.spendV1Sel(id, l3, T3, func(u types.UnlockKey) bool { return u.Algorithm != types.SpecifierEd25519 }), want: func(tip consensus.State) bool { return tip.Index.Height+1 >= T3 }, ruleErr: re("timelock of signature"), steps: 5})
	}
}

func (s *scen) v2Locks() {
	if !s.v2Allowed() {
		return
	}
	k := s.c.W.Keys[1]
	// above(h): the height compared is the parent's
	H := s.c.Height() + 4
	pa := types.PolicyThreshold(2, []types.SpendPolicy{types.PolicyAbove(H), types.PolicyPublicKey(k.PublicKey())})
	la := &chaingen.Lock{Kind: "thresh", Addr: pa.Address(), Policy: pa, FullPolicy: pa, PolKeys: []types.PublicKey{k.PublicKey()}, V1MinChild: 1 << 40, V2MinParent: H}
	s.c.W.Locks[la.Addr] = la
	if id, ok := s.payTo(la.Addr); ok {
		s.run(probe{name: "v2-policy-above-compares-parent-height", mk: s.spendV2(id, la), want: func(tip consensus.State) bool { return tip.Index.Height >= H }, ruleErr: re("not above"), steps: int(H-s.c.Height()) + 3})
	}
	// legacy unlock conditions as a policy: timelock against the parent height
	T := s.c.Height() + 4
	uc := types.UnlockConditions{Timelock: T, PublicKeys: []types.UnlockKey{k.PublicKey().UnlockKey()}, SignaturesRequired: 1}
	lu := &chaingen.Lock{Kind: "uc-timelock", Addr: uc.UnlockHash(), UC: &uc, UCSigners: []int{0}, Policy: types.SpendPolicy{Type: types.PolicyTypeUnlockConditions(uc)}, PolKeys: []types.PublicKey{k.PublicKey()}, V1MinChild: T, V2MinParent: T}
	s.c.W.Locks[lu.Addr] = lu
	if id, ok := s.payTo(lu.Addr); ok {
		s.run(probe{name: "v2-legacy-unlock-conditions-timelock-compares-parent-height", mk: s.spendV2(id, lu), want: func(tip consensus.State) bool { return tip.Index.Height >= T }, ruleErr: re("not above"), steps: int(T-s.c.Height()) + 3})
	}
	// after(t): median of the last 11 timestamps strictly after t. t is chosen as a future median value, so "equal" is visited
	tip := s.c.Tip()
	iv := s.c.Net.N.BlockInterval
	if iv < time.Second {
		iv = time.Second
	}
	t := chaingen.Median(tip).Add(3 * iv)
	pt := types.PolicyThreshold(2, []types.SpendPolicy{types.PolicyAfter(t), types.PolicyPublicKey(k.PublicKey())})
	lt := &chaingen.Lock{Kind: "thresh", Addr: pt.Address(), Policy: pt, FullPolicy: pt, PolKeys: []types.PublicKey{k.PublicKey()}, V1MinChild: 1 << 40, V2AfterTime: t}
	s.c.W.Locks[lt.Addr] = lt
	if id, ok := s.payTo(lt.Addr); ok {
		equalSeen := false
		s.run(probe{name: "v2-policy-after-compares-median-timestamp-strictly", mk: s.spendV2(id, lt), want: func(tip consensus.State) bool {
			m := chaingen.Median(tip)
			if m.Equal(t) {
				equalSeen = true
			}
			return m.After(t)
		}, ruleErr: re("not after"), steps: 9})
		if equalSeen {
			s.b.Count("after_policy_median_equal_to_lock_time_visited", 1)
		}
	}
}

// v2AfterNonMonotonic: after(t) against the median of the last 11 timestamps when block timestamps are legal but
// not monotonic (blocks stamped far ahead, followed by blocks stamped at the earliest legal time, ties). The median
// is recomputed by the harness from State.PrevTimestamps.
func (s *scen) v2AfterNonMonotonic() {
	if !s.v2Allowed() {
		return
	}
	iv := s.c.Net.N.BlockInterval
	if iv < time.Second {
		iv = time.Second
	}
	rng := s.c.Rng
	shake := func() bool {
		tip := s.c.Tip()
		med := chaingen.Median(tip)
		if med.Nanosecond() != 0 {
			med = med.Truncate(time.Second).Add(time.Second) // block timestamps carry whole seconds
		}
		var ts time.Time
		switch rng.IntN(5) {
		case 0:
			ts = tip.PrevTimestamps[0].Add(time.Duration(20+rng.IntN(200)) * iv) // far ahead of the parent
		case 1, 2:
			ts = med // earliest legal value (may lie before the parent's)
		default:
			ts = med.Add(time.Duration(rng.IntN(30)) * iv)
		}
		blk, bs, err := s.c.EmptyBlockAt(ts)
		if err != nil {
			s.b.Inconclusive("cannot seal an empty block: " + err.Error())
			return false
		}
		if err := s.c.Offer(blk, bs, nil); err != nil {
			s.b.Violate("C08/empty-block-rejected", "an empty block with a legal non-monotonic timestamp was rejected: "+chaingen.NormErr(err), map[string]any{"height": s.c.Height() + 1})
			return false
		}
		if !ts.After(tip.PrevTimestamps[0]) {
			s.b.Count("blocks_stamped_not_after_their_parent", 1)
		}
		return true
	}
	for i := 0; i < 12; i++ {
		if !shake() {
			return
		}
	}
	k := s.c.W.Keys[1]
	t := chaingen.Median(s.c.Tip()).Add(time.Duration(1+rng.IntN(40)) * iv)
	pt := types.PolicyThreshold(2, []types.SpendPolicy{types.PolicyAfter(t), types.PolicyPublicKey(k.PublicKey())})
	lt := &chaingen.Lock{Kind: "thresh", Addr: pt.Address(), Policy: pt, FullPolicy: pt, PolKeys: []types.PublicKey{k.PublicKey()}, V1MinChild: 1 << 40, V2AfterTime: t}
	s.c.W.Locks[lt.Addr] = lt
	id, ok := s.payTo(lt.Addr)
	if !ok {
		return
	}
	s.adv = shake
	defer func() { s.adv = nil }()
	s.run(probe{name: "v2-policy-after-compares-median-timestamp/non-monotonic-timestamps", mk: s.spendV2(id, lt), want: func(tip consensus.State) bool {
		return chaingen.Median(tip).After(t)
	}, ruleErr: re("not after"), steps: 16})
}

func (s *scen) v1Contracts() {
	n := s.c.Net.N
	if !s.v1Allowed() || s.c.Height()+12 >= n.HardforkV2.RequireHeight {
		return
	}
	// formation: window start may not be in the past
	{
		W := s.c.Height() + 3
		data := []byte("boundary file with two leaves ..................................................xx")
		mk := func() (types.Block, consensus.V1BlockSupplement, error) {
			blk, bs, ids, err := s.c.BlockWithV1Contracts([]chaingen.V1ContractSpec{{Data: data, WindowStart: W, WindowEnd: W + 3}})
			if err == nil && ids[0] == (types.FileContractID{}) {
				err = fmt.Errorf("not funded")
			}
			return blk, bs, err
		}
		s.run(probe{name: "v1-contract-formation-window-start-not-in-the-past", mk: mk, want: func(tip consensus.State) bool { return tip.Index.Height+1 <= W }, ruleErr: re("window that starts in the past"), steps: 5})
	}
	// a live contract: revision until the window opens, proof from the window start block on
	H := s.c.Height()
	W := H + 4
	data := make([]byte, 200)
	for i := range data {
		data[i] = byte(i * 7)
	}
	blk, bs, ids, err := s.c.BlockWithV1Contracts([]chaingen.V1ContractSpec{{Data: data, WindowStart: W, WindowEnd: W + 4}, {Data: data, WindowStart: W + 40, WindowEnd: W + 44}, {Data: nil, WindowStart: W, WindowEnd: W + 4}})
	if err != nil || ids[0] == (types.FileContractID{}) || s.c.Offer(blk, bs, nil) != nil {
		return
	}
	id := ids[0]
	idFar := ids[1]   // second contract, window far away (zero ID if it could not be funded)
	idEmpty := ids[2] // third contract: no data (from the storage-proof fork on it needs no proof data - but still its window)
	mkEmptyProof := func() (types.Block, consensus.V1BlockSupplement, error) {
		e, ok := s.c.S.FCEs[idEmpty]
		if !ok {
			return types.Block{}, consensus.V1BlockSupplement{}, fmt.Errorf("contract gone")
		}
		b2, bs2, err := s.c.BlockWith([]types.Transaction{{StorageProofs: []types.StorageProof{{ParentID: idEmpty}}}}, nil)
		if err == nil && len(bs2.Transactions) == 1 && len(bs2.Transactions[0].StorageProofs) == 0 {
			// the window block does not exist yet: the store has no window ID to offer; the contract itself is live
			bs2.Transactions[0].StorageProofs = []consensus.V1StorageProofSupplement{{FileContract: e.Copy(), WindowID: s.c.Tip().Index.ID}}
		}
		return b2, bs2, err
	}
	// a revision and a storage proof of the same contract in one block: the window that counts is the one of the
	// contract as it stands after the revision. later=true moves the window of the first contract far away and then
	// offers the proof (never allowed in the probed range); later=false pulls the far window of the second contract
	// to this very block and proves it (allowed at once).
	mkRevThenProof := func(cid types.FileContractID, later bool) func() (types.Block, consensus.V1BlockSupplement, error) {
		return func() (types.Block, consensus.V1BlockSupplement, error) {
			e, ok := s.c.S.FCEs[cid]
			if !ok {
				return types.Block{}, consensus.V1BlockSupplement{}, fmt.Errorf("contract gone")
			}
			tip := s.c.Tip()
			child := tip.Index.Height + 1
			info := s.c.V1Infos[e.FileContract.UnlockHash]
			rev := e.FileContract
			rev.RevisionNumber++
			if later {
				rev.WindowStart, rev.WindowEnd = W+20, W+25
			} else {
				rev.WindowStart, rev.WindowEnd = child, child+3
			}
			rt := types.Transaction{FileContractRevisions: []types.FileContractRevision{{ParentID: cid, UnlockConditions: info.UC, FileContract: rev}}}
			s.c.SignV1(tip, &rt, nil)
			// the challenge an honest prover would answer in this block: seeded by the parent block
			idx := tip.StorageProofLeafIndex(rev.Filesize, tip.Index.ID, cid)
			if later {
				if wid, ok := s.c.BlockIDAt(e.FileContract.WindowStart - 1); ok {
					idx = tip.StorageProofLeafIndex(rev.Filesize, wid, cid) // the old window's challenge, if that block exists
				}
			}
			sp := types.StorageProof{ParentID: cid, Leaf: refmodel.FileSegment(data, int(idx))}
			for _, h := range refmodel.Proof(refmodel.FileLeaves(data), int(idx)) {
				sp.Proof = append(sp.Proof, types.Hash256(h))
			}
			return s.c.BlockWith([]types.Transaction{rt, {StorageProofs: []types.StorageProof{sp}}}, nil)
		}
	}
	mkRev := func() (types.Block, consensus.V1BlockSupplement, error) {
		e, ok := s.c.S.FCEs[id]
		if !ok {
			return types.Block{}, consensus.V1BlockSupplement{}, fmt.Errorf("contract gone")
		}
		info := s.c.V1Infos[e.FileContract.UnlockHash]
		rev := e.FileContract
		rev.RevisionNumber++
		rev.WindowStart, rev.WindowEnd = W+20, W+25 // the revision's own window is far in the future: only the parent's window matters
		txn := types.Transaction{FileContractRevisions: []types.FileContractRevision{{ParentID: id, UnlockConditions: info.UC, FileContract: rev}}}
		s.c.SignV1(s.c.Tip(), &txn, nil)
		return s.c.BlockWith([]types.Transaction{txn}, nil)
	}
	mkProof := func() (types.Block, consensus.V1BlockSupplement, error) {
		e, ok := s.c.S.FCEs[id]
		if !ok {
			return types.Block{}, consensus.V1BlockSupplement{}, fmt.Errorf("contract gone")
		}
		fc := e.FileContract
		wid, ok := s.c.BlockIDAt(fc.WindowStart - 1)
		if !ok {
			// the window ID does not exist yet; submit with the tip's ID (the best a prover could do)
			wid = s.c.Tip().Index.ID
		}
		idx := s.c.Tip().StorageProofLeafIndex(fc.Filesize, wid, id)
		sp := types.StorageProof{ParentID: id, Leaf: refmodel.FileSegment(data, int(idx))}
		for _, h := range refmodel.Proof(refmodel.FileLeaves(data), int(idx)) {
			sp.Proof = append(sp.Proof, types.Hash256(h))
		}
		return s.c.BlockWith([]types.Transaction{{StorageProofs: []types.StorageProof{sp}}}, nil)
	}
	// era guard for the honest proof (see C07): sizes here are not 64-aligned and not empty, so every era accepts
	// interleave both probes on the same chain: run them step by step
	steps := 7
	for i := 0; i < steps; i++ {
		tip := s.c.Tip()
		child := tip.Index.Height + 1
		for _, pr := range []struct {
			name string
			mk   func() (types.Block, consensus.V1BlockSupplement, error)
			want bool
			rule *regexp.Regexp
		}{
			{"v1-revision-until-window-opens", mkRev, child <= W, re("after its proof window has opened")},
			{"v1-storage-proof-from-window-start", mkProof, child >= W && child <= W+4, re("cannot be submitted until after window start|nonexistent file contract|not present in the accumulator")},
			{"v1-storage-proof-after-same-block-revision/window-moved-later", mkRevThenProof(id, true), false, re("cannot be submitted until after window start")},
			{"v1-storage-proof-after-same-block-revision/window-pulled-to-this-block", mkRevThenProof(idFar, false), idFar != (types.FileContractID{}), re("cannot be submitted until after window start")},
			{"v1-storage-proof-of-an-empty-contract-from-window-start", mkEmptyProof, child >= W && child <= W+4, re("cannot be submitted until after window start|nonexistent file contract|not present in the accumulator")},
		} {
			if pr.name == "v1-storage-proof-of-an-empty-contract-from-window-start" && (idEmpty == (types.FileContractID{}) || !chaingen.HonestV1ProofPossible(s.c.Net.N.HardforkTax.Height, s.c.Net.N.HardforkStorageProof.Height, child, 0, 0)) {
				continue // before the storage-proof fork no proof of an empty file is accepted at any height (C07)
			}
			if pr.name == "v1-storage-proof-after-same-block-revision/window-moved-later" && child > W {
				continue // the contract's own window has opened: it can no longer be revised
			}
			if pr.name == "v1-storage-proof-after-same-block-revision/window-pulled-to-this-block" && idFar == (types.FileContractID{}) {
				continue
			}
			b2, bs2, err := pr.mk()
			got := false
			var verr error = err
			if err == nil {
				verr = consensus.ValidateBlock(tip, b2, bs2)
				got = verr == nil
			}
			s.b.Eval(1)
			s.b.Distinct(pr.name, s.fam, child < W, child == W, child > W)
			switch {
			case got == pr.want:
				s.b.Count("boundary_points_as_predicted", 1)
				if got {
					s.b.SetAdd("rules_with_both_sides", pr.name+"/accept")
				} else {
					s.b.SetAdd("rules_with_both_sides", pr.name+"/reject")
				}
			case pr.want && !got:
				if verr != nil && pr.rule.MatchString(verr.Error()) {
					s.b.Violate("C08/late/"+pr.name, fmt.Sprintf("%s rejected by the rule at child height %d (window start %d): %v", pr.name, child, W, verr), map[string]any{"child": child, "window_start": W})
				} else {
					s.b.Inconclusive(pr.name + ": rejected for another reason: " + chaingen.NormErr(verr))
				}
			default:
				s.b.Violate("C08/early/"+pr.name, fmt.Sprintf("%s accepted at child height %d (window start %d, window end %d)", pr.name, child, W, W+4), map[string]any{"child": child, "window_start": W})
			}
		}
		if !s.advance() {
			return
		}
	}
}

func (s *scen) v2Contracts() {
	if !s.v2Allowed() {
		return
	}
	data := make([]byte, 300)
	for i := range data {
		data[i] = byte(i*13 + 1)
	}
	// formation: proof height may not have passed
	{
		P := s.c.Height() + 3
		mk := func() (types.Block, consensus.V1BlockSupplement, error) {
			blk, bs, ids, err := s.c.BlockWithV2Contracts([]chaingen.V2ContractSpec{{Data: data, ProofHeight: P, ExpirationHeight: P + 3}})
			if err == nil && ids[0] == (types.FileContractID{}) {
				err = fmt.Errorf("not funded")
			}
			return blk, bs, err
		}
		s.run(probe{name: "v2-contract-formation-proof-height-not-passed", mk: mk, want: func(tip consensus.State) bool { return tip.Index.Height+1 <= P }, ruleErr: re("proof height .* that has already passed"), steps: 5})
	}
	H := s.c.Height()
	P := H + 4
	X := P + 3
	blk, bs, ids, err := s.c.BlockWithV2Contracts([]chaingen.V2ContractSpec{{Data: data, ProofHeight: P, ExpirationHeight: X}})
	if err != nil || ids[0] == (types.FileContractID{}) || s.c.Offer(blk, bs, nil) != nil {
		return
	}
	id := ids[0]
	get := func() (types.V2FileContractElement, error) {
		e, ok := s.c.S.V2FCEs[id]
		if !ok {
			return e, fmt.Errorf("contract gone")
		}
		return e.Copy(), nil
	}
	mkRev := func() (types.Block, consensus.V1BlockSupplement, error) {
		e, err := get()
		if err != nil {
			return types.Block{}, consensus.V1BlockSupplement{}, err
		}
		rev := e.V2FileContract
		rev.RevisionNumber++
		rev.ProofHeight, rev.ExpirationHeight = P+30, P+40 // only the current proof height matters
		txn := types.V2Transaction{FileContractRevisions: []types.V2FileContractRevision{{Parent: e, Revision: rev}}}
		s.c.SignV2(s.c.Tip(), &txn, nil)
		return s.c.BlockWith(nil, []types.V2Transaction{txn})
	}
	mkProof := func() (types.Block, consensus.V1BlockSupplement, error) {
		e, err := get()
		if err != nil {
			return types.Block{}, consensus.V1BlockSupplement{}, err
		}
		cie, ok := s.c.S.CIEs[P]
		if !ok {
			// the block at the proof height is not an ancestor yet: the best a prover can do is the tip's index
			cie = s.c.S.CIEs[s.c.Height()]
		}
		idx := s.c.Tip().StorageProofLeafIndex(uint64(len(data)), cie.ChainIndex.ID, id)
		sp := &types.V2StorageProof{ProofIndex: cie.Copy(), Leaf: refmodel.FileSegment(data, int(idx))}
		for _, h := range refmodel.Proof(refmodel.FileLeaves(data), int(idx)) {
			sp.Proof = append(sp.Proof, types.Hash256(h))
		}
		return s.c.BlockWith(nil, []types.V2Transaction{{FileContractResolutions: []types.V2FileContractResolution{{Parent: e, Resolution: sp}}}})
	}
	mkExp := func() (types.Block, consensus.V1BlockSupplement, error) {
		e, err := get()
		if err != nil {
			return types.Block{}, consensus.V1BlockSupplement{}, err
		}
		return s.c.BlockWith(nil, []types.V2Transaction{{FileContractResolutions: []types.V2FileContractResolution{{Parent: e, Resolution: &types.V2FileContractExpiration{}}}}})
	}
	for i := 0; i < 10; i++ {
		tip := s.c.Tip()
		child := tip.Index.Height + 1
		for _, pr := range []struct {
			name string
			mk   func() (types.Block, consensus.V1BlockSupplement, error)
			want bool
			rule *regexp.Regexp
		}{
			{"v2-revision-until-proof-height", mkRev, child <= P, re("after proof height|after its proof window has opened")},
			{"v2-storage-proof-once-proof-height-block-is-an-ancestor", mkProof, child >= P+1, re("cannot be submitted until after proof height|does not match contract ProofHeight|invalid history proof")},
			{"v2-expiration-after-expiration-height", mkExp, child > X, re("cannot be submitted until after expiration height")},
		} {
			b2, bs2, err := pr.mk()
			got := false
			var verr error = err
			if err == nil {
				verr = consensus.ValidateBlock(tip, b2, bs2)
				got = verr == nil
			}
			s.b.Eval(1)
			s.b.Distinct(pr.name, s.fam, child, P, X)
			switch {
			case got == pr.want:
				s.b.Count("boundary_points_as_predicted", 1)
				if got {
					s.b.SetAdd("rules_with_both_sides", pr.name+"/accept")
				} else {
					s.b.SetAdd("rules_with_both_sides", pr.name+"/reject")
				}
			case pr.want && !got:
				if verr != nil && pr.rule.MatchString(verr.Error()) {
					s.b.Violate("C08/late/"+pr.name, fmt.Sprintf("%s rejected by the rule at child height %d (proof height %d, expiration %d): %v", pr.name, child, P, X, verr), map[string]any{"child": child, "proof_height": P, "expiration_height": X})
				} else {
					s.b.Inconclusive(pr.name + ": rejected for another reason: " + chaingen.NormErr(verr))
				}
			default:
				s.b.Violate("C08/early/"+pr.name, fmt.Sprintf("%s accepted at child height %d (proof height %d, expiration height %d)", pr.name, child, P, X), map[string]any{"child": child, "proof_height": P, "expiration_height": X})
			}
		}
		if !s.advance() {
			return
		}
	}
}

// ephemeralMaturity: an immature output created in the block (a siafund claim) is spent later in the same block by
// a transaction that claims maturity height 0 for it. From the ephemeral-output fix height on this must be rejected
// (an output cannot be spent before its maturity height); below it the claimed contents are not checked (documented
// legacy window, recorded only).
func (s *scen) ephemeralMaturity() {
	n := s.c.Net.N
	if !s.v2Allowed() || n.MaturityDelay == 0 {
		return
	}
	cs := s.c.Tip()
	child := cs.Index.Height + 1
	claimLock := stdUC(s, 4)
	for _, id := range s.c.S.OrderedSF() {
		e := s.c.S.SFEs[id]
		l := s.c.W.Locks[e.SiafundOutput.Address]
		if l == nil || !l.SpendableV2(cs.Index.Height, chaingen.Median(cs)) || l.Kind == "uc-unknown-alg" {
			continue
		}
		claim := cs.SiafundTaxRevenue.Sub(e.ClaimStart).Div64(10000).Mul64(e.SiafundOutput.Value)
		if claim.IsZero() {
			continue
		}
		a := types.V2Transaction{SiafundInputs: []types.V2SiafundInput{{Parent: e.Copy(), ClaimAddress: claimLock.Addr, SatisfiedPolicy: types.SatisfiedPolicy{Policy: l.Policy}}}, SiafundOutputs: []types.SiafundOutput{{Value: e.SiafundOutput.Value, Address: l.Addr}}}
		s.c.SignV2(cs, &a, nil)
		for _, claimed := range []uint64{0, child} {
			parent := types.SiacoinElement{ID: id.V2ClaimOutputID(), StateElement: types.StateElement{LeafIndex: types.UnassignedLeafIndex}, SiacoinOutput: types.SiacoinOutput{Value: claim, Address: claimLock.Addr}, MaturityHeight: claimed}
			bt := s.c.NewV2Spend(cs, parent, claimLock, types.VoidAddress)
			blk, bs, err := s.c.BlockWith(nil, []types.V2Transaction{a, bt})
			if err != nil {
				return
			}
			verr := consensus.ValidateBlock(cs, blk, bs)
			s.b.Eval(1)
			s.b.Distinct("ephemeral-maturity", s.fam, child < n.HardforkV2.EphemeralOutputHeight, child == n.HardforkV2.EphemeralOutputHeight, claimed)
			if child < n.HardforkV2.EphemeralOutputHeight {
				// below the ephemeral-output height the claimed maturity of an in-block parent is not cross-checked; the
				// statement quantifies over all hardfork heights without exception: judged under a key of its own
				if verr == nil && claimed == 0 {
					s.b.Violate("C08/early/immature-output-spent-in-its-own-block/below-the-ephemeral-output-height", fmt.Sprintf("at child height %d, below the ephemeral-output height %d (maturity delay %d), a siafund claim output created in the block and maturing at %d was spent in the same block claiming maturity height 0", child, n.HardforkV2.EphemeralOutputHeight, n.MaturityDelay, child+n.MaturityDelay), map[string]any{"child": child, "fix_height": n.HardforkV2.EphemeralOutputHeight})
				}
				s.b.Count("legacy_window_in_block_spends_of_immature_claims", 1)
				continue
			}
			if verr == nil {
				s.b.Violate("C08/early/immature-output-spent-in-its-own-block", fmt.Sprintf("at child height %d (ephemeral-output fix height %d, maturity delay %d) a siafund claim output created in the block and maturing at %d was spent in the same block claiming maturity height %d", child, n.HardforkV2.EphemeralOutputHeight, n.MaturityDelay, child+n.MaturityDelay, claimed), map[string]any{"child": child, "fix_height": n.HardforkV2.EphemeralOutputHeight})
			} else {
				s.b.Count("in_block_spends_of_immature_outputs_rejected", 1)
				if child == n.HardforkV2.EphemeralOutputHeight {
					s.b.Count("in_block_spends_of_immature_outputs_rejected_at_the_fix_height", 1)
				}
			}
		}
		return
	}
}

// version windows: v2 transactions from the allow height, v1 transactions until the require height
func (s *scen) versionWindow() {
	n := s.c.Net.N
	child := s.c.Height() + 1
	if n.HardforkV2.AllowHeight > child && n.HardforkV2.AllowHeight-child <= 6 {
		l := stdUC(s, 0)
		if id, ok := s.payTo(l.Addr); ok {
			A := n.HardforkV2.AllowHeight
			s.run(probe{name: "v2-transactions-from-the-allow-height", mk: s.spendV2(id, l), want: func(tip consensus.State) bool { return tip.Index.Height+1 >= A }, ruleErr: re("v2 transactions are not allowed until"), steps: int(A-s.c.Height()) + 2})
		}
	}
	child = s.c.Height() + 1
	if n.HardforkV2.RequireHeight > child && n.HardforkV2.RequireHeight-child <= 6 {
		l := stdUC(s, 0)
		if id, ok := s.payTo(l.Addr); ok {
			R := n.HardforkV2.RequireHeight
			mkBlock := s.spendV1(id, l, 0)
			// besides the block route, the transaction is validated on its own against the intermediate state
			// (the route a transaction pool uses), where only the transaction rule can reject it
			mk := func() (types.Block, consensus.V1BlockSupplement, error) {
				blk, bs, err := mkBlock()
				if err == nil && len(blk.Transactions) == 1 {
					tip := s.c.Tip()
					ts := consensus.V1TransactionSupplement{}
					if e, ok := s.c.S.SCEs[id]; ok {
						ts.SiacoinInputs = []types.SiacoinElement{e.Copy()}
					}
					verr := consensus.ValidateTransaction(consensus.NewMidState(tip), blk.Transactions[0], ts)
					want := tip.Index.Height+1 < R
					s.b.Eval(1)
					if (verr == nil) != want {
						s.b.Violate("C08/v1-transactions-until-the-require-height/ValidateTransaction", fmt.Sprintf("ValidateTransaction at child height %d (require height %d): accepted=%v", tip.Index.Height+1, R, verr == nil), map[string]any{"child": tip.Index.Height + 1, "require": R})
					} else {
						s.b.Count("direct_transaction_validations_as_predicted", 1)
					}
				}
				return blk, bs, err
			}
			s.run(probe{name: "v1-transactions-until-the-require-height", mk: mk, want: func(tip consensus.State) bool { return tip.Index.Height+1 < R }, ruleErr: re("v1 transactions are not allowed after"), steps: int(R-s.c.Height()) + 2})
		}
	}
}

func run(b *harness.B) {
	if b.Batch == 0 {
		directedEdges(b)
		directedOwners(b)
	}
	nNets := b.Pick(10, 24)
	for i := 0; i < nNets; i++ {
		fam := []string{"compressed", "v2genesis", "scrambled", "v1only", "compressed", "testnet", "legacywin"}[(b.Batch+i)%7]
		rng := b.SubRng(fmt.Sprint("net", i))
		net := chaingen.GenNet(rng, fam, b.Batch*100+i)
		c := chaingen.NewChain(net, rng)
		s := &scen{b: b, c: c, fam: fam}
		rounds := b.Pick(8, 14)
		for r := 0; r < rounds; r++ {
			// move on a little with ordinary traffic, then run the scenarios at whatever height/era the chain is in
			// approach the ephemeral-output fix height one block at a time, probing at every height around it
			if eoh := net.N.HardforkV2.EphemeralOutputHeight; eoh > c.Height() && eoh-c.Height() <= 8 {
				for c.Height() < eoh+1 {
					s.ephemeralMaturity()
					if c.Grow(1, chaingen.Plan{MaxTxns: 3, Weights: map[string]int{"v2-form": 6, "v1-form": 6}}) == 0 {
						break
					}
				}
			}
			c.Grow(1+rng.IntN(5), chaingen.Plan{MaxTxns: 3})
			s.ephemeralMaturity()
			s.ephemeralMaturityV1()
			s.versionWindow()
			switch (r + i) % 5 {
			case 0:
				s.maturity()
				s.claimMaturity()
			case 1:
				s.v1Timelocks()
			case 2:
				s.v2Locks()
				s.v2SiafundLocks()
				if r%2 == 0 {
					s.v2AfterNonMonotonic()
				}
			case 3:
				s.v1Contracts()
			case 4:
				s.v2Contracts()
			}
			s.versionWindow()
			b.SetAdd("eras", chaingen.Era(net.N, c.Height()))
		}
		if i == 0 {
			b.Sample(map[string]any{"network": net.Name, "family": fam, "height": c.Height(), "maturity_delay": net.N.MaturityDelay, "allow": net.N.HardforkV2.AllowHeight, "require": net.N.HardforkV2.RequireHeight})
		}
	}
}

func main() {
	harness.Main(harness.Spec{
		ID:     "C08",
		Rule:   "for each generated network (families compressed, v2genesis, scrambled, v1only, testnet, legacywin; maturity delays 0,1,2,3,5) and each rule of the boundary table (see sets.rules_with_both_sides) a scenario prepares the element on a real chain and offers the rule-limited transaction, rebuilt per tip, to ValidateBlock at every height from before the bound to after it, advancing by empty blocks. distinct = (rule, family, maturity delay, verdict pattern) / (rule, family, heights).",
		Assume: []string{"bounds are computed by the scenario from network parameters and recorded heights; the median timestamp is recomputed by the harness", "a storage proof before the proof-height/window-start block exists is formed with the tip's index (the best a prover could do)"},
		Batches: func(t string) int {
			if t == "quick" {
				return 16
			}
			return 48
		},
		Run:         run,
		MinEvals:    1500,
		MinDistinct: 80,
		Require:     []string{"maturity_delay_edge_cases", "far_apart_median_cases", "boundaries_observed_on_both_sides", "boundary_points_as_predicted", "after_policy_median_equal_to_lock_time_visited", "in_block_spends_of_immature_outputs_rejected_at_the_fix_height", "dev_address_override_timelock_cases", "genesis_payout_maturity_cases", "siafund_inputs_probed_at_a_policy_lock_height", "v1_in_block_spends_of_immature_outputs_rejected"},
	})
}
