package main

import (
	"fmt"

	"go.sia.tech/core/consensus"
	"go.sia.tech/core/types"
	"verif/internal/chaingen"
)

// paySFTo moves one siafund of a spendable siafund output to addr with a v2 transaction and returns its ID.
func (s *scen) paySFTo(addr types.Address) (types.SiafundOutputID, bool) {
	cs := s.c.Tip()
	for _, id := range s.c.S.OrderedSF() {
		e := s.c.S.SFEs[id]
		l := s.c.W.Locks[e.SiafundOutput.Address]
		if l == nil || e.SiafundOutput.Value < 2 || !l.SpendableV2(cs.Index.Height, chaingen.Median(cs)) || l.Kind == "uc-unknown-alg" {
			continue
		}
		txn := types.V2Transaction{SiafundInputs: []types.V2SiafundInput{{Parent: e.Copy(), ClaimAddress: l.Addr, SatisfiedPolicy: types.SatisfiedPolicy{Policy: l.Policy}}},
			SiafundOutputs: []types.SiafundOutput{{Value: 1, Address: addr}, {Value: e.SiafundOutput.Value - 1, Address: l.Addr}}}
		s.c.SignV2(cs, &txn, nil)
		if blk, bs, err := s.c.BlockWith(nil, []types.V2Transaction{txn}); err == nil && s.c.Offer(blk, bs, nil) == nil {
			return txn.SiafundOutputID(txn.ID(), 0), true
		}
		return types.SiafundOutputID{}, false
	}
	return types.SiafundOutputID{}, false
}

func (s *scen) spendSFV2(id types.SiafundOutputID, l *chaingen.Lock) func() (types.Block, consensus.V1BlockSupplement, error) {
	return func() (types.Block, consensus.V1BlockSupplement, error) {
		e, ok := s.c.S.SFEs[id]
		if !ok {
			return types.Block{}, consensus.V1BlockSupplement{}, fmt.Errorf("output gone")
		}
		txn := s.c.NewV2SFSpend(s.c.Tip(), e.Copy(), l, types.VoidAddress)
		return s.c.BlockWith(nil, []types.V2Transaction{txn})
	}
}

// v2SiafundLocks: the lock-height rules of v2 spend policies guard siafund inputs exactly as they guard siacoin
// inputs (the height compared is the parent block's).
func (s *scen) v2SiafundLocks() {
	if !s.v2Allowed() {
		return
	}
	k := s.c.W.Keys[1]
	H := s.c.Height() + 4
	pa := types.PolicyThreshold(2, []types.SpendPolicy{types.PolicyAbove(H), types.PolicyPublicKey(k.PublicKey())})
	la := &chaingen.Lock{Kind: "thresh", Addr: pa.Address(), Policy: pa, FullPolicy: pa, PolKeys: []types.PublicKey{k.PublicKey()}, V1MinChild: 1 << 40, V2MinParent: H}
	s.c.W.Locks[la.Addr] = la
	if id, ok := s.paySFTo(la.Addr); ok {
		s.run(probe{name: "v2-policy-above-compares-parent-height/siafund-input", mk: s.spendSFV2(id, la), want: func(tip consensus.State) bool { return tip.Index.Height >= H }, ruleErr: re("not above"), steps: int(H-s.c.Height()) + 3})
		s.b.Count("siafund_inputs_probed_at_a_policy_lock_height", 1)
	}
	T := s.c.Height() + 4
	uc := types.UnlockConditions{Timelock: T, PublicKeys: []types.UnlockKey{k.PublicKey().UnlockKey()}, SignaturesRequired: 1}
	lu := &chaingen.Lock{Kind: "uc-timelock", Addr: uc.UnlockHash(), UC: &uc, UCSigners: []int{0}, Policy: types.SpendPolicy{Type: types.PolicyTypeUnlockConditions(uc)}, PolKeys: []types.PublicKey{k.PublicKey()}, V1MinChild: T, V2MinParent: T}
	s.c.W.Locks[lu.Addr] = lu
	if id, ok := s.paySFTo(lu.Addr); ok {
		s.run(probe{name: "v2-legacy-unlock-conditions-timelock-compares-parent-height/siafund-input", mk: s.spendSFV2(id, lu), want: func(tip consensus.State) bool { return tip.Index.Height >= T }, ruleErr: re("not above"), steps: int(T-s.c.Height()) + 3})
		s.b.Count("siafund_inputs_probed_at_a_policy_lock_height", 1)
	}
}

// ephemeralMaturityV1: a v1 transaction spending the claim output of a siafund input of an earlier transaction of the
// same block spends an output that matures MaturityDelay blocks later.
func (s *scen) ephemeralMaturityV1() {
	n := s.c.Net.N
	if !s.v1Allowed() || n.MaturityDelay == 0 {
		return
	}
	cs := s.c.Tip()
	child := cs.Index.Height + 1
	claimLock := stdUC(s, 4)
	for _, id := range s.c.S.OrderedSF() {
		e := s.c.S.SFEs[id]
		l := s.c.W.Locks[e.SiafundOutput.Address]
		if l == nil || !l.SpendableV1(child) {
			continue
		}
		claim := cs.SiafundTaxRevenue.Sub(e.ClaimStart).Div64(10000).Mul64(e.SiafundOutput.Value)
		if claim.IsZero() {
			continue
		}
		a := types.Transaction{SiafundInputs: []types.SiafundInput{{ParentID: id, UnlockConditions: *l.UC, ClaimAddress: claimLock.Addr}}, SiafundOutputs: []types.SiafundOutput{{Value: e.SiafundOutput.Value, Address: l.Addr}}}
		s.c.SignV1(cs, &a, nil)
		// control: the siafund spend alone is accepted
		blk, bs, err := s.c.BlockWith([]types.Transaction{a}, nil)
		if err != nil || consensus.ValidateBlock(cs, blk, bs) != nil {
			return
		}
		bt := s.c.NewV1Spend(cs, id.ClaimOutputID(), claim, claimLock, types.VoidAddress)
		blk, bs, err = s.c.BlockWith([]types.Transaction{a, bt}, nil)
		if err != nil {
			return
		}
		verr := consensus.ValidateBlock(cs, blk, bs)
		s.b.Eval(1)
		s.b.Distinct("ephemeral-maturity-v1", s.fam, n.MaturityDelay)
		if verr == nil {
			s.b.Violate("C08/early/immature-output-spent-in-its-own-block/v1", fmt.Sprintf("at child height %d (maturity delay %d) the claim output of a v1 siafund input, maturing at %d, was spent by a later v1 transaction of the same block", child, n.MaturityDelay, child+n.MaturityDelay), map[string]any{"child": child, "family": s.fam})
		} else {
			s.b.Count("v1_in_block_spends_of_immature_outputs_rejected", 1)
			if !re("immature parent").MatchString(verr.Error()) {
				s.b.SetAdd("other_rule_rejections", "ephemeral-maturity-v1 => "+chaingen.NormErr(verr))
			}
		}
		return
	}
}
