package main

import (
	"fmt"
	"math"
	"time"

	"go.sia.tech/core/consensus"
	"go.sia.tech/core/types"
	"verif/internal/harness"
)

// Directed boundary cases at the edge of the parameter space (audit round 2), on hand-made networks driven through
// the real ValidateBlock / ApplyBlock only:
//
//  1. maturity delays close to 2^64: childHeight + delay must not wrap (an output with an unreachable maturity height
//     never matures);
//  2. a median of two timestamps more than 292 years apart (time.Duration saturates there): after(T) flips at the
//     true midpoint.

func edgeNet(delay uint64) (*consensus.Network, types.Block, types.SpendPolicy) {
	n := &consensus.Network{Name: "c08-edge", InitialCoinbase: types.Siacoins(300000), MinimumCoinbase: types.Siacoins(30000),
		InitialTarget: types.BlockID{0xFF}, BlockInterval: 10 * time.Minute, MaturityDelay: delay}
	n.HardforkOak.GenesisTimestamp = time.Unix(1618033988, 0).UTC()
	n.HardforkASIC.OakTime = 10000 * time.Second
	n.HardforkASIC.OakTarget = n.InitialTarget
	n.HardforkASIC.NonceFactor = 1009
	n.HardforkV2.AllowHeight = 1
	n.HardforkV2.RequireHeight = 1000
	n.HardforkV2.FinalCutHeight = 2000
	pol := types.AnyoneCanSpend()
	return n, types.Block{Timestamp: n.HardforkOak.GenesisTimestamp}, pol
}

func edgeMine(cs consensus.State, ts time.Time, miner types.Address, txns []types.V2Transaction) (types.Block, bool) {
	var fees types.Currency
	for _, t := range txns {
		fees = fees.Add(t.MinerFee)
	}
	blk := types.Block{ParentID: cs.Index.ID, Timestamp: ts, MinerPayouts: []types.SiacoinOutput{{Address: miner, Value: cs.BlockReward().Add(fees)}},
		V2: &types.V2BlockData{Height: cs.Index.Height + 1, Transactions: txns}}
	blk.V2.Commitment = cs.Commitment(miner, blk.Transactions, blk.V2Transactions())
	f := cs.NonceFactor()
	for i := 0; i < 1<<16; i++ {
		if blk.ID().CmpWork(cs.ChildTarget) >= 0 {
			return blk, true
		}
		blk.Nonce += f
	}
	return blk, false
}

func directedEdges(b *harness.B) {
	// (1) maturity delay close to 2^64
	for _, delay := range []uint64{math.MaxUint64, math.MaxUint64 - 1, 1 << 63, 5} {
		n, g, pol := edgeNet(delay)
		cs, _ := consensus.ApplyBlock(n.GenesisState(), g, consensus.V1BlockSupplement{}, time.Time{})
		b1, ok := edgeMine(cs, g.Timestamp.Add(time.Minute), pol.Address(), nil)
		if !ok || consensus.ValidateBlock(cs, b1, consensus.V1BlockSupplement{}) != nil {
			b.Inconclusive("edge network: block 1 not accepted")
			continue
		}
		cs1, au := consensus.ApplyBlock(cs, b1, consensus.V1BlockSupplement{}, g.Timestamp)
		var payout *types.SiacoinElement
		for _, d := range au.SiacoinElementDiffs() {
			if d.Created && d.SiacoinElement.ID == b1.ID().MinerOutputID(0) {
				e := d.SiacoinElement.Copy()
				payout = &e
			}
		}
		if payout == nil {
			b.Inconclusive("edge network: payout not reported")
			continue
		}
		txn := types.V2Transaction{SiacoinInputs: []types.V2SiacoinInput{{Parent: payout.Copy(), SatisfiedPolicy: types.SatisfiedPolicy{Policy: pol}}},
			SiacoinOutputs: []types.SiacoinOutput{{Value: payout.SiacoinOutput.Value, Address: types.VoidAddress}}}
		b2, ok := edgeMine(cs1, b1.Timestamp.Add(time.Minute), types.VoidAddress, []types.V2Transaction{txn})
		if !ok {
			continue
		}
		err := consensus.ValidateBlock(cs1, b2, consensus.V1BlockSupplement{})
		b.Eval(1)
		b.Count("maturity_delay_edge_cases", 1)
		b.Distinct("edge", "maturity-delay", delay)
		if err == nil {
			b.Violate("C08/early-accept/maturity/maturity-delay-close-to-2^64-wraps", fmt.Sprintf("with MaturityDelay = %d the miner payout of block 1 (recorded maturity height %d) is spent in block 2", delay, payout.MaturityHeight), map[string]any{"maturity_delay": delay, "recorded_maturity_height": payout.MaturityHeight})
		}
	}
	// (2) after(T) against the median of {t0, t0+400y}: the midpoint is t0+200y
	const year = 365 * 24 * 3600
	for _, c := range []struct {
		lockYears int64
		accept    bool
	}{{150, true}, {199, true}, {201, false}, {250, false}} {
		n, g, _ := edgeNet(0)
		t0 := g.Timestamp
		lock := types.PolicyAfter(time.Unix(t0.Unix()+c.lockYears*year, 0))
		g.Transactions = []types.Transaction{{SiacoinOutputs: []types.SiacoinOutput{{Value: types.Siacoins(1), Address: lock.Address()}}}}
		cs, au0 := consensus.ApplyBlock(n.GenesisState(), g, consensus.V1BlockSupplement{Transactions: make([]consensus.V1TransactionSupplement, 1)}, time.Time{})
		var out *types.SiacoinElement
		for _, d := range au0.SiacoinElementDiffs() {
			if d.Created && d.SiacoinElement.SiacoinOutput.Address == lock.Address() {
				e := d.SiacoinElement.Copy()
				out = &e
			}
		}
		b1, ok := edgeMine(cs, time.Unix(t0.Unix()+400*year, 0), types.VoidAddress, nil)
		if out == nil || !ok || consensus.ValidateBlock(cs, b1, consensus.V1BlockSupplement{}) != nil {
			b.Inconclusive("edge network: far-future block 1 not accepted")
			continue
		}
		cs1, au1 := consensus.ApplyBlock(cs, b1, consensus.V1BlockSupplement{}, t0)
		au1.UpdateElementProof(&out.StateElement)
		txn := types.V2Transaction{SiacoinInputs: []types.V2SiacoinInput{{Parent: out.Copy(), SatisfiedPolicy: types.SatisfiedPolicy{Policy: lock}}},
			SiacoinOutputs: []types.SiacoinOutput{{Value: out.SiacoinOutput.Value, Address: types.VoidAddress}}}
		b2, ok := edgeMine(cs1, b1.Timestamp, types.VoidAddress, []types.V2Transaction{txn})
		if !ok {
			continue
		}
		err := consensus.ValidateBlock(cs1, b2, consensus.V1BlockSupplement{})
		b.Eval(1)
		b.Count("far_apart_median_cases", 1)
		b.Distinct("edge", "median", c.lockYears)
		switch {
		case c.accept && err != nil:
			b.Violate("C08/late-reject/v2-after-policy/median-of-timestamps-more-than-292-years-apart", fmt.Sprintf("previous timestamps {t0, t0+400y} (median t0+200y): a spend locked by after(t0+%dy) is rejected: %v", c.lockYears, err), map[string]any{"lock_years": c.lockYears})
		case !c.accept && err == nil:
			b.Violate("C08/early-accept/v2-after-policy/median-of-timestamps-more-than-292-years-apart", fmt.Sprintf("previous timestamps {t0, t0+400y} (median t0+200y): a spend locked by after(t0+%dy) is accepted", c.lockYears), map[string]any{"lock_years": c.lockYears})
		}
	}
	// (3) a median on a half second (two timestamps an odd number of seconds apart): after(T) holds from the first
	// instant after T, so after(floor(median)) is satisfied and after(ceil(median)) is not
	for _, c := range []struct {
		lockOffset int64
		accept     bool
	}{{2, true}, {3, false}, {1, true}, {4, false}} {
		n, g, _ := edgeNet(0)
		t0 := g.Timestamp
		lock := types.PolicyAfter(time.Unix(t0.Unix()+c.lockOffset, 0))
		g.Transactions = []types.Transaction{{SiacoinOutputs: []types.SiacoinOutput{{Value: types.Siacoins(1), Address: lock.Address()}}}}
		cs, au0 := consensus.ApplyBlock(n.GenesisState(), g, consensus.V1BlockSupplement{Transactions: make([]consensus.V1TransactionSupplement, 1)}, time.Time{})
		var out *types.SiacoinElement
		for _, d := range au0.SiacoinElementDiffs() {
			if d.Created && d.SiacoinElement.SiacoinOutput.Address == lock.Address() {
				e := d.SiacoinElement.Copy()
				out = &e
			}
		}
		b1, ok := edgeMine(cs, time.Unix(t0.Unix()+5, 0), types.VoidAddress, nil)
		if out == nil || !ok || consensus.ValidateBlock(cs, b1, consensus.V1BlockSupplement{}) != nil {
			b.Inconclusive("edge network: block 1 not accepted (half-second median)")
			continue
		}
		cs1, au1 := consensus.ApplyBlock(cs, b1, consensus.V1BlockSupplement{}, t0)
		au1.UpdateElementProof(&out.StateElement)
		txn := types.V2Transaction{SiacoinInputs: []types.V2SiacoinInput{{Parent: out.Copy(), SatisfiedPolicy: types.SatisfiedPolicy{Policy: lock}}},
			SiacoinOutputs: []types.SiacoinOutput{{Value: out.SiacoinOutput.Value, Address: types.VoidAddress}}}
		b2, ok := edgeMine(cs1, time.Unix(t0.Unix()+6, 0), types.VoidAddress, []types.V2Transaction{txn})
		if !ok {
			continue
		}
		err := consensus.ValidateBlock(cs1, b2, consensus.V1BlockSupplement{})
		b.Eval(1)
		b.Count("half_second_median_lock_cases", 1)
		b.Distinct("edge", "half-second-median", c.lockOffset)
		switch {
		case c.accept && err != nil:
			b.Violate("C08/late-reject/v2-after-policy/median-on-a-half-second", fmt.Sprintf("previous timestamps {t0, t0+5s} (median t0+2.5s): a spend locked by after(t0+%ds) is rejected: %v", c.lockOffset, err), map[string]any{"lock_offset": c.lockOffset})
		case !c.accept && err == nil:
			b.Violate("C08/early-accept/v2-after-policy/median-on-a-half-second", fmt.Sprintf("previous timestamps {t0, t0+5s} (median t0+2.5s): a spend locked by after(t0+%ds) is accepted", c.lockOffset), map[string]any{"lock_offset": c.lockOffset})
		}
	}
}

func edgeMineV1(cs consensus.State, ts time.Time, txns []types.Transaction) (types.Block, bool) {
	blk := types.Block{ParentID: cs.Index.ID, Timestamp: ts, MinerPayouts: []types.SiacoinOutput{{Address: types.VoidAddress, Value: cs.BlockReward()}}, Transactions: txns}
	f := cs.NonceFactor()
	for i := 0; i < 1<<16; i++ {
		if blk.ID().CmpWork(cs.ChildTarget) >= 0 {
			return blk, true
		}
		blk.Nonce += f
	}
	return blk, false
}

// directedOwners: height rules on the less travelled ways of owning an output (seeded wave 8).
//
//	(a) the developer-address override: siafunds at HardforkDevAddr.OldAddress are spendable under the unlock
//	    conditions hashing to NewAddress; the time lock of the conditions presented holds on that way too - rejected
//	    below the lock height, accepted from it on;
//	(b) outputs the genesis block creates with a delay (a miner payout): the pre-genesis state carries a sentinel
//	    height, the maturity height is still 0 + MaturityDelay - immature below, spendable from it on.
func directedOwners(b *harness.B) {
	// (a)
	for _, lock := range []uint64{3, 6} {
		key := types.NewPrivateKeyFromSeed(make([]byte, 32))
		uc := types.UnlockConditions{Timelock: lock, PublicKeys: []types.UnlockKey{key.PublicKey().UnlockKey()}, SignaturesRequired: 1}
		n, g, _ := edgeNet(2)
		n.HardforkV2.AllowHeight, n.HardforkV2.RequireHeight, n.HardforkV2.FinalCutHeight = 1000, 2000, 3000
		n.HardforkDevAddr.Height = 1
		n.HardforkDevAddr.OldAddress = types.Address{0xD0, 0x1D}
		n.HardforkDevAddr.NewAddress = uc.UnlockHash()
		g.Transactions = []types.Transaction{{SiafundOutputs: []types.SiafundOutput{{Value: 10000, Address: n.HardforkDevAddr.OldAddress}}}}
		cs, au := consensus.ApplyBlock(n.GenesisState(), g, consensus.V1BlockSupplement{Transactions: make([]consensus.V1TransactionSupplement, 1)}, time.Time{})
		var sfe *types.SiafundElement
		for _, d := range au.SiafundElementDiffs() {
			if d.Created {
				e := d.SiafundElement.Copy()
				sfe = &e
			}
		}
		if sfe == nil {
			b.Inconclusive("owners: genesis siafund output not reported")
			continue
		}
		ts := g.Timestamp
		for h := uint64(1); h <= lock+2; h++ {
			ts = ts.Add(time.Minute)
			txn := types.Transaction{SiafundInputs: []types.SiafundInput{{ParentID: sfe.ID, UnlockConditions: uc, ClaimAddress: types.VoidAddress}},
				SiafundOutputs: []types.SiafundOutput{{Value: 10000, Address: types.VoidAddress}},
				Signatures:     []types.TransactionSignature{{ParentID: types.Hash256(sfe.ID), CoveredFields: types.CoveredFields{WholeTransaction: true}}}}
			sig := key.SignHash(cs.WholeSigHash(txn, txn.Signatures[0].ParentID, 0, 0, nil))
			txn.Signatures[0].Signature = sig[:]
			if blk, ok := edgeMineV1(cs, ts, []types.Transaction{txn}); ok {
				bs := consensus.V1BlockSupplement{Transactions: []consensus.V1TransactionSupplement{{SiafundInputs: []types.SiafundElement{sfe.Copy()}}}}
				err := consensus.ValidateBlock(cs, blk, bs)
				b.Eval(1)
				b.Count("dev_address_override_timelock_cases", 1)
				b.Distinct("owners", "dev-address-override", lock, h < lock, h == lock)
				switch {
				case h < lock && err == nil:
					b.Violate("C08/early-accept/v1-timelock/siafund-spent-through-the-developer-address-override", fmt.Sprintf("unlock conditions with time lock %d, presented through the HardforkDevAddr override, spend the siafund output at height %d", lock, h), map[string]any{"timelock": lock, "height": h})
				case h >= lock && err != nil:
					b.Violate("C08/late-reject/v1-timelock/siafund-spent-through-the-developer-address-override", fmt.Sprintf("unlock conditions with time lock %d, presented through the HardforkDevAddr override, are refused at height %d: %v", lock, h, err), map[string]any{"timelock": lock, "height": h})
				}
			}
			empty, ok := edgeMineV1(cs, ts, nil)
			if !ok || consensus.ValidateBlock(cs, empty, consensus.V1BlockSupplement{}) != nil {
				b.Inconclusive("owners: empty block not accepted")
				break
			}
			var eau consensus.ApplyUpdate
			cs, eau = consensus.ApplyBlock(cs, empty, consensus.V1BlockSupplement{}, g.Timestamp)
			eau.UpdateElementProof(&sfe.StateElement)
		}
	}
	// (b)
	for _, delay := range []uint64{0, 1, 3} {
		n, g, pol := edgeNet(delay)
		g.MinerPayouts = []types.SiacoinOutput{{Address: pol.Address(), Value: types.Siacoins(77)}}
		cs, au := consensus.ApplyBlock(n.GenesisState(), g, consensus.V1BlockSupplement{}, time.Time{})
		var payout *types.SiacoinElement
		for _, d := range au.SiacoinElementDiffs() {
			if d.Created && d.SiacoinElement.ID == g.ID().MinerOutputID(0) {
				e := d.SiacoinElement.Copy()
				payout = &e
			}
		}
		if payout == nil {
			b.Inconclusive("owners: genesis payout not reported")
			continue
		}
		ts := g.Timestamp
		for h := uint64(1); h <= delay+2; h++ {
			ts = ts.Add(time.Minute)
			txn := types.V2Transaction{SiacoinInputs: []types.V2SiacoinInput{{Parent: payout.Copy(), SatisfiedPolicy: types.SatisfiedPolicy{Policy: pol}}},
				SiacoinOutputs: []types.SiacoinOutput{{Value: payout.SiacoinOutput.Value, Address: types.VoidAddress}}}
			if blk, ok := edgeMine(cs, ts, types.VoidAddress, []types.V2Transaction{txn}); ok {
				err := consensus.ValidateBlock(cs, blk, consensus.V1BlockSupplement{})
				b.Eval(1)
				b.Count("genesis_payout_maturity_cases", 1)
				b.Distinct("owners", "genesis-payout", delay, h < delay, h == delay)
				switch {
				case h < delay && err == nil:
					b.Violate("C08/early-accept/maturity/payout-of-the-genesis-block", fmt.Sprintf("MaturityDelay %d: the genesis block's miner payout (recorded maturity height %d) is spent at height %d", delay, payout.MaturityHeight, h), map[string]any{"delay": delay, "height": h})
				case h >= delay && err != nil:
					b.Violate("C08/late-reject/maturity/payout-of-the-genesis-block", fmt.Sprintf("MaturityDelay %d: the genesis block's miner payout (recorded maturity height %d) is refused at height %d: %v", delay, payout.MaturityHeight, h, err), map[string]any{"delay": delay, "height": h, "recorded_maturity_height": payout.MaturityHeight})
				}
			}
			empty, ok := edgeMine(cs, ts, types.VoidAddress, nil)
			if !ok || consensus.ValidateBlock(cs, empty, consensus.V1BlockSupplement{}) != nil {
				b.Inconclusive("owners: empty block not accepted")
				break
			}
			var eau consensus.ApplyUpdate
			cs, eau = consensus.ApplyBlock(cs, empty, consensus.V1BlockSupplement{}, g.Timestamp)
			eau.UpdateElementProof(&payout.StateElement)
		}
	}
}
