// C02 — no double spend / double resolution.
//
// (a) Spent-set trace checker over the diff stream of accepted histories:
//
//	every element ID is spent / resolved at most once between its creation
//	and a revert, and created at most once.
//
// (b) Second-use tamper family: every block the real ValidateBlock accepted is
//
//	turned into variants that contain a SECOND USE of some element and are
//	otherwise impeccable (re-signed, payout/commitment/PoW re-sealed,
//	supplement rebuilt); each variant must be rejected. The untampered block
//	is the positive control (it was accepted).
package main

import (
	"fmt"
	"regexp"
	"strings"

	"go.sia.tech/core/consensus"
	"go.sia.tech/core/types"
	"verif/internal/chaingen"
	"verif/internal/harness"
)

type stale struct {
	kind string
	sc   types.SiacoinElement
	sf   types.SiafundElement
	v2fc types.V2FileContractElement
	x    *chaingen.ExtraElem
	at   uint64 // height of the block that used it
	lock *chaingen.Lock
}

type mon struct {
	b      *harness.B
	c      *chaingen.Chain
	fam    string
	spent  map[[32]byte]uint64 // id -> height at which it was spent/resolved
	made   map[[32]byte]uint64
	log    [][][32]byte // per applied block: ids spent, for revert
	logM   [][][32]byte
	stales []*stale
	ctx    string // appended to the trace keys while a directed scenario drives the chain
}

func (m *mon) use(id [32]byte, h uint64, what string, ids *[][32]byte) {
	if at, ok := m.spent[id]; ok {
		m.b.Violate("C02/trace/"+what+"-used-twice"+m.ctx, fmt.Sprintf("element %x reported %s at height %d was already %s at height %d with no revert in between", id[:8], what, h, what, at), map[string]any{"height": h})
	}
	m.spent[id] = h
	*ids = append(*ids, id)
}

func (m *mon) onApply(ev chaingen.ApplyEvent) {
	h := ev.Next.Index.Height
	var ids, mids [][32]byte
	mk := func(id [32]byte) {
		if at, ok := m.made[id]; ok {
			m.b.Violate("C02/trace/created-twice"+m.ctx, fmt.Sprintf("element %x created at height %d and again at %d", id[:8], at, h), nil)
		}
		m.made[id] = h
		mids = append(mids, id)
	}
	for _, d := range ev.AU.SiacoinElementDiffs() {
		if d.Created {
			mk(d.SiacoinElement.ID)
		}
		if d.Spent {
			m.use(d.SiacoinElement.ID, h, "spent", &ids)
		}
	}
	for _, d := range ev.AU.SiafundElementDiffs() {
		if d.Created {
			mk(d.SiafundElement.ID)
		}
		if d.Spent {
			m.use(d.SiafundElement.ID, h, "spent", &ids)
		}
	}
	createdSC := map[types.SiacoinOutputID]bool{}
	for _, d := range ev.AU.SiacoinElementDiffs() {
		if d.Created {
			createdSC[d.SiacoinElement.ID] = true
		}
	}
	for _, d := range ev.AU.FileContractElementDiffs() {
		if d.Created {
			mk(d.FileContractElement.ID)
		}
		if d.Resolved {
			m.use(d.FileContractElement.ID, h, "resolved", &ids)
			// one resolution pays one of the two output sets; both sets in one block are two resolutions
			fc := d.FileContractElement.FileContract
			if d.Revision != nil {
				fc = *d.Revision
			}
			valid, missed := 0, 0
			for i := range fc.ValidProofOutputs {
				if createdSC[d.FileContractElement.ID.ValidOutputID(i)] {
					valid++
				}
			}
			for i := range fc.MissedProofOutputs {
				if createdSC[d.FileContractElement.ID.MissedOutputID(i)] {
					missed++
				}
			}
			m.b.Count("v1_resolutions_payout_sets_checked", 1)
			if valid > 0 && missed > 0 {
				m.b.Violate("C02/trace/v1-contract-resolved-twice-in-one-block"+m.ctx, fmt.Sprintf("the block at height %d creates %d valid-proof outputs and %d missed-proof outputs of contract %x: it was resolved by a storage proof and by expiry", h, valid, missed, d.FileContractElement.ID[:8]), map[string]any{"height": h})
			}
		}
		if d.Revision != nil && !d.Resolved {
			if at, ok := m.spent[d.FileContractElement.ID]; ok {
				m.b.Violate("C02/trace/revised-after-resolution", fmt.Sprintf("v1 contract %x revised at %d after being resolved at %d", d.FileContractElement.ID[:8], h, at), nil)
			}
		}
	}
	for _, d := range ev.AU.V2FileContractElementDiffs() {
		if d.Created {
			mk(d.V2FileContractElement.ID)
		}
		if d.Resolution != nil {
			m.use(d.V2FileContractElement.ID, h, "resolved", &ids)
		}
		if d.Revision != nil && d.Resolution == nil {
			if at, ok := m.spent[d.V2FileContractElement.ID]; ok {
				m.b.Violate("C02/trace/revised-after-resolution", fmt.Sprintf("v2 contract %x revised at %d after being resolved at %d", d.V2FileContractElement.ID[:8], h, at), nil)
			}
		}
	}
	// every element an accepted block consumes is reported as consumed: a consumer of the update that is not told
	// keeps the element as live and can offer it again
	reported := map[[32]byte]bool{}
	for _, id := range ids {
		reported[id] = true
	}
	consumed := func(id [32]byte, what string) {
		m.b.Count("block_inputs_matched_against_reported_uses", 1)
		if !reported[id] {
			m.b.Violate("C02/trace/consumed-element-not-reported-"+what+m.ctx, fmt.Sprintf("the accepted block at height %d consumes element %x, which its update does not report as %s", h, id[:8], what), map[string]any{"height": h})
		}
	}
	for _, t := range ev.Block.Transactions {
		for _, in := range t.SiacoinInputs {
			consumed(in.ParentID, "spent")
		}
		for _, in := range t.SiafundInputs {
			consumed(in.ParentID, "spent")
		}
		for _, sp := range t.StorageProofs {
			consumed(sp.ParentID, "resolved")
		}
	}
	for _, t := range ev.Block.V2Transactions() {
		for _, in := range t.SiacoinInputs {
			consumed(in.Parent.ID, "spent")
		}
		for _, in := range t.SiafundInputs {
			consumed(in.Parent.ID, "spent")
		}
		for _, r := range t.FileContractResolutions {
			consumed(r.Parent.ID, "resolved")
		}
	}
	m.log = append(m.log, ids)
	m.logM = append(m.logM, mids)
	m.b.Count("trace_uses_checked", len(ids))

	// remember a few freshly used accumulator elements as stale copies for cross-block second use
	n := 0
	for _, txn := range ev.Block.V2Transactions() {
		for _, in := range txn.SiacoinInputs {
			if in.Parent.StateElement.LeafIndex == types.UnassignedLeafIndex || n >= 2 || len(m.stales) > 40 {
				continue
			}
			// the post-block proof of the (now spent) leaf is in the diff
			for _, d := range ev.AU.SiacoinElementDiffs() {
				if d.SiacoinElement.ID == in.Parent.ID && d.Spent && !d.Created {
					s := &stale{kind: "sc", sc: d.SiacoinElement.Copy(), at: h, lock: m.c.W.Locks[in.Parent.SiacoinOutput.Address]}
					s.x = &chaingen.ExtraElem{Tag: "stale", SE: &s.sc.StateElement}
					m.c.S.Extra = append(m.c.S.Extra, s.x)
					m.stales = append(m.stales, s)
					n++
				}
			}
		}
		for _, in := range txn.SiafundInputs {
			if in.Parent.StateElement.LeafIndex == types.UnassignedLeafIndex || n >= 3 || len(m.stales) > 40 {
				continue
			}
			for _, d := range ev.AU.SiafundElementDiffs() {
				if d.SiafundElement.ID == in.Parent.ID && d.Spent && !d.Created {
					s := &stale{kind: "sf", sf: d.SiafundElement.Copy(), at: h, lock: m.c.W.Locks[in.Parent.SiafundOutput.Address]}
					s.x = &chaingen.ExtraElem{Tag: "stale", SE: &s.sf.StateElement}
					m.c.S.Extra = append(m.c.S.Extra, s.x)
					m.stales = append(m.stales, s)
					n++
				}
			}
		}
		for _, res := range txn.FileContractResolutions {
			if n >= 4 || len(m.stales) > 40 {
				continue
			}
			for _, d := range ev.AU.V2FileContractElementDiffs() {
				if d.V2FileContractElement.ID == res.Parent.ID && d.Resolution != nil && !d.Created {
					e := d.V2FileContractElement.Copy()
					if d.Revision != nil {
						e.V2FileContract = *d.Revision
					}
					s := &stale{kind: "v2fc", v2fc: e, at: h}
					s.x = &chaingen.ExtraElem{Tag: "stale", SE: &s.v2fc.StateElement}
					m.c.S.Extra = append(m.c.S.Extra, s.x)
					m.stales = append(m.stales, s)
					n++
				}
			}
		}
	}
	// v1 spends: remember the element as supplied in the supplement, with proof updated by this block's update
	for i, txn := range ev.Block.Transactions {
		if i >= len(ev.Supp.Transactions) || n >= 5 || len(m.stales) > 40 {
			break
		}
		for _, e := range ev.Supp.Transactions[i].SiacoinInputs {
			_ = txn
			for _, d := range ev.AU.SiacoinElementDiffs() {
				if d.SiacoinElement.ID == e.ID && d.Spent && !d.Created && n < 5 {
					s := &stale{kind: "sc-v1", sc: d.SiacoinElement.Copy(), at: h, lock: m.c.W.Locks[e.SiacoinOutput.Address]}
					s.x = &chaingen.ExtraElem{Tag: "stale", SE: &s.sc.StateElement}
					m.c.S.Extra = append(m.c.S.Extra, s.x)
					m.stales = append(m.stales, s)
					n++
				}
			}
		}
	}
}

func (m *mon) onRevert(ev chaingen.RevertEvent) {
	ids := m.log[len(m.log)-1]
	m.log = m.log[:len(m.log)-1]
	for _, id := range ids {
		delete(m.spent, id)
	}
	mids := m.logM[len(m.logM)-1]
	m.logM = m.logM[:len(m.logM)-1]
	for _, id := range mids {
		delete(m.made, id)
	}
	// stale copies whose use was reverted are live again: stop treating them as stale
	h := ev.Prev.Index.Height
	for _, s := range m.stales {
		if s.at > h {
			s.x.Dead = true
		}
	}
}

// ---------------------------------------------------------------- variants

var reSecondUse = regexp.MustCompile(`double-spends|more than once|already been resolved|already resolved|conflicts with previous|nonexistent|not present in the accumulator|already been revised`)

type variant struct {
	name string
	b    types.Block
	// extraV1Supp lets a variant inject a stale element into the supplement of the appended v1 txn
	staleSC *types.SiacoinElement
}

func referenced(b *types.Block, ids map[[32]byte]bool, exceptV1, exceptV2 int) bool {
	for i, t := range b.Transactions {
		if i == exceptV1 {
			continue
		}
		for _, in := range t.SiacoinInputs {
			if ids[in.ParentID] {
				return true
			}
		}
		for _, in := range t.SiafundInputs {
			if ids[in.ParentID] {
				return true
			}
		}
		for _, r := range t.FileContractRevisions {
			if ids[r.ParentID] {
				return true
			}
		}
		for _, sp := range t.StorageProofs {
			if ids[sp.ParentID] {
				return true
			}
		}
	}
	for i, t := range b.V2Transactions() {
		if i == exceptV2 {
			continue
		}
		for _, in := range t.SiacoinInputs {
			if ids[in.Parent.ID] {
				return true
			}
		}
		for _, in := range t.SiafundInputs {
			if ids[in.Parent.ID] {
				return true
			}
		}
	}
	return false
}

func v1OutIDs(t *types.Transaction) map[[32]byte]bool {
	ids := map[[32]byte]bool{}
	for i := range t.SiacoinOutputs {
		ids[t.SiacoinOutputID(i)] = true
	}
	for i := range t.SiafundOutputs {
		ids[t.SiafundOutputID(i)] = true
	}
	for i := range t.FileContracts {
		ids[t.FileContractID(i)] = true
	}
	return ids
}

func v2OutIDs(t *types.V2Transaction) map[[32]byte]bool {
	ids := map[[32]byte]bool{}
	id := t.ID()
	for i := range t.SiacoinOutputs {
		ids[t.SiacoinOutputID(id, i)] = true
	}
	for i := range t.SiafundOutputs {
		ids[t.SiafundOutputID(id, i)] = true
	}
	for i := range t.FileContracts {
		ids[t.V2FileContractID(id, i)] = true
	}
	return ids
}

func (m *mon) scValue(b *types.Block, id types.SiacoinOutputID) (types.Currency, bool) {
	if e, ok := m.c.S.SCEs[id]; ok {
		return e.SiacoinOutput.Value, true
	}
	for i := range b.Transactions {
		t := &b.Transactions[i]
		for j, o := range t.SiacoinOutputs {
			if t.SiacoinOutputID(j) == id {
				return o.Value, true
			}
		}
	}
	return types.ZeroCurrency, false
}

func (m *mon) variants(cs consensus.State, orig types.Block) []variant {
	c := m.c
	var out []variant
	h := cs.Index.Height + 1
	n := c.Net.N
	v2ok := h >= n.HardforkV2.AllowHeight
	v1ok := h < n.HardforkV2.RequireHeight
	dest := c.W.StdV1(c.W.Keys[0]).Addr
	add := func(name string, b types.Block) { out = append(out, variant{name: name, b: b}) }
	ensureV2 := func(b *types.Block) {
		if b.V2 == nil {
			b.V2 = &types.V2BlockData{}
		}
	}

	// ---- v1 siacoin / siafund inputs
	for i := range orig.Transactions {
		t := &orig.Transactions[i]
		if len(t.SiacoinInputs) > 0 {
			in := t.SiacoinInputs[0]
			val, okv := m.scValue(&orig, in.ParentID)
			l := c.W.Locks[in.UnlockConditions.UnlockHash()]
			if okv && l != nil && l.UC != nil {
				// A1: same input twice inside the transaction (value re-balanced, re-signed)
				if !referenced(&orig, v1OutIDs(t), i, -1) && len(t.StorageProofs) == 0 {
					b := chaingen.CloneBlock(orig)
					tt := &b.Transactions[i]
					tt.SiacoinInputs = append(tt.SiacoinInputs, tt.SiacoinInputs[0])
					tt.SiacoinOutputs = append(tt.SiacoinOutputs, types.SiacoinOutput{Value: val, Address: dest})
					if !val.IsZero() {
						c.SignV1(cs, tt, nil)
						add("v1-siacoin-twice-in-one-txn", b)
					}
				}
				// A2: second spend in a later v1 transaction
				if v1ok && !val.IsZero() {
					b := chaingen.CloneBlock(orig)
					b.Transactions = append(b.Transactions, c.NewV1Spend(cs, in.ParentID, val, l, dest))
					add("v1-siacoin-then-v1-txn", b)
				}
				// C1: second spend by a v2 transaction of the same block
				if v2ok && !val.IsZero() && l.SpendableV2(cs.Index.Height, chaingen.Median(cs)) {
					var el types.SiacoinElement
					if e, ok := c.S.SCEs[in.ParentID]; ok {
						el = e.Copy()
					} else {
						el = types.SiacoinElement{ID: in.ParentID, StateElement: types.StateElement{LeafIndex: types.UnassignedLeafIndex}, SiacoinOutput: types.SiacoinOutput{Value: val, Address: l.Addr}}
					}
					b := chaingen.CloneBlock(orig)
					ensureV2(&b)
					b.V2.Transactions = append(b.V2.Transactions, c.NewV2Spend(cs, el, l, dest))
					add("v1-siacoin-then-v2-txn", b)
				}
			}
		}
		if len(t.SiafundInputs) > 0 {
			in := t.SiafundInputs[0]
			if e, ok := c.S.SFEs[in.ParentID]; ok {
				// D1/D2
				if !referenced(&orig, v1OutIDs(t), i, -1) {
					b := chaingen.CloneBlock(orig)
					tt := &b.Transactions[i]
					tt.SiafundInputs = append(tt.SiafundInputs, tt.SiafundInputs[0])
					tt.SiafundOutputs = append(tt.SiafundOutputs, types.SiafundOutput{Value: e.SiafundOutput.Value, Address: dest})
					c.SignV1(cs, tt, nil)
					add("v1-siafund-twice-in-one-txn", b)
				}
				if v1ok {
					b := chaingen.CloneBlock(orig)
					b.Transactions = append(b.Transactions, c.NewV1SFSpend(cs, in.ParentID, e.SiafundOutput.Value, in.UnlockConditions, dest))
					add("v1-siafund-then-v1-txn", b)
				}
				if l := c.W.Locks[e.SiafundOutput.Address]; v2ok && l != nil && l.SpendableV2(cs.Index.Height, chaingen.Median(cs)) {
					b := chaingen.CloneBlock(orig)
					ensureV2(&b)
					b.V2.Transactions = append(b.V2.Transactions, c.NewV2SFSpend(cs, e, l, dest))
					add("v1-siafund-then-v2-txn", b)
				}
			}
		}
		// F: v1 storage proofs
		if len(t.StorageProofs) > 0 {
			{
				b := chaingen.CloneBlock(orig)
				tt := &b.Transactions[i]
				tt.StorageProofs = append(tt.StorageProofs, tt.StorageProofs[0])
				c.SignV1(cs, tt, nil)
				add("v1-two-storage-proofs-in-one-txn", b)
			}
			{
				b := chaingen.CloneBlock(orig)
				b.Transactions = append(b.Transactions, types.Transaction{StorageProofs: []types.StorageProof{chaingen.CloneV1(*t).StorageProofs[0]}})
				add("v1-storage-proof-then-second-proof-txn", b)
			}
			// revision after the proof: only meaningful when the window opens at this height
			sp := t.StorageProofs[0]
			if e, ok := c.S.FCEs[sp.ParentID]; ok && e.FileContract.WindowStart == h {
				if info, ok := c.V1Infos[e.FileContract.UnlockHash]; ok {
					rev := e.FileContract
					rev.RevisionNumber++
					b := chaingen.CloneBlock(orig)
					rt := types.Transaction{FileContractRevisions: []types.FileContractRevision{{ParentID: sp.ParentID, UnlockConditions: info.UC, FileContract: rev}}}
					c.SignV1(cs, &rt, nil)
					b.Transactions = append(b.Transactions, rt)
					add("v1-revision-after-storage-proof", b)
				}
			}
		}
	}

	// ---- v1 inputs naming the ID of an element of ANOTHER kind that the block touched earlier.
	// MidState keeps one id->index map for all kinds; the input is then resolved to whatever
	// siacoin / siafund / contract element happens to sit at that index. An element spent or
	// resolved under its own ID and again under the borrowed ID is a second use.
	if v1ok && len(orig.Transactions) > 0 {
		scs, sfs, fcs := c.V1MidDiffs(orig)
		type alias struct {
			id   [32]byte
			kind string
		}
		aliasesAt := func(j int, want string) []alias {
			var as []alias
			if want != "siacoin" && j < len(scs) {
				as = append(as, alias{[32]byte(scs[j].SiacoinElement.ID), "siacoin"})
			}
			if want != "siafund" && j < len(sfs) {
				as = append(as, alias{[32]byte(sfs[j].SiafundElement.ID), "siafund"})
			}
			if want != "contract" && j < len(fcs) {
				as = append(as, alias{[32]byte(fcs[j].FileContractElement.ID), "contract"})
			}
			return as
		}
		nAlias := 0
		for j, d := range scs {
			e := d.SiacoinElement
			l := c.W.Locks[e.SiacoinOutput.Address]
			if l == nil || l.UC == nil || !l.SpendableV1(h) || e.SiacoinOutput.Value.IsZero() || e.MaturityHeight > h || nAlias >= 4 {
				continue
			}
			for _, a := range aliasesAt(j, "siacoin") {
				b := chaingen.CloneBlock(orig)
				b.Transactions = append(b.Transactions, c.NewV1Spend(cs, types.SiacoinOutputID(a.id), e.SiacoinOutput.Value, l, dest))
				name := "alias/v1-siacoin-spent-in-block-respent-under-in-block-" + a.kind + "-id"
				if !d.Spent {
					// created and still unspent: spend it under the borrowed ID and under its own
					b.Transactions = append(b.Transactions, c.NewV1Spend(cs, e.ID, e.SiacoinOutput.Value, l, dest))
					name = "alias/v1-siacoin-created-in-block-spent-under-in-block-" + a.kind + "-id-and-own-id"
				}
				add(name, b)
				nAlias++
			}
		}
		for j, d := range sfs {
			e := d.SiafundElement
			l := c.W.Locks[e.SiafundOutput.Address]
			if l == nil || l.UC == nil || !l.SpendableV1(h) || e.SiafundOutput.Value == 0 || nAlias >= 8 {
				continue
			}
			for _, a := range aliasesAt(j, "siafund") {
				b := chaingen.CloneBlock(orig)
				b.Transactions = append(b.Transactions, c.NewV1SFSpend(cs, types.SiafundOutputID(a.id), e.SiafundOutput.Value, *l.UC, dest))
				name := "alias/v1-siafund-spent-in-block-respent-under-in-block-" + a.kind + "-id"
				if !d.Spent {
					b.Transactions = append(b.Transactions, c.NewV1SFSpend(cs, e.ID, e.SiafundOutput.Value, *l.UC, dest))
					name = "alias/v1-siafund-created-in-block-spent-under-in-block-" + a.kind + "-id-and-own-id"
				}
				add(name, b)
				nAlias++
			}
		}
		// a storage proof repeated under a borrowed ID
		for i := range orig.Transactions {
			t := &orig.Transactions[i]
			for _, sp := range t.StorageProofs {
				for j, d := range fcs {
					if d.FileContractElement.ID != sp.ParentID {
						continue
					}
					for _, a := range aliasesAt(j, "contract") {
						sp2 := chaingen.CloneV1(*t).StorageProofs[0]
						sp2.ParentID = types.FileContractID(a.id)
						b := chaingen.CloneBlock(orig)
						b.Transactions = append(b.Transactions, types.Transaction{StorageProofs: []types.StorageProof{sp2}})
						add("alias/v1-storage-proof-repeated-under-in-block-"+a.kind+"-id", b)
					}
				}
				break
			}
		}
	}

	// ---- v2
	for i := range orig.V2Transactions() {
		t := &orig.V2.Transactions[i]
		if len(t.SiacoinInputs) > 0 {
			in := t.SiacoinInputs[0]
			l := c.W.Locks[in.Parent.SiacoinOutput.Address]
			val := in.Parent.SiacoinOutput.Value
			if l != nil && !val.IsZero() {
				// the doubled value must leave the 128-bit overflow pre-check (which now counts input values) alone
				if _, over := val.Mul64WithOverflow(8); !over && !referenced(&orig, v2OutIDs(t), -1, i) {
					b := chaingen.CloneBlock(orig)
					tt := &b.V2.Transactions[i]
					tt.SiacoinInputs = append(tt.SiacoinInputs, chaingen.CloneV2(*t).SiacoinInputs[0])
					tt.SiacoinOutputs = append(tt.SiacoinOutputs, types.SiacoinOutput{Value: val, Address: dest})
					c.SignV2(cs, tt, nil)
					add("v2-siacoin-twice-in-one-txn", b)
				}
				{
					b := chaingen.CloneBlock(orig)
					b.V2.Transactions = append(b.V2.Transactions, c.NewV2Spend(cs, in.Parent, l, dest))
					name := "v2-siacoin-then-v2-txn"
					if in.Parent.StateElement.LeafIndex == types.UnassignedLeafIndex {
						name = "v2-ephemeral-siacoin-spent-twice"
					}
					add(name, b)
				}
				if v1ok && l.SpendableV1(h) && in.Parent.StateElement.LeafIndex != types.UnassignedLeafIndex {
					b := chaingen.CloneBlock(orig)
					b.Transactions = append(b.Transactions, c.NewV1Spend(cs, in.Parent.ID, val, l, dest))
					add("v2-siacoin-and-v1-txn", b)
				}
			}
		}
		if len(t.SiafundInputs) > 0 {
			in := t.SiafundInputs[0]
			l := c.W.Locks[in.Parent.SiafundOutput.Address]
			if l != nil {
				if !referenced(&orig, v2OutIDs(t), -1, i) {
					b := chaingen.CloneBlock(orig)
					tt := &b.V2.Transactions[i]
					tt.SiafundInputs = append(tt.SiafundInputs, chaingen.CloneV2(*t).SiafundInputs[0])
					tt.SiafundOutputs = append(tt.SiafundOutputs, types.SiafundOutput{Value: in.Parent.SiafundOutput.Value, Address: dest})
					c.SignV2(cs, tt, nil)
					add("v2-siafund-twice-in-one-txn", b)
				}
				{
					b := chaingen.CloneBlock(orig)
					b.V2.Transactions = append(b.V2.Transactions, c.NewV2SFSpend(cs, in.Parent, l, dest))
					add("v2-siafund-then-v2-txn", b)
				}
				if v1ok && l.SpendableV1(h) && in.Parent.StateElement.LeafIndex != types.UnassignedLeafIndex {
					b := chaingen.CloneBlock(orig)
					b.Transactions = append(b.Transactions, c.NewV1SFSpend(cs, in.Parent.ID, in.Parent.SiafundOutput.Value, *l.UC, dest))
					add("v2-siafund-and-v1-txn", b)
				}
			}
		}
		if len(t.FileContractResolutions) > 0 {
			res := t.FileContractResolutions[0]
			kind := strings.TrimPrefix(fmt.Sprintf("%T", res.Resolution), "*types.")
			// G1: the same resolution twice in one transaction. For a renewal the
			// value equation is re-balanced (a second set of final outputs / new
			// contract would need funding), so only proofs and expirations here.
			if _, isRenew := res.Resolution.(*types.V2FileContractRenewal); !isRenew {
				if !referenced(&orig, v2OutIDs(t), -1, i) {
					b := chaingen.CloneBlock(orig)
					tt := &b.V2.Transactions[i]
					tt.FileContractResolutions = append(tt.FileContractResolutions, chaingen.CloneV2(*t).FileContractResolutions[0])
					c.SignV2(cs, tt, nil)
					add("v2-two-resolutions-in-one-txn/"+kind, b)
				}
				// G2: second resolution in a later transaction
				b := chaingen.CloneBlock(orig)
				b.V2.Transactions = append(b.V2.Transactions, types.V2Transaction{FileContractResolutions: []types.V2FileContractResolution{chaingen.CloneV2(*t).FileContractResolutions[0]}})
				add("v2-resolution-then-second-resolution-txn/"+kind, b)
			}
			// a second, fully funded renewal of a contract that was already renewed in this block
			if ren, isRenew := res.Resolution.(*types.V2FileContractRenewal); isRenew {
				used := map[types.SiacoinOutputID]bool{}
				for _, tt := range orig.V2Transactions() {
					for _, in := range tt.SiacoinInputs {
						used[in.Parent.ID] = true
					}
				}
				for _, tt := range orig.Transactions {
					for _, in := range tt.SiacoinInputs {
						used[in.ParentID] = true
					}
				}
				cost := ren.NewContract.RenterOutput.Value.Add(ren.NewContract.HostOutput.Value).Add(cs.V2FileContractTax(ren.NewContract))
				need := cost.Sub(ren.RenterRollover.Add(ren.HostRollover))
				for _, id := range c.S.OrderedSC() {
					e := c.S.SCEs[id]
					l := c.W.Locks[e.SiacoinOutput.Address]
					if used[id] || l == nil || !l.SpendableV2(cs.Index.Height, chaingen.Median(cs)) || e.MaturityHeight > h || e.SiacoinOutput.Value.Cmp(need) < 0 || l.Kind == "uc-unknown-alg" {
						continue
					}
					t2 := types.V2Transaction{
						SiacoinInputs:           []types.V2SiacoinInput{{Parent: e.Copy(), SatisfiedPolicy: types.SatisfiedPolicy{Policy: l.Policy}}},
						FileContractResolutions: []types.V2FileContractResolution{chaingen.CloneV2(*t).FileContractResolutions[0]},
					}
					if rest := e.SiacoinOutput.Value.Sub(need); !rest.IsZero() {
						t2.SiacoinOutputs = []types.SiacoinOutput{{Value: rest, Address: dest}}
					}
					c.SignV2(cs, &t2, nil)
					b := chaingen.CloneBlock(orig)
					b.V2.Transactions = append(b.V2.Transactions, t2)
					add("v2-renewal-then-second-funded-renewal-txn", b)
					// the same, inside the renewing transaction itself
					if !referenced(&orig, v2OutIDs(t), -1, i) {
						b := chaingen.CloneBlock(orig)
						tt := &b.V2.Transactions[i]
						tt.SiacoinInputs = append(tt.SiacoinInputs, types.V2SiacoinInput{Parent: e.Copy(), SatisfiedPolicy: types.SatisfiedPolicy{Policy: l.Policy}})
						tt.FileContractResolutions = append(tt.FileContractResolutions, chaingen.CloneV2(*t).FileContractResolutions[0])
						if rest := e.SiacoinOutput.Value.Sub(need); !rest.IsZero() {
							tt.SiacoinOutputs = append(tt.SiacoinOutputs, types.SiacoinOutput{Value: rest, Address: dest})
						}
						c.SignV2(cs, tt, nil)
						add("v2-two-funded-renewals-of-one-contract-in-one-txn", b)
					}
					break
				}
			}
			// second resolution of another kind: an expiration after any resolution, when the height allows it
			if fc := res.Parent.V2FileContract; h > fc.ExpirationHeight {
				if _, isExp := res.Resolution.(*types.V2FileContractExpiration); !isExp {
					b := chaingen.CloneBlock(orig)
					b.V2.Transactions = append(b.V2.Transactions, types.V2Transaction{FileContractResolutions: []types.V2FileContractResolution{{Parent: res.Parent.Copy(), Resolution: &types.V2FileContractExpiration{}}}})
					add("v2-resolution-then-expiration-txn/"+kind, b)
				}
			}
			// G3: revision after the resolution, when the height still allows revising
			if fc := res.Parent.V2FileContract; fc.ProofHeight >= h && fc.RevisionNumber < types.MaxRevisionNumber {
				_, okR := c.W.Priv(fc.RenterPublicKey)
				_, okH := c.W.Priv(fc.HostPublicKey)
				if okR && okH {
					rev := fc
					rev.RevisionNumber++
					rt := types.V2Transaction{FileContractRevisions: []types.V2FileContractRevision{{Parent: res.Parent.Copy(), Revision: rev}}}
					c.SignV2(cs, &rt, nil)
					b := chaingen.CloneBlock(orig)
					b.V2.Transactions = append(b.V2.Transactions, rt)
					add("v2-revision-after-resolution/"+kind, b)
				}
			}
		}
	}

	// ---- cross-block: stale copies of elements used in earlier blocks, proofs kept up to date
	for _, s := range m.stales {
		if s.x.Dead {
			continue
		}
		switch s.kind {
		case "sc":
			if v2ok && s.lock != nil && s.lock.SpendableV2(cs.Index.Height, chaingen.Median(cs)) && !s.sc.SiacoinOutput.Value.IsZero() && s.sc.MaturityHeight <= h {
				b := chaingen.CloneBlock(orig)
				ensureV2(&b)
				b.V2.Transactions = append(b.V2.Transactions, c.NewV2Spend(cs, s.sc, s.lock, dest))
				add("cross-block/v2-respend-of-spent-siacoin-with-maintained-proof", b)
			}
		case "sf":
			if v2ok && s.lock != nil && s.lock.SpendableV2(cs.Index.Height, chaingen.Median(cs)) {
				b := chaingen.CloneBlock(orig)
				ensureV2(&b)
				b.V2.Transactions = append(b.V2.Transactions, c.NewV2SFSpend(cs, s.sf, s.lock, dest))
				add("cross-block/v2-respend-of-spent-siafund-with-maintained-proof", b)
			}
		case "v2fc":
			if v2ok && h > s.v2fc.V2FileContract.ExpirationHeight {
				b := chaingen.CloneBlock(orig)
				ensureV2(&b)
				b.V2.Transactions = append(b.V2.Transactions, types.V2Transaction{FileContractResolutions: []types.V2FileContractResolution{{Parent: s.v2fc.Copy(), Resolution: &types.V2FileContractExpiration{}}}})
				add("cross-block/v2-second-resolution-of-resolved-contract-with-maintained-proof", b)
			}
		case "sc-v1":
			if v1ok && s.lock != nil && s.lock.SpendableV1(h) && !s.sc.SiacoinOutput.Value.IsZero() && s.sc.MaturityHeight <= h {
				b := chaingen.CloneBlock(orig)
				b.Transactions = append(b.Transactions, c.NewV1Spend(cs, s.sc.ID, s.sc.SiacoinOutput.Value, s.lock, dest))
				e := s.sc.Copy()
				out = append(out, variant{name: "cross-block/v1-respend-with-stale-element-in-supplement", b: b, staleSC: &e})
				// and with the honest supplement (the store no longer has the element)
				b2 := chaingen.CloneBlock(orig)
				b2.Transactions = append(b2.Transactions, c.NewV1Spend(cs, s.sc.ID, s.sc.SiacoinOutput.Value, s.lock, dest))
				add("cross-block/v1-respend-honest-supplement", b2)
			}
		}
	}
	return out
}

func (m *mon) onAccepted(cs consensus.State, orig types.Block, bs consensus.V1BlockSupplement, kinds []string) {
	vs := m.variants(cs, orig)
	for _, v := range vs {
		b := v.b
		err, vbs := m.c.TryVariant(&b)
		if chaingen.IsSealFailure(err) {
			m.b.Inconclusive("variant could not be sealed")
			continue
		}
		if v.staleSC != nil && err != nil {
			// retry with the stale element injected into the supplement of the last v1 transaction
			vbs.Transactions[len(vbs.Transactions)-1].SiacoinInputs = append(vbs.Transactions[len(vbs.Transactions)-1].SiacoinInputs, v.staleSC.Copy())
			err = consensus.ValidateBlock(cs, b, vbs)
		}
		m.b.Eval(1)
		m.b.Count("second_use_variants", 1)
		m.b.Distinct(v.name, chaingen.Era(m.c.Net.N, cs.Index.Height+1), len(orig.Transactions) > 0, orig.V2 != nil)
		m.b.SetAdd("variant_classes", v.name)
		if err == nil {
			m.b.Violate("C02/second-use-accepted/"+v.name, fmt.Sprintf("block at height %d containing a second use (%s) was accepted by ValidateBlock", cs.Index.Height+1, v.name), map[string]any{"height": cs.Index.Height + 1, "variant": v.name, "kinds": kinds})
		} else if cls := chaingen.NormErr(err); reSecondUse.MatchString(cls) {
			m.b.Count("second_use_rejected", 1)
			m.b.SetAdd("rejection_classes", v.name+" => "+cls)
		} else {
			// rejected, but by a rule that is not about the second use: the variant had
			// another flaw, so this case says nothing about the property
			m.b.Inconclusive("variant " + v.name + " rejected by an unrelated rule: " + cls)
		}
	}
}

func run(b *harness.B) {
	if b.Batch%4 == 0 {
		directedLegacyAlias(b)
	}
	nNets := b.Pick(3, 10)
	blocks := b.Pick(120, 500)
	for i := 0; i < nNets; i++ {
		fam := chaingen.Families[(b.Batch+i)%len(chaingen.Families)]
		rng := b.SubRng(fmt.Sprint("net", i))
		net := chaingen.GenNet(rng, fam, b.Batch*100+i)
		c := chaingen.NewChain(net, rng)
		m := &mon{b: b, c: c, fam: fam, spent: map[[32]byte]uint64{}, made: map[[32]byte]uint64{}}
		m.onApply(c.GenesisEvent)
		c.OnAccepted = m.onAccepted
		c.OnStoreApplied = func(ev chaingen.ApplyEvent) {
			if len(ev.Kinds) >= 3 {
				b.Sample(chaingen.DescribeBlock(ev.Prev, ev.Block, ev.Kinds))
			}
			m.onApply(ev)
			b.Eval(1)
			b.Count("blocks_applied", 1)
			b.SetAdd("eras", chaingen.Era(net.N, ev.Next.Index.Height))
		}
		c.OnStoreReverted = func(ev chaingen.RevertEvent) {
			m.onRevert(ev)
			b.Count("blocks_reverted", 1)
		}
		for done := 0; done < blocks; {
			done += c.Grow(1+rng.IntN(10), chaingen.Plan{MaxTxns: 6})
			if c.Height() > 2 && rng.IntN(4) == 0 {
				k := min(1+rng.IntN(4), int(c.Height()))
				for r := 0; r < k; r++ {
					c.RevertTip()
				}
			}
		}
		for k, v := range c.Stats {
			if len(k) > 12 && k[:12] == "gen_rejected" {
				b.Count("generator_library_disagreement:"+k, v)
			}
		}
		if i == 0 {
			b.Sample(map[string]any{"network": net.Name, "family": fam, "height": c.Height(), "spent_ids_tracked": len(m.spent), "stale_copies": len(m.stales)})
		}
	}
}

func main() {
	harness.Main(harness.Spec{
		ID:     "C02",
		Rule:   "chaingen histories (five families, reorgs). (a) spent-set/created-set trace checker over every ApplyUpdate/RevertUpdate. (b) every accepted block yields all applicable second-use variants (see sets.variant_classes: same input twice in a txn, in two txns v1-v1/v2-v2/v1-v2/v2-v1, ephemeral output spent twice, two storage proofs, revision after proof, two v2 resolutions in one or two txns, expiration after resolution, revision after resolution, cross-block re-spend with a proof maintained since before the first use, for v1 also with the stale element injected into the supplement), re-signed and re-sealed; each must be rejected. distinct = (variant class, era, block shape).",
		Assume: []string{"a variant's only fault is the second use: values are re-balanced, signatures and witnesses recreated, payout/commitment/PoW re-sealed, supplement rebuilt by the store model", "revision-and-resolution inside one v2 transaction and repeated revisions are not second uses under the statement and are not demanded to be rejected"},
		Batches: func(t string) int {
			if t == "quick" {
				return 16
			}
			return 64
		},
		Run:         run,
		MinEvals:    2000,
		MinDistinct: 60,
		Require:     []string{"directed_legacy_alias_histories_run", "blocks_applied", "blocks_reverted", "trace_uses_checked", "second_use_variants", "second_use_rejected", "block_inputs_matched_against_reported_uses"},
	})
}
