package main

import (
	"fmt"

	"go.sia.tech/core/types"
	"verif/internal/chaingen"
	"verif/internal/harness"
)

// directedLegacyAlias drives, on a chain of its own with the trace checker attached, the history reported by the
// second audit round: below the ephemeral-output height a v2 input with an in-block ("ephemeral") parent may name
// the ID of an attestation of the same block. Attestation-only transactions have no inputs and can be repeated
// verbatim, so the spending transaction can be repeated verbatim too and creates the SAME siacoin output ID in two
// blocks; both copies are then spent. Every block goes through the real ValidateBlock; the verdict is the trace
// checker's (created twice / spent twice).
func directedLegacyAlias(b *harness.B) {
	b.Count("directed_legacy_alias_histories_run", 1)
	rng := b.SubRng("legacy-alias")
	net := chaingen.GenNet(rng, "legacywin", 9000+b.Batch)
	c := chaingen.NewChain(net, rng)
	m := &mon{b: b, c: c, fam: "legacywin", spent: map[[32]byte]uint64{}, made: map[[32]byte]uint64{}}
	m.onApply(c.GenesisEvent)
	var dups []types.SiacoinElement
	var dupID types.SiacoinOutputID
	armed := false
	c.OnStoreApplied = func(ev chaingen.ApplyEvent) {
		m.onApply(ev)
		for j := range dups {
			ev.AU.UpdateElementProof(&dups[j].StateElement)
		}
		if armed {
			for _, d := range ev.AU.SiacoinElementDiffs() {
				if d.SiacoinElement.ID == dupID && d.Created && !d.Spent {
					dups = append(dups, d.SiacoinElement.Copy())
				}
			}
		}
	}
	c.OnStoreReverted = m.onRevert
	n := net.N
	for i := 0; i < 40 && c.Height() < 8; i++ {
		c.Grow(1, chaingen.Plan{MaxTxns: 3})
	}
	if c.Height()+4 >= n.HardforkV2.EphemeralOutputHeight || c.Height()+1 < n.HardforkV2.AllowHeight {
		return
	}
	key := c.W.Keys[3]
	pl := c.W.StdV2(key)
	cs := c.Tip()
	att := func(k string) types.Attestation {
		a := types.Attestation{PublicKey: key.PublicKey(), Key: k, Value: []byte("v")}
		a.Signature = key.SignHash(cs.AttestationSigHash(a))
		return a
	}
	attTxn := types.V2Transaction{Attestations: []types.Attestation{att("a"), att("b")}}
	aliasTxn := types.V2Transaction{
		SiacoinInputs: []types.V2SiacoinInput{{Parent: types.SiacoinElement{
			StateElement:  types.StateElement{LeafIndex: types.UnassignedLeafIndex},
			ID:            types.SiacoinOutputID(attTxn.AttestationID(attTxn.ID(), 1)),
			SiacoinOutput: types.SiacoinOutput{Address: pl.Addr, Value: types.NewCurrency64(7)},
		}}},
		SiacoinOutputs: []types.SiacoinOutput{{Address: pl.Addr, Value: types.NewCurrency64(7)}},
	}
	aliasTxn.SiacoinInputs[0].SatisfiedPolicy = c.W.Satisfy(pl, cs.InputSigHash(aliasTxn))
	dupID = aliasTxn.SiacoinOutputID(aliasTxn.ID(), 0)
	armed = true
	m.ctx = "/below-the-ephemeral-output-height/in-block-parent-naming-an-attestation-id"
	for i := 0; i < 2; i++ {
		cs = c.Tip()
		var fund *types.V2Transaction
		for _, id := range c.S.OrderedSC() {
			el := c.S.SCEs[id]
			l := c.W.Locks[el.SiacoinOutput.Address]
			if l != nil && l.Kind != "uc-unknown-alg" && l.SpendableV2(cs.Index.Height, chaingen.Median(cs)) && el.MaturityHeight <= cs.Index.Height+1 && !el.SiacoinOutput.Value.IsZero() && el.ID != dupID {
				t := c.NewV2Spend(cs, el.Copy(), l, pl.Addr)
				fund = &t
				break
			}
		}
		if fund == nil {
			b.Count("directed_legacy_alias_not_funded", 1)
			return
		}
		blk, bs, err := c.BlockWith(nil, []types.V2Transaction{chaingen.CloneV2(attTxn), *fund, chaingen.CloneV2(aliasTxn)})
		if err != nil {
			b.Count("directed_legacy_alias_not_built", 1)
			return
		}
		b.Eval(1)
		if err := c.Offer(blk, bs, []string{"directed-legacy-alias"}); err != nil {
			b.Count("directed_legacy_alias_rejected", 1)
			b.SetAdd("directed_legacy_alias_rejections", chaingen.NormErr(err))
			return
		}
		b.Count("directed_legacy_alias_blocks_accepted", 1)
	}
	// both copies are spent with the proofs maintained since their creation
	for i := 0; i < len(dups) && i < 2; i++ {
		cs = c.Tip()
		spend := types.V2Transaction{
			SiacoinInputs:  []types.V2SiacoinInput{{Parent: dups[i].Copy(), SatisfiedPolicy: types.SatisfiedPolicy{Policy: pl.Policy}}},
			SiacoinOutputs: []types.SiacoinOutput{{Address: types.VoidAddress, Value: dups[i].SiacoinOutput.Value}},
			ArbitraryData:  []byte{byte(i)},
		}
		spend.SiacoinInputs[0].SatisfiedPolicy = c.W.Satisfy(pl, cs.InputSigHash(spend))
		blk, bs, err := c.BlockWith(nil, []types.V2Transaction{spend})
		if err != nil {
			return
		}
		b.Eval(1)
		if err := c.Offer(blk, bs, []string{"directed-legacy-alias-spend"}); err != nil {
			b.SetAdd("directed_legacy_alias_rejections", fmt.Sprintf("spend %d: %s", i+1, chaingen.NormErr(err)))
			return
		}
		b.Count("directed_legacy_alias_spends_accepted", 1)
	}
}
