// C19 — RPC framing admits all valid messages, bounds reads; transports are faithful.
//
// Monitors (DESIGN.md §5 C19):
//
//	batch 0  RHP4: every Object at its largest protocol-admitted size and random
//	         smaller ones through the real Write*/Read*; contract-size dependent
//	         responses through the real builders / size functions.
//	batch 1  gateway: every Object both halves; maximal-weight valid(-shaped)
//	         blocks and transaction sets measured against the byte limits.
//	batch 2  read bound (counting reader under every Read*, hostile / endless
//	         streams), RHP4 error delivery, RHP2/RHP3 caller-limit boundaries.
//	batch 3  faithful transports over memconn (fragmentation to 1 byte, stalls)  [-race]
//	batch 4  faithful transports over TCP loopback                                [-race]
//	batch 5  tamper (byte flips / truncation through the memconn MITM) and
//	         handshake mismatches                                                 [-race]
//	thorough: further batches repeat 3..5 with other sub-seeds and 0..2 with
//	         more random instances.
package main

import (
	"time"

	"verif/internal/harness"
)

const baseBatches = 6

func run(b *harness.B) {
	switch b.Batch % baseBatches {
	case 0:
		runRHP4Fits(b)
		if b.Batch == 0 {
			runContractSizeResponses(b)
		}
	case 1:
		runGatewayFits(b)
		if b.Batch == 1 {
			runWeightVsBytes(b)
		}
	case 2:
		runReadBound(b)
		runErrorDelivery(b)
		runCallerLimits(b)
		runValidatorErrors(b)
	case 3:
		runTransports(b, false)
	case 4:
		runTransports(b, true)
	case 5:
		runTamper(b)
		runInterrupted(b)
		runHandshakeMismatch(b)
		if b.Batch == 5 {
			runR2HandshakeRejection(b)
		}
	}
}

func main() {
	harness.Main(harness.Spec{
		ID: "C19",
		Rule: "fits: one case = (object type, variant in {largest protocol-admitted instance, realistic, random, by-contract-size, max-weight}, log2 size class), written and read by the real Write*/Read*; " +
			"read bound: (type, hostile stream family, mutated prefix offset class); error delivery: (response type, code class, description length class); " +
			"transports: (transport, link in {memconn,tcp}, fragmentation class, stream, message type); every message derives from a per-(stream,seq) PRNG so it is unique, the trace checker compares the written and read sequences per stream; " +
			"tamper: (transport, flip|truncate, offset class in {length prefix, nonce, ciphertext, padding, tag, mux packet}); handshake: (protocol, mismatch kind, side). " +
			"A case is counted distinct by that structural shape, never by random payload values.",
		Assume: []string{
			"the declared-limit table in the check (written from the protocol constants) is what 'the limit the receiver applies' means for the read-bound oracle; a deliberate change of a maxLen must update it",
			"form/renew/refresh messages have no protocol count limit: only realistic sets (10 inputs with 40-hash proofs, 2 parents) are required to fit; capacity is reported",
			"detection and teardown inside go.sia.tech/mux is the dependency's; for mux-based transports only 'no different object is delivered' is judged",
			"deadlines are watchdogs only (firing = inconclusive)",
		},
		Batches: func(t string) int {
			if t == "quick" {
				return baseBatches
			}
			return 4 * baseBatches
		},
		Run: run,
		RaceBatches: func(t string) []int {
			n := baseBatches
			if t != "quick" {
				n = 4 * baseBatches
			}
			var out []int
			for k := 0; k < n; k++ {
				if m := k % baseBatches; m >= 3 {
					out = append(out, k)
				}
			}
			return out
		},
		ChildTimeout: func(t string) time.Duration {
			if t == "quick" {
				return 4 * time.Minute
			}
			return 25 * time.Minute
		},
		MinEvals:    15000,
		MinDistinct: 1200,
		Require: []string{"frames_interrupted_by_a_deadline", "caller_limits_at_the_top_of_the_range", "objects_max_size_roundtrips", "objects_random_roundtrips", "size_dependent_response_evaluations", "weight_vs_bytes_measurements",
			"max_weight_blocks_validated_by_ValidateBlock", "read_bound_cases", "errors_delivered", "caller_limit_boundary_cases",
			"transport_messages_checked", "transport_streams_checked", "rawresponse_payloads_checked",
			"tamper_cases_detected", "tamper_controls_untampered_ok", "handshake_mismatch_cases", "handshake_controls_ok"},
	})
}
