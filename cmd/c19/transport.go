package main

// Faithful-transport monitor (batches 3 and 4): gateway Dial/Accept + streams,
// RHP3 transports + concurrent streams, RHP2 encrypted transports, over memconn
// (fragmentation down to 1 byte, stalls) and TCP loopback. A trace checker
// compares, per stream and direction, the sequence of objects written with the
// sequence read.

import (
	"bytes"
	"encoding/binary"
	"errors"
	"fmt"
	"io"
	"math/rand/v2"
	"net"
	"os"
	"sort"
	"sync"
	"sync/atomic"
	"time"

	"go.sia.tech/core/gateway"
	rhp2 "go.sia.tech/core/rhp/v2"
	rhp3 "go.sia.tech/core/rhp/v3"
	"go.sia.tech/core/types"
	"verif/internal/harness"
	"verif/internal/memconn"
)

// ---- trace ----

type trace struct {
	mu      sync.Mutex
	written map[string][]any
	read    map[string][]any
	fails   []string
	over    bool // the watchdog has fired or an operation has failed: failures from here on are consequences
	onFail  func() // tears the session down after the first failure, so that the other side does not wait for the watchdog
}

// watchdog marks the moment the harness starts tearing the session down.
func (t *trace) watchdog() {
	t.mu.Lock()
	t.over = true
	t.mu.Unlock()
}

func newTrace() *trace { return &trace{written: map[string][]any{}, read: map[string][]any{}} }

func (t *trace) w(key string, o any) {
	t.mu.Lock()
	t.written[key] = append(t.written[key], o)
	t.mu.Unlock()
}
func (t *trace) r(key string, o any) {
	t.mu.Lock()
	t.read[key] = append(t.read[key], o)
	t.mu.Unlock()
}
func (t *trace) fail(format string, a ...any) {
	t.mu.Lock()
	var cb func()
	if !t.over {
		t.fails = append(t.fails, fmt.Sprintf(format, a...))
		t.over = true
		cb = t.onFail
	}
	t.mu.Unlock()
	if cb != nil {
		cb()
	}
}

// check is the trace checker: per stream and direction everything written is
// read, equal, exactly once, in order.
func (t *trace) check(b *harness.B, transport, link, frag string, watchdogFired bool) {
	t.mu.Lock()
	defer t.mu.Unlock()
	keys := map[string]bool{}
	for k := range t.written {
		keys[k] = true
	}
	for k := range t.read {
		keys[k] = true
	}
	var ks []string
	for k := range keys {
		ks = append(ks, k)
	}
	sort.Strings(ks)
	wit := func(k string, i int) map[string]any {
		return map[string]any{"transport": transport, "link": link, "fragmentation": frag, "stream": k, "index": i, "written": len(t.written[k]), "read": len(t.read[k]), "errors": t.fails}
	}
	if watchdogFired && len(t.fails) == 0 {
		b.Inconclusive(fmt.Sprintf("watchdog fired during %s session over %s (%s)", transport, link, frag))
		return
	}
	// an operation that failed BEFORE the watchdog fired is an observation (the side that saw it stops, the other side
	// then blocks until the watchdog tears the session down); what was lost afterwards is not judged
	for _, f := range t.fails {
		b.Violate("C19/transport/"+transport+"/operation-failed", f, map[string]any{"transport": transport, "link": link, "fragmentation": frag, "errors": t.fails})
		break
	}
	if watchdogFired {
		return
	}
	for _, k := range ks {
		w, r := t.written[k], t.read[k]
		b.Eval(1)
		b.Count("transport_streams_checked", 1)
		n := min(len(w), len(r))
		for i := 0; i < n; i++ {
			b.Eval(1)
			if d := equalObj(w[i], r[i]); d != "" {
				wt := wit(k, i)
				wt["difference"], wt["type"] = d, typeName(w[i])
				b.Violate("C19/transport/"+transport+"/different-object/"+typeName(w[i]), fmt.Sprintf("message %d of stream %s was read as a different object: %s", i, k, d), wt)
				break
			}
			b.Count("transport_messages_checked", 1)
			b.Distinct("transport", transport, link, frag, typeName(w[i]))
		}
		if len(w) != len(r) {
			b.Violate("C19/transport/"+transport+"/lost-or-duplicated", fmt.Sprintf("stream %s: %d messages written, %d read", k, len(w), len(r)), wit(k, n))
		}
	}
}

// ---- links ----

type fragClass struct {
	name string
	opt  memconn.Options
}

func fragClasses(g G) []fragClass {
	return []fragClass{
		{"frag-1", memconn.Options{MaxChunk: 1}},
		{"frag-1-stalls", memconn.Options{MaxChunk: 1, StallEvery: 997, Stall: 30 * time.Microsecond}},
		{"frag-7", memconn.Options{MaxChunk: 7}},
		{"frag-64-stalls", memconn.Options{MaxChunk: 64, StallEvery: 211, Stall: 50 * time.Microsecond}},
		{"frag-1500", memconn.Options{MaxChunk: 1500}},
		{"whole", memconn.Options{}},
		{"whole-tinybuf", memconn.Options{BufSize: 977}},
	}
}

func newLink(tcp bool, opt memconn.Options) (a, b net.Conn, err error) {
	if !tcp {
		x, y := memconn.Pipe(opt)
		return x, y, nil
	}
	l, err := net.Listen("tcp", "127.0.0.1:0")
	if err != nil {
		return nil, nil, err
	}
	defer l.Close()
	type res struct {
		c   net.Conn
		err error
	}
	ch := make(chan res, 1)
	go func() { c, err := l.Accept(); ch <- res{c, err} }()
	a, err = net.DialTimeout("tcp", l.Addr().String(), 10*time.Second)
	if err != nil {
		return nil, nil, err
	}
	r := <-ch
	return a, r.c, r.err
}

func subG(seed1, seed2 uint64) G { return G{r: rand.New(rand.NewPCG(seed1, seed2))} }

// ---- gateway ----

const gwKinds = 9

func gwCloneReq(o gateway.Object) gateway.Object {
	switch r := o.(type) {
	case *gateway.RPCShareNodes:
		return &gateway.RPCShareNodes{}
	case *gateway.RPCDiscoverIP:
		return &gateway.RPCDiscoverIP{}
	case *gateway.RPCSendHeaders:
		return &gateway.RPCSendHeaders{Index: r.Index, Max: r.Max}
	case *gateway.RPCSendV2Blocks:
		return &gateway.RPCSendV2Blocks{History: append([]types.BlockID(nil), r.History...), Max: r.Max}
	case *gateway.RPCSendTransactions:
		return &gateway.RPCSendTransactions{Index: r.Index, Hashes: append([]types.Hash256(nil), r.Hashes...)}
	case *gateway.RPCSendCheckpoint:
		return &gateway.RPCSendCheckpoint{Index: r.Index}
	case *gateway.RPCRelayV2Header:
		return &gateway.RPCRelayV2Header{Header: r.Header}
	case *gateway.RPCRelayV2BlockOutline:
		return &gateway.RPCRelayV2BlockOutline{Block: r.Block}
	case *gateway.RPCRelayV2TransactionSet:
		return &gateway.RPCRelayV2TransactionSet{Index: r.Index, Transactions: r.Transactions}
	}
	panic("unknown gateway object")
}

func gwMakeReq(g G, kind int, small bool) gateway.Object {
	switch kind {
	case 0:
		return &gateway.RPCShareNodes{}
	case 1:
		return &gateway.RPCDiscoverIP{}
	case 2:
		return &gateway.RPCSendHeaders{Index: g.chainIndex(), Max: uint64(g.n(30))}
	case 3:
		var h []types.BlockID
		for i, n := 0, g.n(33); i < n; i++ {
			h = append(h, types.BlockID(g.hash()))
		}
		return &gateway.RPCSendV2Blocks{History: h, Max: uint64(1 + g.n(3))}
	case 4:
		return &gateway.RPCSendTransactions{Index: g.chainIndex(), Hashes: g.hashes(g.n(20))}
	case 5:
		return &gateway.RPCSendCheckpoint{Index: g.chainIndex()}
	case 6:
		return &gateway.RPCRelayV2Header{Header: g.header()}
	case 7:
		blk := g.block(g.n(2), g.n(4))
		blk.MinerPayouts = blk.MinerPayouts[:1]
		var om []types.V2Transaction
		if len(blk.V2.Transactions) > 0 && g.n(2) == 0 {
			om = blk.V2.Transactions[:1]
		}
		return &gateway.RPCRelayV2BlockOutline{Block: gateway.OutlineBlock(blk, nil, om)}
	default:
		return &gateway.RPCRelayV2TransactionSet{Index: g.chainIndex(), Transactions: g.v2txns(1+g.n(3), g.n(20))}
	}
}

func gwFillResp(g G, o gateway.Object) {
	switch r := o.(type) {
	case *gateway.RPCShareNodes:
		for i, n := 0, g.n(10); i < n; i++ {
			r.Peers = append(r.Peers, ipv6Peer(g))
		}
	case *gateway.RPCDiscoverIP:
		r.IP = fmt.Sprintf("%d.%d.%d.%d", g.n(256), g.n(256), g.n(256), g.n(256))
	case *gateway.RPCSendHeaders:
		r.Headers = g.headers(g.n(int(r.Max) + 1))
		r.Remaining = g.small()
	case *gateway.RPCSendV2Blocks:
		for i, n := 0, g.n(int(r.Max)+1); i < n; i++ {
			r.Blocks = append(r.Blocks, g.block(g.n(2), g.n(4)-1))
		}
		r.Remaining = g.small()
	case *gateway.RPCSendTransactions:
		r.Transactions = g.v1txns(g.n(3))
		r.V2Transactions = g.v2txns(g.n(3), g.n(20))
	case *gateway.RPCSendCheckpoint:
		r.Block = g.block(g.n(2), g.n(4)-1)
		r.State = g.state()
	}
}

type gwSession struct {
	d, a   *gateway.Transport
	dc, ac net.Conn
}

func gwConnect(dc, ac net.Conn, hd, ha gateway.Header) (*gwSession, error, error) {
	type res struct {
		t   *gateway.Transport
		err error
	}
	ch := make(chan res, 1)
	go func() { t, err := gateway.Accept(ac, ha); ch <- res{t, err} }()
	dt, derr := gateway.Dial(dc, hd)
	ar := <-ch
	return &gwSession{d: dt, a: ar.t, dc: dc, ac: ac}, derr, ar.err
}

func runGatewaySession(b *harness.B, g G, tcp bool, fc fragClass, nStreams, nRPC int) {
	link := "memconn"
	if tcp {
		link = "tcp"
	}
	opt := fc.opt
	opt.Seed1, opt.Seed2 = g.u64(), g.u64()
	dc, ac, err := newLink(tcp, opt)
	if err != nil {
		b.Inconclusive("cannot create link: " + err.Error())
		return
	}
	dl := time.Now().Add(watchdog)
	dc.SetDeadline(dl)
	ac.SetDeadline(dl)
	genesis := types.BlockID(g.hash())
	hd := gateway.Header{GenesisID: genesis, NetAddress: "10.19.0.1:9981"}
	ha := gateway.Header{GenesisID: genesis, NetAddress: "10.19.0.2:9981"}
	g.fill(hd.UniqueID[:])
	g.fill(ha.UniqueID[:])
	ha.UniqueID[0] = ^hd.UniqueID[0]
	sess, derr, aerr := gwConnect(dc, ac, hd, ha)
	if derr != nil || aerr != nil {
		dc.Close()
		ac.Close()
		if isTimeout(derr) || isTimeout(aerr) {
			b.Inconclusive("watchdog fired in gateway handshake")
			return
		}
		b.Violate("C19/transport/gateway/handshake-failed", fmt.Sprintf("matching headers, handshake failed: dial=%v accept=%v", derr, aerr), map[string]any{"link": link, "fragmentation": fc.name})
		return
	}
	b.Count("handshake_controls_ok", 1)
	dc.SetDeadline(time.Time{})
	ac.SetDeadline(time.Time{})
	if sess.d.UniqueID != ha.UniqueID || sess.a.UniqueID != hd.UniqueID || sess.d.Version != "2.0.0" || sess.a.Version != "2.0.0" {
		b.Violate("C19/transport/gateway/handshake-metadata", "peer metadata after the handshake differs from what the peer sent", map[string]any{"dial": fmt.Sprint(sess.d.UniqueID, sess.d.Version, sess.d.Addr), "accept": fmt.Sprint(sess.a.UniqueID, sess.a.Version, sess.a.Addr)})
	}
	tr := newTrace()
	var fired sync.Once
	wdFired := false
	wd := time.AfterFunc(watchdog, func() { fired.Do(func() { wdFired = true; tr.watchdog() }); sess.d.Close(); sess.a.Close() })
	seedA, seedB := g.u64(), g.u64()
	var wg sync.WaitGroup
	// server: accept nStreams streams
	wg.Add(1)
	go func() {
		defer wg.Done()
		var swg sync.WaitGroup
		for i := 0; i < nStreams; i++ {
			s, err := sess.a.AcceptStream()
			if err != nil {
				tr.fail("AcceptStream: %v", err)
				break
			}
			swg.Add(1)
			go func() {
				defer swg.Done()
				defer s.Close()
				label := ""
				for j := 0; ; j++ {
					id, err := s.ReadID()
					if err != nil {
						if j > 0 && (errors.Is(err, io.EOF) || errors.Is(err, io.ErrUnexpectedEOF)) {
							return // client closed the stream after its last RPC
						}
						tr.fail("server ReadID (stream %q rpc %d): %v", label, j, err)
						return
					}
					o := gateway.ObjectForID(id)
					if o == nil {
						tr.fail("server: unknown RPC id %v on stream %q", id, label)
						return
					}
					if err := s.ReadRequest(o); err != nil {
						tr.fail("server ReadRequest %T (stream %q): %v", o, label, err)
						return
					}
					if j == 0 {
						h, ok := o.(*gateway.RPCRelayV2Header)
						if !ok {
							tr.fail("server: first RPC on a stream is %T, not the tag", o)
							return
						}
						label = fmt.Sprint("s", h.Header.Nonce)
					}
					tr.r(label+"/req", o)
					resp := gwCloneReq(o)
					gwFillResp(subG(seedB^uint64(j), uint64(len(label))*7919+uint64(j)), resp)
					if gateway.VerifMaxResponseLen(resp) == 0 {
						continue // no response for relay RPCs
					}
					tr.w(label+"/resp", resp)
					if err := s.WriteResponse(resp); err != nil {
						tr.fail("server WriteResponse %T: %v", resp, err)
						return
					}
				}
			}()
		}
		swg.Wait()
	}()
	// client streams
	for i := 0; i < nStreams; i++ {
		wg.Add(1)
		go func(i int) {
			defer wg.Done()
			sg := subG(seedA, uint64(i))
			s, err := sess.d.DialStream()
			if err != nil {
				tr.fail("DialStream: %v", err)
				return
			}
			defer s.Close()
			label := fmt.Sprint("s", i)
			for j := 0; j <= nRPC; j++ {
				var req gateway.Object
				if j == 0 {
					h := sg.header()
					h.Nonce = uint64(i)
					req = &gateway.RPCRelayV2Header{Header: h}
				} else {
					req = gwMakeReq(sg, sg.n(gwKinds), true)
				}
				tr.w(label+"/req", req)
				if err := s.WriteID(req); err != nil {
					tr.fail("client WriteID: %v", err)
					return
				}
				if err := s.WriteRequest(req); err != nil {
					tr.fail("client WriteRequest %T: %v", req, err)
					return
				}
				recv := gwCloneReq(req)
				if gateway.VerifMaxResponseLen(recv) == 0 {
					continue
				}
				if err := s.ReadResponse(recv); err != nil {
					tr.fail("client ReadResponse %T: %v", recv, err)
					return
				}
				tr.r(label+"/resp", recv)
			}
		}(i)
	}
	wg.Wait()
	wd.Stop()
	sess.d.Close()
	sess.a.Close()
	tr.check(b, "gateway", link, fc.name, wdFired)
}

// ---- RHP3 ----

type r3kind struct {
	name  string
	gen   func(g G, size int) rhp3.ProtocolObject
	fresh func() rhp3.ProtocolObject
}

func (g G) r3account() (a rhp3.Account) {
	if g.n(5) == 0 {
		return rhp3.ZeroAccount
	}
	g.fill(a[:])
	a[0] |= 1
	return
}

func r3kinds() []r3kind {
	return []r3kind{
		{"PayByEphemeralAccountRequest", func(g G, _ int) rhp3.ProtocolObject {
			p := &rhp3.PayByEphemeralAccountRequest{Account: g.r3account(), Expiry: g.small(), Amount: g.cur(), Signature: g.sig(), Priority: int64(g.u64())}
			g.fill(p.Nonce[:])
			return p
		}, func() rhp3.ProtocolObject { return new(rhp3.PayByEphemeralAccountRequest) }},
		{"PayByContractRequest", func(g G, _ int) rhp3.ProtocolObject {
			return &rhp3.PayByContractRequest{ContractID: types.FileContractID(g.hash()), RevisionNumber: g.small(), ValidProofValues: g.curs(g.n(3)), MissedProofValues: g.curs(g.n(4)), RefundAccount: g.r3account(), Signature: g.sig()}
		}, func() rhp3.ProtocolObject { return new(rhp3.PayByContractRequest) }},
		{"PaymentResponse", func(g G, _ int) rhp3.ProtocolObject { return &rhp3.PaymentResponse{Signature: g.sig()} }, func() rhp3.ProtocolObject { return new(rhp3.PaymentResponse) }},
		{"RPCUpdatePriceTableResponse", func(g G, n int) rhp3.ProtocolObject {
			return &rhp3.RPCUpdatePriceTableResponse{PriceTableJSON: g.bytes(g.n(n + 1))}
		}, func() rhp3.ProtocolObject { return new(rhp3.RPCUpdatePriceTableResponse) }},
		{"RPCPriceTableResponse", func(g G, _ int) rhp3.ProtocolObject { return &rhp3.RPCPriceTableResponse{} }, func() rhp3.ProtocolObject { return new(rhp3.RPCPriceTableResponse) }},
		{"RPCFundAccountRequest", func(g G, _ int) rhp3.ProtocolObject { return &rhp3.RPCFundAccountRequest{Account: g.r3account()} }, func() rhp3.ProtocolObject { return new(rhp3.RPCFundAccountRequest) }},
		{"RPCFundAccountResponse", func(g G, _ int) rhp3.ProtocolObject {
			return &rhp3.RPCFundAccountResponse{Balance: g.cur(), Receipt: rhp3.FundAccountReceipt{Host: g.uk(), Account: g.r3account(), Amount: g.cur(), Timestamp: g.tm()}, Signature: g.sig()}
		}, func() rhp3.ProtocolObject { return new(rhp3.RPCFundAccountResponse) }},
		{"RPCAccountBalanceRequest", func(g G, _ int) rhp3.ProtocolObject { return &rhp3.RPCAccountBalanceRequest{Account: g.r3account()} }, func() rhp3.ProtocolObject { return new(rhp3.RPCAccountBalanceRequest) }},
		{"RPCAccountBalanceResponse", func(g G, _ int) rhp3.ProtocolObject { return &rhp3.RPCAccountBalanceResponse{Balance: g.cur()} }, func() rhp3.ProtocolObject { return new(rhp3.RPCAccountBalanceResponse) }},
		{"RPCExecuteProgramRequest", func(g G, n int) rhp3.ProtocolObject {
			return &rhp3.RPCExecuteProgramRequest{FileContractID: types.FileContractID(g.hash()), Program: r3program(g, g.n(10)), ProgramData: g.bytes(g.n(n + 1))}
		}, func() rhp3.ProtocolObject { return new(rhp3.RPCExecuteProgramRequest) }},
		{"RPCExecuteProgramResponse", func(g G, n int) rhp3.ProtocolObject {
			out := g.bytes(g.n(n + 1))
			r := &rhp3.RPCExecuteProgramResponse{AdditionalCollateral: g.cur(), OutputLength: uint64(len(out)), NewMerkleRoot: g.hash(), NewSize: g.small(), Proof: g.hashes(g.n(20)), TotalCost: g.cur(), FailureRefund: g.cur(), Output: out}
			if g.n(3) == 0 {
				r.Error = errors.New(g.str(1 + g.n(40)))
			}
			return r
		}, func() rhp3.ProtocolObject { return new(rhp3.RPCExecuteProgramResponse) }},
		{"RPCFinalizeProgramRequest", func(g G, _ int) rhp3.ProtocolObject {
			return &rhp3.RPCFinalizeProgramRequest{Signature: g.sig(), RevisionNumber: g.small(), ValidProofValues: g.curs(g.n(3)), MissedProofValues: g.curs(g.n(4))}
		}, func() rhp3.ProtocolObject { return new(rhp3.RPCFinalizeProgramRequest) }},
		{"RPCFinalizeProgramResponse", func(g G, _ int) rhp3.ProtocolObject { return &rhp3.RPCFinalizeProgramResponse{Signature: g.sig()} }, func() rhp3.ProtocolObject { return new(rhp3.RPCFinalizeProgramResponse) }},
		{"RPCLatestRevisionRequest", func(g G, _ int) rhp3.ProtocolObject {
			return &rhp3.RPCLatestRevisionRequest{ContractID: types.FileContractID(g.hash())}
		}, func() rhp3.ProtocolObject { return new(rhp3.RPCLatestRevisionRequest) }},
		{"RPCLatestRevisionResponse", func(g G, _ int) rhp3.ProtocolObject { return &rhp3.RPCLatestRevisionResponse{Revision: g.v1rev()} }, func() rhp3.ProtocolObject { return new(rhp3.RPCLatestRevisionResponse) }},
		{"RPCRenewContractRequest", func(g G, _ int) rhp3.ProtocolObject {
			return &rhp3.RPCRenewContractRequest{TransactionSet: g.v1txns(g.n(3)), RenterKey: g.uk(), FinalRevisionSignature: g.sig()}
		}, func() rhp3.ProtocolObject { return new(rhp3.RPCRenewContractRequest) }},
		{"RPCRenewContractHostAdditions", func(g G, _ int) rhp3.ProtocolObject {
			var ins []types.SiacoinInput
			for i, n := 0, g.n(3); i < n; i++ {
				ins = append(ins, types.SiacoinInput{ParentID: types.SiacoinOutputID(g.hash()), UnlockConditions: g.uc()})
			}
			return &rhp3.RPCRenewContractHostAdditions{Parents: g.v1txns(g.n(2)), SiacoinInputs: ins, SiacoinOutputs: g.scos(g.n(3)), FinalRevisionSignature: g.sig()}
		}, func() rhp3.ProtocolObject { return new(rhp3.RPCRenewContractHostAdditions) }},
		{"RPCRenewSignatures", func(g G, _ int) rhp3.ProtocolObject {
			return &rhp3.RPCRenewSignatures{TransactionSignatures: g.txnsigs(g.n(4)), RevisionSignature: g.txnsig()}
		}, func() rhp3.ProtocolObject { return new(rhp3.RPCRenewSignatures) }},
		{"SettingsID", func(g G, _ int) rhp3.ProtocolObject { var s rhp3.SettingsID; g.fill(s[:]); return &s }, func() rhp3.ProtocolObject { return new(rhp3.SettingsID) }},
	}
}

func r3Connect(rc, hc net.Conn, sk types.PrivateKey, pk types.PublicKey) (*rhp3.Transport, *rhp3.Transport, error, error) {
	type res struct {
		t   *rhp3.Transport
		err error
	}
	ch := make(chan res, 1)
	go func() { t, err := rhp3.NewHostTransport(hc, sk); ch <- res{t, err} }()
	rt, rerr := rhp3.NewRenterTransport(rc, pk)
	hr := <-ch
	return rt, hr.t, rerr, hr.err
}

// r3Round describes one message of a stream's schedule, derived identically on
// both sides from the shared schedule seed.
type r3Round struct {
	renterWrites bool
	kind         int  // index into r3kinds, or -1 for an RPCError
	plainErr     bool // error written as a plain Go error
}

func r3Schedule(seed uint64, stream, n int, nk int) []r3Round {
	g := subG(seed, uint64(stream)+1000)
	out := make([]r3Round, n)
	for i := range out {
		out[i].renterWrites = g.n(2) == 0
		if g.n(8) == 0 {
			out[i].kind = -1
			out[i].plainErr = g.n(2) == 0
		} else {
			out[i].kind = g.n(nk)
		}
	}
	return out
}

func runRHP3Session(b *harness.B, g G, tcp bool, fc fragClass, nStreams, nMsg, maxPayload int) {
	link := "memconn"
	if tcp {
		link = "tcp"
	}
	opt := fc.opt
	opt.Seed1, opt.Seed2 = g.u64(), g.u64()
	rc, hc, err := newLink(tcp, opt)
	if err != nil {
		b.Inconclusive("cannot create link: " + err.Error())
		return
	}
	dl := time.Now().Add(watchdog)
	rc.SetDeadline(dl)
	hc.SetDeadline(dl)
	sk := types.NewPrivateKeyFromSeed(g.bytes(32))
	rt, ht, rerr, herr := r3Connect(rc, hc, sk, sk.PublicKey())
	if rerr != nil || herr != nil {
		rc.Close()
		hc.Close()
		if isTimeout(rerr) || isTimeout(herr) {
			b.Inconclusive("watchdog fired in rhp3 handshake")
			return
		}
		b.Violate("C19/transport/rhp3/handshake-failed", fmt.Sprintf("correct host key, handshake failed: renter=%v host=%v", rerr, herr), map[string]any{"link": link, "fragmentation": fc.name})
		return
	}
	b.Count("handshake_controls_ok", 1)
	rc.SetDeadline(time.Time{})
	hc.SetDeadline(time.Time{})
	kinds := r3kinds()
	tr := newTrace()
	wdFired := false
	var once sync.Once
	wd := time.AfterFunc(watchdog, func() { once.Do(func() { wdFired = true; tr.watchdog() }); rt.Close(); ht.Close() })
	schedSeed, contentSeed := g.u64(), g.u64()
	limit := uint64(maxPayload + 4096)

	side := func(s *rhp3.Stream, label string, sched []r3Round, isRenter bool) {
		cg := subG(contentSeed, uint64(len(label))*31+uint64(label[len(label)-1]))
		if isRenter {
			cg = subG(contentSeed^1, uint64(len(label))*31+uint64(label[len(label)-1]))
		}
		for j, rd := range sched {
			if rd.renterWrites == isRenter {
				dir := "/h2r"
				if isRenter {
					dir = "/r2h"
				}
				if rd.kind < 0 {
					re := &rhp3.RPCError{Type: cg.spec(), Data: cg.bytes(cg.n(50)), Description: cg.str(cg.n(100))}
					var werr error
					if rd.plainErr {
						msg := "plain: " + cg.str(1+cg.n(60))
						re = &rhp3.RPCError{Description: msg}
						werr = s.WriteResponseErr(errors.New(msg))
					} else {
						werr = s.WriteResponseErr(re)
					}
					tr.w(label+dir, re)
					if werr != nil {
						tr.fail("%s WriteResponseErr (msg %d): %v", label, j, werr)
						return
					}
					continue
				}
				o := kinds[rd.kind].gen(cg, maxPayload)
				tr.w(label+dir, o)
				if err := s.WriteResponse(o); err != nil {
					tr.fail("%s WriteResponse %T (msg %d): %v", label, o, j, err)
					return
				}
			} else {
				dir := "/r2h"
				if isRenter {
					dir = "/h2r"
				}
				var o rhp3.ProtocolObject = new(rhp3.PaymentResponse)
				if rd.kind >= 0 {
					o = kinds[rd.kind].fresh()
				}
				var err error
				if j%2 == 0 {
					err = s.ReadResponse(o, limit)
				} else {
					err = s.ReadRequest(o, limit)
				}
				var re *rhp3.RPCError
				if errors.As(err, &re) {
					tr.r(label+dir, re)
					if rd.kind >= 0 {
						tr.fail("%s: an RPCError arrived where a %T was written", label, o)
						return
					}
					continue
				}
				if err != nil {
					tr.fail("%s Read %T (msg %d): %v", label, o, j, err)
					return
				}
				if rd.kind < 0 {
					tr.fail("%s: an error response was read as a successful %T", label, o)
					return
				}
				tr.r(label+dir, o)
			}
		}
	}

	var wg sync.WaitGroup
	wg.Add(1)
	go func() {
		defer wg.Done()
		var swg sync.WaitGroup
		for i := 0; i < nStreams; i++ {
			s, err := ht.AcceptStream()
			if err != nil {
				tr.fail("host AcceptStream: %v", err)
				break
			}
			swg.Add(1)
			go func() {
				defer swg.Done()
				defer s.Close()
				id, err := s.ReadID()
				if err != nil {
					tr.fail("host ReadID: %v", err)
					return
				}
				var tag rhp3.RPCLatestRevisionRequest
				if err := s.ReadRequest(&tag, 4096); err != nil {
					tr.fail("host ReadRequest(tag): %v", err)
					return
				}
				idx := int(tag.ContractID[0]) | int(tag.ContractID[1])<<8
				label := fmt.Sprint("s", idx)
				tr.r(label+"/id", &id)
				tr.r(label+"/r2h", &tag)
				side(s, label, r3Schedule(schedSeed, idx, nMsg, len(kinds)), false)
				// wait for the renter to finish reading before closing
				var fin rhp3.PaymentResponse
				s.ReadResponse(&fin, 4096)
			}()
		}
		swg.Wait()
	}()
	for i := 0; i < nStreams; i++ {
		wg.Add(1)
		go func(i int) {
			defer wg.Done()
			s := rt.DialStream()
			defer s.Close()
			label := fmt.Sprint("s", i)
			sg := subG(contentSeed^2, uint64(i))
			tag := &rhp3.RPCLatestRevisionRequest{ContractID: types.FileContractID(sg.hash())}
			tag.ContractID[0], tag.ContractID[1] = byte(i), byte(i>>8)
			id := sg.spec()
			tr.w(label+"/id", &id)
			tr.w(label+"/r2h", tag)
			if err := s.WriteRequest(id, tag); err != nil {
				tr.fail("renter WriteRequest: %v", err)
				return
			}
			side(s, label, r3Schedule(schedSeed, i, nMsg, len(kinds)), true)
			s.WriteResponse(&rhp3.PaymentResponse{}) // "finished" marker (not traced)
		}(i)
	}
	wg.Wait()
	wd.Stop()
	rt.Close()
	ht.Close()
	tr.check(b, "rhp3", link, fc.name, wdFired)
}

// ---- RHP2 ----

type r2kind struct {
	name  string
	gen   func(g G, size int) rhp2.ProtocolObject
	fresh func() rhp2.ProtocolObject
}

func r2kinds() []r2kind {
	return []r2kind{
		{"RPCFormContractRequest", func(g G, _ int) rhp2.ProtocolObject {
			return &rhp2.RPCFormContractRequest{Transactions: g.v1txns(g.n(3)), RenterKey: g.uk()}
		}, func() rhp2.ProtocolObject { return new(rhp2.RPCFormContractRequest) }},
		{"RPCRenewAndClearContractRequest", func(g G, _ int) rhp2.ProtocolObject {
			return &rhp2.RPCRenewAndClearContractRequest{Transactions: g.v1txns(g.n(3)), RenterKey: g.uk(), FinalValidProofValues: g.curs(g.n(3)), FinalMissedProofValues: g.curs(g.n(4))}
		}, func() rhp2.ProtocolObject { return new(rhp2.RPCRenewAndClearContractRequest) }},
		{"RPCFormContractAdditions", func(g G, _ int) rhp2.ProtocolObject {
			var ins []types.SiacoinInput
			for i, n := 0, g.n(3); i < n; i++ {
				ins = append(ins, types.SiacoinInput{ParentID: types.SiacoinOutputID(g.hash()), UnlockConditions: g.uc()})
			}
			return &rhp2.RPCFormContractAdditions{Parents: g.v1txns(g.n(2)), Inputs: ins, Outputs: g.scos(g.n(3))}
		}, func() rhp2.ProtocolObject { return new(rhp2.RPCFormContractAdditions) }},
		{"RPCFormContractSignatures", func(g G, _ int) rhp2.ProtocolObject {
			return &rhp2.RPCFormContractSignatures{ContractSignatures: g.txnsigs(g.n(3)), RevisionSignature: g.txnsig()}
		}, func() rhp2.ProtocolObject { return new(rhp2.RPCFormContractSignatures) }},
		{"RPCRenewAndClearContractSignatures", func(g G, _ int) rhp2.ProtocolObject {
			return &rhp2.RPCRenewAndClearContractSignatures{ContractSignatures: g.txnsigs(g.n(3)), RevisionSignature: g.txnsig(), FinalRevisionSignature: g.sig()}
		}, func() rhp2.ProtocolObject { return new(rhp2.RPCRenewAndClearContractSignatures) }},
		{"RPCLockRequest", func(g G, _ int) rhp2.ProtocolObject {
			return &rhp2.RPCLockRequest{ContractID: types.FileContractID(g.hash()), Signature: g.sig(), Timeout: g.small()}
		}, func() rhp2.ProtocolObject { return new(rhp2.RPCLockRequest) }},
		{"RPCLockResponse", func(g G, _ int) rhp2.ProtocolObject {
			r := &rhp2.RPCLockResponse{Acquired: g.n(2) == 0, Revision: g.v1rev(), Signatures: g.txnsigs(g.n(3))}
			g.fill(r.NewChallenge[:])
			return r
		}, func() rhp2.ProtocolObject { return new(rhp2.RPCLockResponse) }},
		{"RPCReadRequest", func(g G, _ int) rhp2.ProtocolObject {
			var secs []rhp2.RPCReadRequestSection
			for i, n := 0, g.n(4); i < n; i++ {
				secs = append(secs, rhp2.RPCReadRequestSection{MerkleRoot: g.hash(), Offset: g.small(), Length: g.small()})
			}
			return &rhp2.RPCReadRequest{Sections: secs, MerkleProof: g.n(2) == 0, RevisionNumber: g.small(), ValidProofValues: g.curs(g.n(3)), MissedProofValues: g.curs(g.n(4)), Signature: g.sig()}
		}, func() rhp2.ProtocolObject { return new(rhp2.RPCReadRequest) }},
		{"RPCReadResponse", func(g G, n int) rhp2.ProtocolObject {
			return &rhp2.RPCReadResponse{Signature: g.sig(), Data: g.bytes(g.n(n + 1)), MerkleProof: g.hashes(g.n(20))}
		}, func() rhp2.ProtocolObject { return new(rhp2.RPCReadResponse) }},
		{"RPCSectorRootsRequest", func(g G, _ int) rhp2.ProtocolObject {
			return &rhp2.RPCSectorRootsRequest{RootOffset: g.small(), NumRoots: g.small(), RevisionNumber: g.small(), ValidProofValues: g.curs(g.n(3)), MissedProofValues: g.curs(g.n(4)), Signature: g.sig()}
		}, func() rhp2.ProtocolObject { return new(rhp2.RPCSectorRootsRequest) }},
		{"RPCSectorRootsResponse", func(g G, n int) rhp2.ProtocolObject {
			return &rhp2.RPCSectorRootsResponse{Signature: g.sig(), SectorRoots: g.hashes(g.n(n/32 + 1)), MerkleProof: g.hashes(g.n(20))}
		}, func() rhp2.ProtocolObject { return new(rhp2.RPCSectorRootsResponse) }},
		{"RPCSettingsResponse", func(g G, n int) rhp2.ProtocolObject { return &rhp2.RPCSettingsResponse{Settings: g.bytes(g.n(n + 1))} }, func() rhp2.ProtocolObject { return new(rhp2.RPCSettingsResponse) }},
		{"RPCWriteRequest", func(g G, n int) rhp2.ProtocolObject {
			var acts []rhp2.RPCWriteAction
			for i, k := 0, g.n(4); i < k; i++ {
				acts = append(acts, rhp2.RPCWriteAction{Type: []types.Specifier{rhp2.RPCWriteActionAppend, rhp2.RPCWriteActionTrim, rhp2.RPCWriteActionSwap, rhp2.RPCWriteActionUpdate}[g.n(4)], A: g.small(), B: g.small(), Data: g.bytes(g.n(n/4 + 1))})
			}
			return &rhp2.RPCWriteRequest{Actions: acts, MerkleProof: g.n(2) == 0, RevisionNumber: g.small(), ValidProofValues: g.curs(g.n(3)), MissedProofValues: g.curs(g.n(4))}
		}, func() rhp2.ProtocolObject { return new(rhp2.RPCWriteRequest) }},
		{"RPCWriteMerkleProof", func(g G, _ int) rhp2.ProtocolObject {
			return &rhp2.RPCWriteMerkleProof{OldSubtreeHashes: g.hashes(g.n(30)), OldLeafHashes: g.hashes(g.n(10)), NewMerkleRoot: g.hash()}
		}, func() rhp2.ProtocolObject { return new(rhp2.RPCWriteMerkleProof) }},
		{"RPCWriteResponse", func(g G, _ int) rhp2.ProtocolObject { return &rhp2.RPCWriteResponse{Signature: g.sig()} }, func() rhp2.ProtocolObject { return new(rhp2.RPCWriteResponse) }},
	}
}

// r2snapshot freezes what a (possibly reused) receiver object holds right after a read: a fresh object of the same
// kind decoded from the re-encoding.
func r2snapshot(k r2kind, o rhp2.ProtocolObject) rhp2.ProtocolObject {
	var buf bytes.Buffer
	e := types.NewEncoder(&buf)
	o.EncodeTo(e)
	e.Flush()
	c := k.fresh()
	c.DecodeFrom(types.NewBufDecoder(buf.Bytes()))
	return c
}

// rawRead reads an RPCReadResponse through the streaming path:
// RawResponse -> decode from the unauthenticated stream -> VerifyTag.
func rawRead(t *rhp2.Transport, maxLen uint64) (*rhp2.RPCReadResponse, error) {
	rr, err := t.RawResponse(maxLen)
	if err != nil {
		return nil, err
	}
	// Parse the unauthenticated stream with a defensive reader of our own (a
	// renter must not trust lengths before VerifyTag; RPCReadResponse.DecodeFrom
	// panics on hostile lengths, which is C10's finding, not this monitor's).
	var resp rhp2.RPCReadResponse
	var derr error
	readN := func(n uint64) []byte {
		if derr != nil {
			return nil
		}
		if n > maxLen {
			derr = fmt.Errorf("length %d exceeds the caller's limit", n)
			return nil
		}
		buf := make([]byte, n)
		if _, err := io.ReadFull(rr, buf); err != nil {
			derr = err
			return nil
		}
		return buf
	}
	u64 := func() uint64 {
		b := readN(8)
		if b == nil {
			return 0
		}
		return binary.LittleEndian.Uint64(b)
	}
	if n := u64(); derr == nil && n != 64 {
		derr = fmt.Errorf("signature length %d", n)
	}
	copy(resp.Signature[:], readN(64))
	resp.Data = readN(u64())
	if np := u64(); derr == nil {
		if np > maxLen/32 {
			derr = fmt.Errorf("proof length %d exceeds the caller's limit", np)
		}
		for i := uint64(0); i < np && derr == nil; i++ {
			var h types.Hash256
			copy(h[:], readN(32))
			resp.MerkleProof = append(resp.MerkleProof, h)
		}
	}
	if len(resp.Data) == 0 {
		resp.Data = nil
	}
	if verr := rr.VerifyTag(); verr != nil {
		return nil, verr
	}
	if derr != nil {
		return nil, fmt.Errorf("decode from raw stream: %w", derr)
	}
	return &resp, nil
}

func rawPayloadSizes(g G, quick bool) []int {
	// plaintext = 1 (flag) + 8+64 (signature) + 8 + data + 8 (empty proof) = 89 + data;
	// wire message = 8 + 12 + plaintext + 16, padded up to 4096
	const fixed = 89
	pad := 4096 - 8 - 12 - 16 - fixed // data length at which padding stops
	set := map[int]bool{}
	add := func(v int) {
		if v >= 0 {
			set[v] = true
		}
	}
	for d := -1; d <= 1; d++ {
		for _, base := range []int{0, 16, 32, 64, 4096, 65536} {
			add(base + d)
		}
		add(pad + d)
		add(rhp2.SectorSize + d)
	}
	// every residue of the ciphertext length modulo 16, padded and unpadded
	for i := 0; i < 17; i++ {
		add(pad + 1 + i)
		add(pad - 20 + i)
		add(100 + i)
		add(20000 + i)
	}
	n := 10
	if !quick {
		n = 200
	}
	for i := 0; i < n; i++ {
		add(g.n(3 * 4096))
	}
	var out []int
	for v := range set {
		out = append(out, v)
	}
	sort.Ints(out)
	// unpadded sizes whose ciphertext length is a multiple of 16 go last: each is
	// run in a session of its own (see runTransports)
	return out
}

func rawAligned(dataLen int) bool { return (89+dataLen)%16 == 0 && 89+dataLen+36 > 4096 }

func runRHP2Session(b *harness.B, g G, tcp bool, fc fragClass, nRounds, maxPayload int, rawSizes []int) {
	link := "memconn"
	if tcp {
		link = "tcp"
	}
	opt := fc.opt
	opt.Seed1, opt.Seed2 = g.u64(), g.u64()
	rc, hc, err := newLink(tcp, opt)
	if err != nil {
		b.Inconclusive("cannot create link: " + err.Error())
		return
	}
	dl := time.Now().Add(watchdog)
	rc.SetDeadline(dl)
	hc.SetDeadline(dl)
	sk := types.NewPrivateKeyFromSeed(g.bytes(32))
	type res struct {
		t   *rhp2.Transport
		err error
	}
	ch := make(chan res, 1)
	go func() { t, err := rhp2.NewHostTransport(hc, sk); ch <- res{t, err} }()
	rt, rerr := rhp2.NewRenterTransport(rc, sk.PublicKey())
	hr := <-ch
	if rerr != nil || hr.err != nil {
		rc.Close()
		hc.Close()
		if isTimeout(rerr) || isTimeout(hr.err) {
			b.Inconclusive("watchdog fired in rhp2 handshake")
			return
		}
		b.Violate("C19/transport/rhp2/handshake-failed", fmt.Sprintf("correct host key, handshake failed: renter=%v host=%v", rerr, hr.err), map[string]any{"link": link, "fragmentation": fc.name})
		return
	}
	ht := hr.t
	b.Count("handshake_controls_ok", 1)
	rc.SetDeadline(time.Time{})
	hc.SetDeadline(time.Time{})
	if rt.HostKey() != sk.PublicKey() || ht.HostKey() != sk.PublicKey() {
		b.Violate("C19/transport/rhp2/host-key", "HostKey() differs from the handshake key", nil)
	}
	kinds := r2kinds()
	tr := newTrace()
	tr.onFail = func() { rt.ForceClose(); ht.ForceClose() }
	schedSeed, contentSeed := g.u64(), g.u64()
	limit := uint64(maxPayload + 8192)
	// accessor poller: exercises the mutex/atomic accessors concurrently with I/O
	stop := make(chan struct{})
	var pwg sync.WaitGroup
	pwg.Add(1)
	go func() {
		defer pwg.Done()
		var last uint64
		for {
			select {
			case <-stop:
				return
			default:
			}
			for _, t := range []*rhp2.Transport{rt, ht} {
				if t.IsClosed() || t.PrematureCloseErr() != nil {
					tr.fail("transport reports closed (%v) during an untampered session", t.PrematureCloseErr())
					return
				}
				_ = t.BytesWritten()
				r := t.BytesRead()
				if t == rt {
					if r < last {
						tr.fail("BytesRead went backwards")
					}
					last = r
				}
			}
			time.Sleep(200 * time.Microsecond)
		}
	}()

	var rawFailed atomic.Bool
	var rawViol []string
	var rawWit map[string]any
	type round struct {
		reqKind, respKind int
		hasReq, errResp   bool
		raw               int // >=0: raw response with this data length
	}
	sg := subG(schedSeed, 7)
	var sched []round
	for i := 0; i < nRounds; i++ {
		sched = append(sched, round{reqKind: sg.n(len(kinds)), respKind: sg.n(len(kinds)), hasReq: sg.n(5) != 0, errResp: sg.n(8) == 0, raw: -1})
	}
	for _, sz := range rawSizes {
		sched = append(sched, round{reqKind: 7, hasReq: true, raw: sz})
	}
	var wg sync.WaitGroup
	wg.Add(2)
	go func() { // host
		defer wg.Done()
		hostPool := map[int]rhp2.ProtocolObject{}
		cg := subG(contentSeed, 1)
		for j, rd := range sched {
			id, err := ht.ReadID()
			if err != nil {
				tr.fail("host ReadID (round %d): %v", j, err)
				return
			}
			tr.r("id", &id)
			if rd.hasReq {
				// every other round the receiver reuses the object it read the previous message of that kind into
				o, reused := kinds[rd.reqKind].fresh(), false
				if j%2 == 1 {
					if p, ok := hostPool[rd.reqKind]; ok {
						o, reused = p, true
					}
				}
				hostPool[rd.reqKind] = o
				if err := ht.ReadRequest(o, limit); err != nil {
					tr.fail("host ReadRequest %T (round %d): %v", o, j, err)
					return
				}
				tr.r("r2h", r2snapshot(kinds[rd.reqKind], o))
				if reused {
					b.Count("rhp2_messages_read_into_a_reused_object", 1)
				}
			}
			switch {
			case rd.raw >= 0:
				o := &rhp2.RPCReadResponse{Signature: cg.sig(), Data: cg.bytes(rd.raw)}
				tr.w("h2r-raw", o)
				if err := ht.WriteResponse(o); err != nil {
					tr.fail("host WriteResponse(raw %d): %v", rd.raw, err)
					return
				}
			case rd.errResp:
				re := &rhp2.RPCError{Type: cg.spec(), Data: cg.bytes(cg.n(50)), Description: cg.str(cg.n(100))}
				var werr error
				if j%2 == 0 {
					msg := "plain: " + cg.str(1+cg.n(60))
					re = &rhp2.RPCError{Description: msg}
					werr = ht.WriteResponseErr(errors.New(msg))
				} else {
					werr = ht.WriteResponseErr(re)
				}
				tr.w("h2r", re)
				if werr != nil {
					tr.fail("host WriteResponseErr: %v", werr)
					return
				}
			default:
				o := kinds[rd.respKind].gen(cg, maxPayload)
				tr.w("h2r", o)
				if err := ht.WriteResponse(o); err != nil {
					tr.fail("host WriteResponse %T: %v", o, err)
					return
				}
			}
		}
	}()
	go func() { // renter
		defer wg.Done()
		renterPool := map[int]rhp2.ProtocolObject{}
		cg := subG(contentSeed, 2)
		for j, rd := range sched {
			id := cg.spec()
			var req rhp2.ProtocolObject
			tr.w("id", &id)
			if rd.hasReq {
				req = kinds[rd.reqKind].gen(cg, maxPayload)
				tr.w("r2h", req)
			}
			if err := rt.WriteRequest(id, req); err != nil {
				tr.fail("renter WriteRequest (round %d): %v", j, err)
				return
			}
			if rd.raw >= 0 {
				o, err := rawRead(rt, uint64(rd.raw)+4096)
				if err != nil {
					key := "C19/transport/rhp2/RawResponse-VerifyTag/rejects-valid"
					if (89+rd.raw)%16 == 0 && 89+rd.raw+36 > 4096 {
						key += "/ciphertext-len-multiple-of-16"
					}
					rawViol = append(rawViol, key, fmt.Sprintf("untampered response with %d data bytes (ciphertext %d bytes) failed on the RawResponse/VerifyTag path: %v", rd.raw, 89+rd.raw, err))
					rawWit = (map[string]any{"data_len": rd.raw, "ciphertext_len": 89 + rd.raw, "link": link, "fragmentation": fc.name, "ciphertext_len_mod_16": (89 + rd.raw) % 16,
						"repro": "host: WriteResponse(&rhp2.RPCReadResponse{Data: make([]byte, data_len)}); renter: RawResponse(max) -> read to EOF -> VerifyTag()"})
					rawFailed.Store(true)
					return
				}
				tr.r("h2r-raw", o)
				b.Count("rawresponse_payloads_checked", 1)
				b.Distinct("raw", link, fc.name, sizeClass(rd.raw), (89+rd.raw)%16, 89+rd.raw+36 <= 4096)
				continue
			}
			o, reused := kinds[rd.respKind].fresh(), false
			if j%2 == 1 {
				if p, ok := renterPool[rd.respKind]; ok {
					o, reused = p, true
				}
			}
			renterPool[rd.respKind] = o
			err := rt.ReadResponse(o, limit)
			var re *rhp2.RPCError
			if errors.As(err, &re) {
				tr.r("h2r", re)
				if !rd.errResp {
					tr.fail("renter: an RPCError arrived where %T was written", o)
					return
				}
				continue
			}
			if err != nil {
				tr.fail("renter ReadResponse %T (round %d): %v", o, j, err)
				return
			}
			if rd.errResp {
				tr.fail("renter: an error response was read as a successful %T", o)
				return
			}
			tr.r("h2r", r2snapshot(kinds[rd.respKind], o))
			if reused {
				b.Count("rhp2_messages_read_into_a_reused_object", 1)
			}
		}
	}()
	done := make(chan struct{})
	go func() { wg.Wait(); close(done) }()
	wdFired := false
	select {
	case <-done:
	case <-time.After(watchdog):
		wdFired = true
		tr.watchdog()
		rt.ForceClose()
		ht.ForceClose()
		<-done
	}
	close(stop)
	pwg.Wait()
	if wdFired {
		ht.ForceClose()
		rt.ForceClose()
		b.Inconclusive(fmt.Sprintf("watchdog fired during rhp2 session over %s (%s)", link, fc.name))
		return
	}
	if rawFailed.Load() {
		// the session died of the RawResponse failure; nothing else is judged on it
		b.Violate(rawViol[0], rawViol[1], rawWit)
		ht.ForceClose()
		rt.ForceClose()
		return
	}
	if !wdFired {
		// byte accounting (observation only: RawResponse does not update BytesRead)
		if rt.BytesWritten() != ht.BytesRead() || ht.BytesWritten() != rt.BytesRead() {
			b.Count("rhp2_byte_counters_differ_between_peers(observation)", 1)
		}
		// graceful close: the host sees ErrRenterClosed
		cerr := make(chan error, 1)
		go func() { _, err := ht.ReadID(); cerr <- err }()
		rt.Close()
		select {
		case err := <-cerr:
			if !errors.Is(err, rhp2.ErrRenterClosed) {
				b.Violate("C19/transport/rhp2/graceful-close", fmt.Sprintf("after renter Close the host's ReadID returned %v, not ErrRenterClosed", err), map[string]any{"link": link, "fragmentation": fc.name})
			} else {
				b.Count("rhp2_graceful_close_seen", 1)
			}
		case <-time.After(watchdog):
			b.Inconclusive("watchdog fired waiting for rhp2 graceful close")
		}
		if !rt.IsClosed() || rt.PrematureCloseErr() != nil {
			b.Violate("C19/transport/rhp2/close-state", fmt.Sprintf("after Close: IsClosed=%v PrematureCloseErr=%v", rt.IsClosed(), rt.PrematureCloseErr()), nil)
		}
	}
	ht.ForceClose()
	rt.ForceClose()
	tr.check(b, "rhp2", link, fc.name, wdFired)
}

func runTransports(b *harness.B, tcp bool) {
	g := G{r: b.Rng}
	classes := fragClasses(g)
	if tcp {
		classes = []fragClass{{"tcp", memconn.Options{}}}
	}
	reps := b.Pick(1, 4)
	if tcp {
		reps = b.Pick(3, 12)
	}
	for rep := 0; rep < reps; rep++ {
		for _, fc := range classes {
			tiny := fc.opt.MaxChunk == 1
			nStreams, nRPC, payload := 6, 8, 20000
			if tiny {
				nStreams, nRPC, payload = 3, 3, 600
			}
			t0 := time.Now()
			runGatewaySession(b, g, tcp, fc, nStreams, nRPC)
			dbg("gateway %s %v", fc.name, time.Since(t0))
			t0 = time.Now()
			nMsg := 14
			if tiny {
				nMsg = 5
			}
			runRHP3Session(b, g, tcp, fc, nStreams, nMsg, payload)
			dbg("rhp3 %s %v", fc.name, time.Since(t0))
			t0 = time.Now()
			var raws []int
			if !tiny {
				raws = rawPayloadSizes(g, b.Quick())
				if fc.opt.MaxChunk > 0 && fc.opt.MaxChunk < 1000 {
					// keep the 4 MiB payloads for the unfragmented links
					var small []int
					for _, v := range raws {
						if v < 100000 {
							small = append(small, v)
						}
					}
					raws = small
				}
			} else {
				raws = []int{0, 1, 15, 16, 17, 3950, 3963, 3964, 3965, 3971, 4000}
			}
			nR := 30
			if tiny {
				nR = 6
			}
			var plain, aligned []int
			for _, v := range raws {
				if rawAligned(v) {
					aligned = append(aligned, v)
				} else {
					plain = append(plain, v)
				}
			}
			runRHP2Session(b, g, tcp, fc, nR, payload, plain)
			for _, v := range aligned {
				runRHP2Session(b, g, tcp, fc, 1, 100, []int{v})
			}
			dbg("rhp2 %s %v (%d raw sizes)", fc.name, time.Since(t0), len(raws))
		}
	}
}

func dbg(format string, a ...any) {
	if os.Getenv("C19_DEBUG") != "" {
		fmt.Fprintf(os.Stderr, format+"\n", a...)
	}
}
