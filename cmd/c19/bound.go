package main

// Read-bound monitor, RHP4 error delivery, and caller-supplied-limit
// boundaries of RHP2 / RHP3 (batch 2).

import (
	"bytes"
	"encoding/binary"
	"errors"
	"fmt"
	"io"
	"math"
	"net"
	"sync/atomic"
	"time"

	"go.sia.tech/core/gateway"
	rhp2 "go.sia.tech/core/rhp/v2"
	rhp3 "go.sia.tech/core/rhp/v3"
	rhp4 "go.sia.tech/core/rhp/v4"
	"go.sia.tech/core/types"
	"verif/internal/harness"
	"verif/internal/memconn"
)

// endless yields an unbounded stream of a repeating pattern.
type endless struct {
	pat []byte
	i   int
}

func (e *endless) Read(p []byte) (int, error) {
	for j := range p {
		p[j] = e.pat[e.i]
		e.i++
		if e.i == len(e.pat) {
			e.i = 0
		}
	}
	return len(p), nil
}

func le64(v uint64) []byte {
	var b [8]byte
	binary.LittleEndian.PutUint64(b[:], v)
	return b[:]
}

// prefixCandidates returns offsets of enc where an 8-byte little-endian value
// looks like a count/length field (upper four bytes zero).
func prefixCandidates(g G, enc []byte, maxN int) []int {
	var all []int
	for i := 0; i+8 <= len(enc); i++ {
		if enc[i+4] == 0 && enc[i+5] == 0 && enc[i+6] == 0 && enc[i+7] == 0 {
			all = append(all, i)
		}
	}
	if len(all) <= maxN {
		return all
	}
	out := append([]int(nil), all[:maxN/2]...)
	for len(out) < maxN {
		out = append(out, all[g.n(len(all))])
	}
	return out
}

func hostileValues(remaining int64, big bool) []uint64 {
	vs := []uint64{1 << 63, ^uint64(0), uint64(remaining), uint64(remaining) + 1, uint64(remaining) / 32, 1 << 24}
	if !big {
		vs = append(vs, 1<<8, 1<<16, 1<<20, 1<<32, 1<<40, 1<<62, uint64(remaining)/2, uint64(remaining)-1)
	}
	return vs
}

type decodeFn func(r io.Reader) error

// boundCase feeds one stream to a reader under a counting reader and judges
// the bytes pulled against the limit.
func boundCase(b *harness.B, name, family string, limit int64, r io.Reader, dec decodeFn, wit func() any) (int64, error) {
	b.Eval(1)
	cr := &countReader{r: r}
	var err error
	b.Guard("C19/read-bound/"+name, wit, func() { err = dec(cr) })
	b.Count("read_bound_cases", 1)
	b.MaxOf("read_bound_pulled_max/"+name, cr.n)
	if cr.n > limit {
		b.Violate("C19/read-bound/"+name+"/"+family, fmt.Sprintf("reader pulled %d bytes for one %s message, the limit is %d", cr.n, name, limit), wit())
	}
	return cr.n, err
}

func runReadBound(b *harness.B) {
	g := G{r: b.SubRng("bound")}
	k := newKeys(g)
	specs := rhp4Registry()
	patterns := map[string][]byte{"zeros": {0}, "ones": {1}, "ff": {0xFF}, "mixed": {0, 1, 0, 0, 0, 0, 0, 0, 0, 2, 0, 0}, "random": g.bytes(4099)}
	for i := range specs {
		s := &specs[i]
		limit := s.recvLimit()
		big := s.limit > 1<<20
		dec := func(r io.Reader) error { _, _, err := r4Decode(s, r); return err }
		// (a) valid largest instance followed by an endless tail
		enc, _ := r4Encode(s, s.max(g, k))
		if int64(len(enc)) <= limit {
			n, err := boundCase(b, s.name, "valid-then-endless", limit, io.MultiReader(bytes.NewReader(enc), &endless{pat: []byte{0xFF}}), dec, func() any { return map[string]any{"type": s.name, "stream": "valid max instance + endless 0xff"} })
			if err == nil && n != int64(len(enc)) {
				b.Violate("C19/framing-desync/"+s.name, fmt.Sprintf("reader consumed %d bytes of a %d-byte message followed by more data", n, len(enc)), nil)
			}
			b.Distinct("bound", s.name, "valid-then-endless")
		}
		// (b) endless constant streams (for requests the RPC id comes first)
		for pn, pat := range patterns {
			var r io.Reader = &endless{pat: pat}
			if !s.resp {
				r = io.MultiReader(bytes.NewReader(testID[:]), r)
			}
			boundCase(b, s.name, "endless-"+pn, limit, r, dec, func() any { return map[string]any{"type": s.name, "stream": "endless " + pn} })
			b.Distinct("bound", s.name, "endless", pn)
		}
		// (c) error branch with hostile description length
		if s.resp {
			for _, v := range hostileValues(limit-10, false) {
				hdr := append([]byte{1, byte(g.n(256))}, le64(v)...)
				boundCase(b, s.name, "error-branch-length", limit, io.MultiReader(bytes.NewReader(hdr), &endless{pat: []byte{'x'}}), dec, func() any {
					return map[string]any{"type": s.name, "stream": "error flag + description length", "length": v}
				})
			}
			b.Distinct("bound", s.name, "error-branch")
		}
		// (d) every count-like field of a valid encoding replaced by hostile values
		base := enc
		if big || len(base) > 1<<16 {
			// a small instance keeps the candidate scan and the copies cheap;
			// the limit at stake is the same
			for t := 0; t < 20; t++ {
				base, _ = r4Encode(s, s.rnd(g, k))
				if len(base) > 64 && len(base) < 1<<16 {
					break
				}
			}
		}
		maxCand := b.Pick(40, 400)
		if big {
			maxCand = b.Pick(6, 24)
		}
		for _, off := range prefixCandidates(g, base, maxCand) {
			for _, v := range hostileValues(limit-int64(off)-8, big) {
				r := io.MultiReader(bytes.NewReader(base[:off]), bytes.NewReader(le64(v)), bytes.NewReader(base[off+8:]), &endless{pat: []byte{0}})
				boundCase(b, s.name, "count-field-replaced", limit, r, dec, func() any {
					return map[string]any{"type": s.name, "stream": "valid encoding with 8 bytes replaced, then endless zeros", "offset": off, "value": v, "base_len": len(base)}
				})
			}
			b.Distinct("bound", s.name, "count-field", sizeClass(off))
		}
	}

	// gateway objects through the decode hooks
	gwObjs := func() []struct {
		o    gateway.Object
		recv func() gateway.Object
		resp bool
	} {
		mx := uint64(1 + g.n(50))
		blk := g.block(1, 2)
		if len(blk.MinerPayouts) > 1 {
			blk.MinerPayouts = blk.MinerPayouts[:1]
		}
		return []struct {
			o    gateway.Object
			recv func() gateway.Object
			resp bool
		}{
			{&gateway.RPCShareNodes{Peers: []string{ipv6Peer(g), ipv6Peer(g), "1.2.3.4:5"}}, func() gateway.Object { return &gateway.RPCShareNodes{} }, true},
			{&gateway.RPCDiscoverIP{IP: "1.2.3.4"}, func() gateway.Object { return &gateway.RPCDiscoverIP{} }, true},
			{&gateway.RPCSendHeaders{Index: g.chainIndex(), Max: mx}, func() gateway.Object { return &gateway.RPCSendHeaders{} }, false},
			{&gateway.RPCSendHeaders{Max: mx, Headers: g.headers(int(mx)), Remaining: 1}, func() gateway.Object { return &gateway.RPCSendHeaders{Max: mx} }, true},
			{&gateway.RPCSendV2Blocks{History: []types.BlockID{types.BlockID(g.hash()), types.BlockID(g.hash())}, Max: 2}, func() gateway.Object { return &gateway.RPCSendV2Blocks{} }, false},
			{&gateway.RPCSendV2Blocks{Max: 1, Blocks: []types.Block{blk}, Remaining: 9}, func() gateway.Object { return &gateway.RPCSendV2Blocks{Max: 1} }, true},
			{&gateway.RPCSendTransactions{Index: g.chainIndex(), Hashes: g.hashes(3)}, func() gateway.Object { return &gateway.RPCSendTransactions{} }, false},
			{&gateway.RPCSendTransactions{Transactions: g.v1txns(2), V2Transactions: g.v2txns(2, 5)}, func() gateway.Object { return &gateway.RPCSendTransactions{} }, true},
			{&gateway.RPCSendCheckpoint{Index: g.chainIndex()}, func() gateway.Object { return &gateway.RPCSendCheckpoint{} }, false},
			{&gateway.RPCSendCheckpoint{Block: blk, State: g.state()}, func() gateway.Object { return &gateway.RPCSendCheckpoint{} }, true},
			{&gateway.RPCRelayV2Header{Header: g.header()}, func() gateway.Object { return &gateway.RPCRelayV2Header{} }, false},
			{&gateway.RPCRelayV2BlockOutline{Block: gateway.OutlineBlock(blk, nil, nil)}, func() gateway.Object { return &gateway.RPCRelayV2BlockOutline{} }, false},
			{&gateway.RPCRelayV2TransactionSet{Index: g.chainIndex(), Transactions: g.v2txns(3, 6)}, func() gateway.Object { return &gateway.RPCRelayV2TransactionSet{} }, false},
		}
	}
	for _, c := range gwObjs() {
		c := c
		half, limit, declared := "request", gateway.VerifMaxRequestLen(c.recv()), gwDeclaredReq(c.recv())
		var buf bytes.Buffer
		if c.resp {
			half, limit, declared = "response", gateway.VerifMaxResponseLen(c.recv()), gwDeclaredResp(c.recv())
			gateway.VerifEncodeResponse(c.o, &buf)
		} else {
			gateway.VerifEncodeRequest(c.o, &buf)
		}
		name := gwName(c.o) + "/" + half
		dec := func(r io.Reader) error {
			if c.resp {
				return gateway.VerifDecodeResponse(c.recv(), r)
			}
			return gateway.VerifDecodeRequest(c.recv(), r)
		}
		_ = limit
		for pn, pat := range patterns {
			boundCase(b, name, "endless-"+pn, int64(declared), &endless{pat: pat}, dec, func() any { return map[string]any{"type": name, "stream": "endless " + pn} })
			b.Distinct("bound", name, "endless", pn)
		}
		base := buf.Bytes()
		big := declared > 1<<20
		maxCand := b.Pick(40, 300)
		if big {
			maxCand = b.Pick(6, 30)
		}
		for _, off := range prefixCandidates(g, base, maxCand) {
			for _, v := range hostileValues(int64(declared)-int64(off)-8, big) {
				r := io.MultiReader(bytes.NewReader(base[:off]), bytes.NewReader(le64(v)), bytes.NewReader(base[off+8:]), &endless{pat: []byte{0}})
				boundCase(b, name, "count-field-replaced", int64(declared), r, dec, func() any {
					return map[string]any{"type": name, "stream": "valid encoding with 8 bytes replaced, then endless zeros", "offset": off, "value": v}
				})
			}
			b.Distinct("bound", name, "count-field", sizeClass(off))
		}
	}
	b.SetAdd("read_bound_constants", "rhp4 request: 16-byte RPC id (ReadID) + maxLen; rhp4 response: 1 (flag byte) + 1024 (error allowance) + maxLen; gateway: maxRequestLen/maxResponseLen exactly; rhp2: 8-byte length prefix + max(limit,4096); rhp3: limit + 1024 (includes the 8-byte prefix)")
}

// ---- error delivery ----

func runErrorDelivery(b *harness.B) {
	g := G{r: b.SubRng("errors")}
	specs := rhp4Registry()
	const maxDesc = szErr - 1 - 8 // the RPCError object's own limit: code + length prefix + description <= 1024
	lens := []int{0, 1, 2, 17, 100, 512, 1000, maxDesc - 2, maxDesc - 1, maxDesc}
	for i := range specs {
		s := &specs[i]
		if !s.resp {
			continue // only response types are ever read by ReadResponse
		}
		try := func(code uint8, dl int) {
			b.Eval(1)
			want := &rhp4.RPCError{Code: code, Description: g.str(dl)}
			var buf bytes.Buffer
			if err := rhp4.WriteResponse(&buf, want); err != nil {
				b.Violate("C19/write-error/rhp4.RPCError", err.Error(), nil)
				return
			}
			encLen := buf.Len()
			buf.Write([]byte{0xEE, 0xEE})
			cr := &countReader{r: &buf}
			err := rhp4.ReadResponse(cr, s.fresh())
			wit := map[string]any{"response_type": s.name, "code": code, "description_len": dl, "encoded_bytes": encLen, "receiver_limit": 1 + szErr + s.limit}
			var got *rhp4.RPCError
			lenClass := "short"
			if dl >= maxDesc-2 {
				lenClass = fmt.Sprint("limit-", maxDesc-dl)
			}
			b.Distinct("error-delivery", s.name, code < 7, lenClass)
			switch {
			case err == nil:
				b.Violate("C19/error-delivery/"+s.name+"/error-flag-ignored", "an RPCError response was read as a successful response", wit)
			case !errors.As(err, &got):
				wit["read_error"] = err.Error()
				cls := "description-short"
				if dl >= maxDesc-2 {
					cls = fmt.Sprintf("description-limit-minus-%d", maxDesc-dl)
				}
				b.Violate(fmt.Sprintf("C19/error-delivery/%s/not-delivered/%s", s.name, cls),
					fmt.Sprintf("RPCError{code %d, %d-byte description} (fits RPCError's own 1024-byte limit) as response to %s did not arrive as that error: %v", code, dl, s.name, err), wit)
			case got.Code != want.Code || got.Description != want.Description:
				wit["got_code"], wit["got_description_len"] = got.Code, len(got.Description)
				b.Violate("C19/error-delivery/"+s.name+"/different-error", "a different error arrived", wit)
			case !errors.Is(err, want) || rhp4.ErrorCode(err) != code:
				b.Violate("C19/error-delivery/"+s.name+"/errors-is", "errors.Is / ErrorCode do not recognise the delivered error", wit)
			case cr.n != int64(encLen):
				wit["pulled"] = cr.n
				b.Violate("C19/framing-desync/"+s.name+"/error", fmt.Sprintf("reader consumed %d of %d bytes", cr.n, encLen), wit)
			default:
				b.Count("errors_delivered", 1)
			}
		}
		for c := 0; c < 256; c++ {
			try(uint8(c), g.n(200))
		}
		for _, dl := range lens {
			try(uint8(1+g.n(6)), dl)
		}
	}
}

// runValidatorErrors: what the library's own request validators answer to a malformed request is an error the host
// sends back as the RPC's response: it has to be deliverable, however many entries of a maximal batch are malformed.
func runValidatorErrors(b *harness.B) {
	g := G{r: b.SubRng("validator-errors")}
	until := time.Date(2100, 1, 1, 0, 0, 0, 0, time.UTC)
	acct := func() rhp4.Account { return rhp4.Account(types.NewPrivateKeyFromSeed(g.bytes(32)).PublicKey()) }
	for _, n := range []int{1, 3, 40, 400, int(rhp4.MaxAccountBatchSize), int(rhp4.MaxAccountBatchSize) + 1} {
		var att rhp4.RPCAttachPoolsRequest
		var det rhp4.RPCDetachPoolsRequest
		var fund rhp4.RPCFundAccountsRequest
		var rep rhp4.RPCReplenishAccountsRequest
		for i := 0; i < n; i++ {
			att.Attachments = append(att.Attachments, rhp4.PoolAttachment{Account: acct(), Pool: acct(), ValidUntil: until}) // unsigned
			det.Detachments = append(det.Detachments, rhp4.PoolDetachment{Account: acct(), Pool: acct(), ValidUntil: until})
			fund.Deposits = append(fund.Deposits, rhp4.AccountDeposit{Account: acct()}) // zero amount
			rep.Accounts = append(rep.Accounts, rhp4.Account{})                          // unset account
		}
		fund.ContractID, rep.ContractID = types.FileContractID{1}, types.FileContractID{1}
		for _, c := range []struct {
			name string
			err  error
			resp func() rhp4.Object
		}{
			{"RPCAttachPoolsRequest", att.Validate(), func() rhp4.Object { return new(rhp4.RPCAttachPoolsResponse) }},
			{"RPCDetachPoolsRequest", det.Validate(), func() rhp4.Object { return new(rhp4.RPCDetachPoolsResponse) }},
			{"RPCFundAccountsRequest", fund.Validate(), func() rhp4.Object { return new(rhp4.RPCFundAccountsResponse) }},
			{"RPCReplenishAccountsRequest", rep.Validate(), func() rhp4.Object { return new(rhp4.RPCReplenishAccountsResponse) }},
		} {
			b.Eval(1)
			b.Distinct("validator-error", c.name, n)
			var want *rhp4.RPCError
			if c.err == nil || !errors.As(c.err, &want) {
				b.Count("malformed_batches_not_refused_with_an_rpc_error(observed)", 1)
				continue
			}
			var buf bytes.Buffer
			if err := rhp4.WriteResponse(&buf, want); err != nil {
				b.Violate("C19/write-error/rhp4.RPCError", err.Error(), nil)
				continue
			}
			err := rhp4.ReadResponse(&buf, c.resp())
			b.Count("validator_errors_sent_as_responses", 1)
			var got *rhp4.RPCError
			if !errors.As(err, &got) || got.Code != want.Code || got.Description != want.Description {
				b.Violate("C19/error-delivery/validator-error-not-delivered/"+c.name, fmt.Sprintf("%s.Validate refuses a batch of %d malformed entries with an RPCError of %d description bytes; sent as the response it arrives as: %v", c.name, n, len(want.Description), err), map[string]any{"entries": n, "description_len": len(want.Description)})
			}
		}
	}
}

// ---- caller-supplied limits (RHP2, RHP3) ----

// countConn counts the bytes Read returns.
type countConn struct {
	net.Conn
	n atomic.Int64
}

func (c *countConn) Read(p []byte) (int, error) {
	n, err := c.Conn.Read(p)
	c.n.Add(int64(n))
	return n, err
}

const watchdog = 60 * time.Second

// rhp2Pair performs the real handshake over a memconn pipe.
func rhp2Pair(opt memconn.Options, hostSK types.PrivateKey, wrapRenter, wrapHost func(net.Conn) net.Conn) (rt, ht *rhp2.Transport, rc, hc *memconn.Conn, err error) {
	rc, hc = memconn.Pipe(opt)
	rc.SetDeadline(time.Now().Add(watchdog))
	hc.SetDeadline(time.Now().Add(watchdog))
	var rn, hn net.Conn = rc, hc
	if wrapRenter != nil {
		rn = wrapRenter(rc)
	}
	if wrapHost != nil {
		hn = wrapHost(hc)
	}
	type res struct {
		t   *rhp2.Transport
		err error
	}
	ch := make(chan res, 1)
	go func() {
		t, err := rhp2.NewHostTransport(hn, hostSK)
		ch <- res{t, err}
	}()
	rt, err = rhp2.NewRenterTransport(rn, hostSK.PublicKey())
	hr := <-ch
	if err == nil {
		err = hr.err
	}
	return rt, hr.t, rc, hc, err
}

func isTimeout(err error) bool {
	var ne net.Error
	return errors.As(err, &ne) && ne.Timeout()
}

func runCallerLimits(b *harness.B) {
	g := G{r: b.SubRng("caller")}
	hostSK := types.NewPrivateKeyFromSeed(g.bytes(32))

	// RHP2: message size on the wire (after the 8-byte prefix) = max(4096, 12+payload+16)
	const r2over = 12 + 16
	payloads := []int{0, 1, 100, 4096 - r2over - 60, 4096 - r2over - 1, 4096 - r2over, 4096 - r2over + 1, 5000, 65536, 1 << 20}
	if !b.Quick() {
		payloads = append(payloads, rhp2.SectorSize, rhp2.SectorSize+4096)
		for i := 0; i < 40; i++ {
			payloads = append(payloads, g.n(1<<17))
		}
	}
	for _, pl := range payloads {
		// response = flag byte + object; RPCSettingsResponse = 8-byte length + data
		dataLen := pl - 1 - 8
		if dataLen < 0 {
			dataLen = 0
		}
		obj := &rhp2.RPCSettingsResponse{Settings: g.bytes(dataLen)}
		wire := 12 + 1 + 8 + dataLen + 16
		if wire < 4096 {
			wire = 4096
		}
		for _, delta := range []int{0, -1, 1000} {
			L := wire + delta
			if delta == -1 && wire == 4096 {
				continue // below the 4096 floor every limit is the floor
			}
			b.Eval(1)
			var cc *countConn
			rt, ht, _, _, err := rhp2Pair(memconn.Options{BufSize: 8 << 20}, hostSK, func(c net.Conn) net.Conn { cc = &countConn{Conn: c}; return cc }, nil)
			if err != nil {
				b.Inconclusive("rhp2 handshake failed in caller-limit case: " + err.Error())
				continue
			}
			werr := make(chan error, 1)
			go func() { werr <- ht.WriteResponse(obj) }()
			before := cc.n.Load()
			var got rhp2.RPCSettingsResponse
			rerr := rt.ReadResponse(&got, uint64(L))
			pulled := cc.n.Load() - before
			<-werr
			rt.ForceClose()
			ht.ForceClose()
			wit := map[string]any{"protocol": "rhp2", "payload_bytes": 1 + 8 + dataLen, "wire_message_bytes": wire, "caller_limit": L, "pulled": pulled}
			b.Distinct("caller-limit", "rhp2", sizeClass(wire), delta)
			b.Count("caller_limit_boundary_cases", 1)
			b.Count("read_bound_cases", 1)
			effective := int64(max(L, 4096)) + 8
			if isTimeout(rerr) {
				b.Inconclusive("watchdog fired in rhp2 caller-limit case")
				continue
			}
			if pulled > effective {
				b.Violate("C19/read-bound/rhp2.ReadResponse", fmt.Sprintf("pulled %d bytes with caller limit %d (bound %d)", pulled, L, effective), wit)
			}
			if delta >= 0 {
				if rerr != nil {
					wit["read_error"] = rerr.Error()
					b.Violate("C19/rejects-valid/rhp2.ReadResponse/message-at-caller-limit", fmt.Sprintf("a %d-byte message was refused with caller limit %d: %v", wire, L, rerr), wit)
				} else if d := equalObj(obj, &got); d != "" {
					b.Violate("C19/roundtrip-mismatch/rhp2.RPCSettingsResponse", d, wit)
				}
			} else if rerr == nil {
				b.Violate("C19/limit-not-applied/rhp2.ReadResponse", fmt.Sprintf("a %d-byte message was accepted with caller limit %d", wire, L), wit)
			}
		}
	}

	// a caller limit at the top of its range ("no limit"): the bound the reader computes from it must not wrap
	for _, L := range []uint64{1 << 62, math.MaxInt64 - 8, math.MaxInt64 - 7, math.MaxInt64, math.MaxUint64 - 8, math.MaxUint64} {
		b.Eval(1)
		obj := &rhp2.RPCSettingsResponse{Settings: g.bytes(2000)}
		rt, ht, _, _, err := rhp2Pair(memconn.Options{BufSize: 8 << 20}, hostSK, nil, nil)
		if err != nil {
			b.Inconclusive("rhp2 handshake failed in huge-limit case: " + err.Error())
			continue
		}
		werr := make(chan error, 1)
		go func() { werr <- ht.WriteResponse(obj) }()
		var got rhp2.RPCSettingsResponse
		rerr := rt.ReadResponse(&got, L)
		<-werr
		closed := rt.IsClosed()
		rt.ForceClose()
		ht.ForceClose()
		b.Count("caller_limits_at_the_top_of_the_range", 1)
		b.Distinct("caller-limit", "rhp2", "huge", L)
		if isTimeout(rerr) {
			b.Inconclusive("watchdog fired in rhp2 huge-limit case")
		} else if rerr != nil {
			b.Violate("C19/rejects-valid/rhp2.ReadResponse/caller-limit-at-the-top-of-its-range", fmt.Sprintf("an ordinary 4096-byte message was refused with caller limit %d: %v (session closed: %v)", L, rerr, closed), map[string]any{"protocol": "rhp2", "caller_limit": L, "read_error": rerr.Error()})
		} else if d := equalObj(obj, &got); d != "" {
			b.Violate("C19/roundtrip-mismatch/rhp2.RPCSettingsResponse", d, nil)
		}
	}

	// RHP2 hostile length prefixes and endless garbage, RawResponse included
	for _, L := range []uint64{0, 100, 4096, 5000, 1 << 16} {
		eff := L
		if eff < 4096 {
			eff = 4096
		}
		for _, raw := range []bool{false, true} {
			for _, v := range []uint64{eff, eff + 1, eff - 1, 27, 28, 1 << 32, 1 << 63, ^uint64(0)} {
				b.Eval(1)
				var cc *countConn
				rt, ht, _, hc, err := rhp2Pair(memconn.Options{BufSize: 1 << 20}, hostSK, func(c net.Conn) net.Conn { cc = &countConn{Conn: c}; return cc }, nil)
				if err != nil {
					b.Inconclusive("rhp2 handshake failed: " + err.Error())
					continue
				}
				// the hostile host writes raw bytes under its established session
				done := make(chan struct{})
				go func() {
					defer close(done)
					hc.Write(le64(v))
					io.CopyN(hc, &endless{pat: []byte{0x5A}}, int64(eff)+4096)
					hc.Close()
				}()
				before := cc.n.Load()
				var rerr error
				if raw {
					var rr *rhp2.ResponseReader
					rr, rerr = rt.RawResponse(L)
					if rerr == nil {
						io.Copy(io.Discard, rr)
						rerr = rr.VerifyTag()
					}
				} else {
					rerr = rt.ReadResponse(&rhp2.RPCSettingsResponse{}, L)
				}
				pulled := cc.n.Load() - before
				rt.ForceClose()
				ht.ForceClose()
				<-done
				b.Count("read_bound_cases", 1)
				name := "rhp2.ReadResponse"
				if raw {
					name = "rhp2.RawResponse"
				}
				b.Distinct("bound", name, L, v > eff, v)
				wit := map[string]any{"caller_limit": L, "length_prefix": v, "pulled": pulled}
				if rerr == nil {
					b.Violate("C19/accepts-garbage/"+name, "a garbage frame was accepted", wit)
				}
				if pulled > int64(eff)+8 {
					b.Violate("C19/read-bound/"+name, fmt.Sprintf("pulled %d bytes with caller limit %d (bound %d)", pulled, L, eff+8), wit)
				}
			}
		}
	}

	// RHP3: accepted iff 8 (prefix) + 1 (flag) + payload <= limit + 1024
	rc, hc := memconn.Pipe(memconn.Options{BufSize: 8 << 20})
	rc.SetDeadline(time.Now().Add(watchdog))
	hc.SetDeadline(time.Now().Add(watchdog))
	type r3res struct {
		t   *rhp3.Transport
		err error
	}
	ch := make(chan r3res, 1)
	go func() { t, err := rhp3.NewHostTransport(hc, hostSK); ch <- r3res{t, err} }()
	rt3, err := rhp3.NewRenterTransport(rc, hostSK.PublicKey())
	hr := <-ch
	if err != nil || hr.err != nil {
		b.Inconclusive(fmt.Sprintf("rhp3 handshake failed: %v %v", err, hr.err))
		return
	}
	ht3 := hr.t
	defer rt3.Close()
	defer ht3.Close()
	sizes := []int{1100, 2000, 4096 + 1024, 10000, 65536, 1 << 20}
	if !b.Quick() {
		sizes = append(sizes, 1<<22, 1<<22+5000)
		for i := 0; i < 40; i++ {
			sizes = append(sizes, 1016+g.n(1<<17))
		}
	}
	for _, n := range sizes {
		for _, kind := range []string{"pricetable", "program-response", "program-request"} {
			for _, delta := range []int{0, -1, 777} {
				var obj, fresh rhp3.ProtocolObject
				switch kind {
				case "pricetable":
					obj, fresh = &rhp3.RPCUpdatePriceTableResponse{PriceTableJSON: g.bytes(n)}, &rhp3.RPCUpdatePriceTableResponse{}
				case "program-response":
					obj, fresh = &rhp3.RPCExecuteProgramResponse{AdditionalCollateral: g.cur(), OutputLength: uint64(n), NewMerkleRoot: g.hash(), NewSize: g.small(), Proof: g.hashes(g.n(20)), Error: errors.New(g.str(1 + g.n(30))), TotalCost: g.cur(), FailureRefund: g.cur(), Output: g.bytes(n)}, &rhp3.RPCExecuteProgramResponse{}
				default:
					obj, fresh = &rhp3.RPCExecuteProgramRequest{FileContractID: types.FileContractID(g.hash()), Program: r3program(g, 1+g.n(8)), ProgramData: g.bytes(n)}, &rhp3.RPCExecuteProgramRequest{}
				}
				var lw lenWriter
				e := types.NewEncoder(&lw)
				obj.EncodeTo(e)
				e.Flush()
				total := 8 + 1 + lw.n
				L := total - 1024 + delta
				if L < 0 {
					continue
				}
				b.Eval(1)
				rs := rt3.DialStream()
				rs.SetDeadline(time.Now().Add(watchdog))
				acc := make(chan *rhp3.Stream, 1)
				go func() {
					hs, err := ht3.AcceptStream()
					if err != nil {
						acc <- nil
						return
					}
					hs.SetDeadline(time.Now().Add(watchdog))
					acc <- hs
				}()
				// the renter sends obj as a "response" on its stream; the host reads it with limit L
				werr := make(chan error, 1)
				go func() { werr <- rs.WriteResponse(obj) }()
				hs := <-acc
				if hs == nil {
					b.Inconclusive("rhp3 AcceptStream failed")
					<-werr
					continue
				}
				rerr := hs.ReadResponse(fresh, uint64(L))
				hs.Close()
				rs.Close()
				<-werr
				b.Count("caller_limit_boundary_cases", 1)
				b.Count("read_bound_cases", 1)
				b.Distinct("caller-limit", "rhp3", kind, sizeClass(total), delta)
				wit := map[string]any{"protocol": "rhp3", "object": typeName(obj), "message_bytes_incl_prefix": total, "caller_limit": L, "accept_iff": "message_bytes <= limit+1024"}
				if isTimeout(rerr) {
					b.Inconclusive("watchdog fired in rhp3 caller-limit case")
					continue
				}
				if delta >= 0 {
					if rerr != nil {
						wit["read_error"] = rerr.Error()
						b.Violate("C19/rejects-valid/rhp3.ReadResponse/message-at-caller-limit/"+kind, fmt.Sprintf("a %d-byte message was refused with caller limit %d: %v", total, L, rerr), wit)
					} else if d := equalObj(obj, fresh); d != "" {
						wit["difference"] = d
						b.Violate("C19/roundtrip-mismatch/"+typeName(obj), d, wit)
					}
				} else if rerr == nil {
					b.Violate("C19/limit-not-applied/rhp3.ReadResponse/"+kind, fmt.Sprintf("a %d-byte message was accepted with caller limit %d: more than limit+1024 bytes were read", total, L), wit)
				}
			}
		}
	}
	// RHP3: a caller limit at the top of its range
	for _, L := range []uint64{1 << 62, math.MaxInt64 - 1024, math.MaxInt64, math.MaxUint64 - 1024, math.MaxUint64} {
		b.Eval(1)
		obj, fresh := &rhp3.RPCUpdatePriceTableResponse{PriceTableJSON: g.bytes(2000)}, &rhp3.RPCUpdatePriceTableResponse{}
		rs := rt3.DialStream()
		rs.SetDeadline(time.Now().Add(watchdog))
		werr := make(chan error, 1)
		go func() { werr <- rs.WriteResponse(obj) }()
		hs, err := ht3.AcceptStream()
		if err != nil {
			b.Inconclusive("rhp3 AcceptStream failed")
			<-werr
			continue
		}
		hs.SetDeadline(time.Now().Add(watchdog))
		rerr := hs.ReadResponse(fresh, L)
		hs.Close()
		rs.Close()
		<-werr
		b.Count("caller_limits_at_the_top_of_the_range", 1)
		b.Distinct("caller-limit", "rhp3", "huge", L)
		if isTimeout(rerr) {
			b.Inconclusive("watchdog fired in rhp3 huge-limit case")
		} else if rerr != nil {
			b.Violate("C19/rejects-valid/rhp3.ReadResponse/caller-limit-at-the-top-of-its-range", fmt.Sprintf("an ordinary 2 KB message was refused with caller limit %d: %v", L, rerr), map[string]any{"protocol": "rhp3", "caller_limit": L, "read_error": rerr.Error()})
		} else if d := equalObj(obj, fresh); d != "" {
			b.Violate("C19/roundtrip-mismatch/"+typeName(obj), d, nil)
		}
	}
	// RHP3 hostile length prefix
	for _, v := range []uint64{7000} {
		b.Eval(1)
		rs := rt3.DialStream()
		rs.SetDeadline(time.Now().Add(watchdog))
		go func() {
			// a well-formed object whose length prefix we cannot forge through the
			// API: instead send an over-limit valid object (prefix > limit)
			rs.WriteResponse(&rhp3.RPCUpdatePriceTableResponse{PriceTableJSON: make([]byte, 7000)})
		}()
		hs, err := ht3.AcceptStream()
		if err != nil {
			b.Inconclusive("rhp3 AcceptStream failed")
			continue
		}
		hs.SetDeadline(time.Now().Add(watchdog))
		rerr := hs.ReadResponse(&rhp3.RPCUpdatePriceTableResponse{}, 5000)
		hs.Close()
		rs.Close()
		b.Count("read_bound_cases", 1)
		if rerr == nil {
			b.Violate("C19/limit-not-applied/rhp3.ReadResponse/over-limit-prefix", "a message longer than limit+1024 was accepted", map[string]any{"v": v})
		}
	}
}

func r3program(g G, n int) []rhp3.Instruction {
	var p []rhp3.Instruction
	for i := 0; i < n; i++ {
		switch g.n(12) {
		case 0:
			p = append(p, &rhp3.InstrAppendSector{SectorDataOffset: g.small(), ProofRequired: g.n(2) == 0})
		case 1:
			p = append(p, &rhp3.InstrAppendSectorRoot{MerkleRootOffset: g.small(), ProofRequired: g.n(2) == 0})
		case 2:
			p = append(p, &rhp3.InstrDropSectors{SectorCountOffset: g.small(), ProofRequired: g.n(2) == 0})
		case 3:
			p = append(p, &rhp3.InstrHasSector{MerkleRootOffset: g.small()})
		case 4:
			p = append(p, &rhp3.InstrReadOffset{LengthOffset: g.small(), OffsetOffset: g.small(), ProofRequired: g.n(2) == 0})
		case 5:
			p = append(p, &rhp3.InstrReadSector{LengthOffset: g.small(), OffsetOffset: g.small(), MerkleRootOffset: g.small(), ProofRequired: g.n(2) == 0})
		case 6:
			p = append(p, &rhp3.InstrSwapSector{Sector1Offset: g.small(), Sector2Offset: g.small(), ProofRequired: g.n(2) == 0})
		case 7:
			p = append(p, &rhp3.InstrUpdateSector{Offset: g.small(), Length: g.small(), DataOffset: g.small(), ProofRequired: g.n(2) == 0})
		case 8:
			p = append(p, &rhp3.InstrStoreSector{DataOffset: g.small(), Duration: g.small()})
		case 9:
			p = append(p, &rhp3.InstrRevision{})
		case 10:
			p = append(p, &rhp3.InstrReadRegistry{PublicKeyOffset: g.small(), PublicKeyLength: g.small(), TweakOffset: g.small(), Version: uint8(g.n(256))})
		default:
			p = append(p, &rhp3.InstrUpdateRegistry{TweakOffset: g.small(), RevisionOffset: g.small(), SignatureOffset: g.small(), PublicKeyOffset: g.small(), PublicKeyLength: g.small(), DataOffset: g.small(), DataLength: g.small(), EntryType: uint8(g.n(256))})
		}
	}
	return p
}
