package main

import "verif/internal/harness"

func runTransports(b *harness.B, tcp bool) {}
func runTamper(b *harness.B)            {}
func runHandshakeMismatch(b *harness.B) {}
