package main

import "verif/internal/harness"

func runReadBound(b *harness.B)         {}
func runErrorDelivery(b *harness.B)     {}
func runCallerLimits(b *harness.B)      {}
func runTransports(b *harness.B, tcp bool) {}
func runTamper(b *harness.B)            {}
func runHandshakeMismatch(b *harness.B) {}
