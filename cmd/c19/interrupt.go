package main

import (
	"fmt"
	"io"
	"net"
	"os"
	"sync"

	rhp2 "go.sia.tech/core/rhp/v2"
	"go.sia.tech/core/types"
	"verif/internal/harness"
	"verif/internal/memconn"
)

// interruptConn delivers (or accepts) bytes up to an armed absolute count and then reports an expired deadline once -
// what a read or write deadline does to a connection that is otherwise healthy.
type interruptConn struct {
	net.Conn
	mu           sync.Mutex
	rn, wn       int64
	rAt, wAt     int64 // absolute counts at which the next call times out (0 = not armed)
	rHits, wHits int
}

func (c *interruptConn) Read(p []byte) (int, error) {
	c.mu.Lock()
	if c.rAt > 0 {
		left := c.rAt - c.rn
		if left <= 0 {
			c.rAt = 0
			c.rHits++
			c.mu.Unlock()
			return 0, os.ErrDeadlineExceeded
		}
		if int64(len(p)) > left {
			p = p[:left]
		}
	}
	c.mu.Unlock()
	n, err := c.Conn.Read(p)
	c.mu.Lock()
	c.rn += int64(n)
	c.mu.Unlock()
	return n, err
}

func (c *interruptConn) Write(p []byte) (int, error) {
	c.mu.Lock()
	cut := -1
	if c.wAt > 0 && c.wn+int64(len(p)) > c.wAt {
		cut = int(c.wAt - c.wn)
		c.wAt = 0
		c.wHits++
	}
	c.mu.Unlock()
	if cut >= 0 {
		n, _ := c.Conn.Write(p[:cut])
		c.mu.Lock()
		c.wn += int64(n)
		c.mu.Unlock()
		return n, os.ErrDeadlineExceeded
	}
	n, err := c.Conn.Write(p)
	c.mu.Lock()
	c.wn += int64(n)
	c.mu.Unlock()
	return n, err
}

// runInterrupted: a deadline that expires after part of a frame was read or written leaves the stream at no frame
// boundary. Whichever entry point was reading or writing, the session is over: it reports itself closed, a later read
// does not take the rest of the old frame for a new one, and a later write is not reported as sent.
func runInterrupted(b *harness.B) {
	g := G{r: b.SubRng("interrupted")}
	hostSK := types.NewPrivateKeyFromSeed(g.bytes(32))
	big := &rhp2.RPCSettingsResponse{Settings: g.bytes(10000)}
	small := &rhp2.RPCSettingsResponse{Settings: g.bytes(100)}
	for _, path := range []string{"ReadResponse", "RawResponse"} {
		for _, cut := range []int64{3, 20, 500, 9000} {
			b.Eval(1)
			var ic *interruptConn
			rt, ht, _, _, err := rhp2Pair(memconn.Options{BufSize: 1 << 20}, hostSK, func(c net.Conn) net.Conn { ic = &interruptConn{Conn: c}; return ic }, nil)
			if err != nil {
				b.Inconclusive("rhp2 handshake failed (interrupted read): " + err.Error())
				continue
			}
			ic.mu.Lock()
			ic.rAt = ic.rn + cut
			ic.mu.Unlock()
			wdone := make(chan struct{})
			go func() { defer close(wdone); ht.WriteResponse(big); ht.WriteResponse(small) }()
			read := func() error {
				if path == "RawResponse" {
					rr, err := rt.RawResponse(1 << 20)
					if err != nil {
						return err
					}
					if _, err := io.Copy(io.Discard, rr); err != nil {
						return err
					}
					return rr.VerifyTag()
				}
				return rt.ReadResponse(new(rhp2.RPCSettingsResponse), 1<<20)
			}
			err1 := read()
			closed, pce := rt.IsClosed(), rt.PrematureCloseErr()
			err2 := read()
			<-wdone
			ic.mu.Lock()
			hits := ic.rHits
			ic.mu.Unlock()
			rt.ForceClose()
			ht.ForceClose()
			b.Count("frames_interrupted_by_a_deadline", 1)
			b.Distinct("interrupted", "read", path, cut)
			wit := map[string]any{"transport": "rhp2", "reader": path, "bytes_of_the_frame_read_before_the_deadline": cut, "err1": fmt.Sprint(err1), "err2": fmt.Sprint(err2), "is_closed": closed}
			switch {
			case hits == 0:
				b.Inconclusive("interrupted read: the armed offset was never reached")
			case err1 == nil:
				// the deadline fell where no byte was lost and the frame arrived whole and authentic
				b.Count("interruptions_absorbed_without_loss", 1)
			case !closed || pce == nil:
				b.Violate("C19/interrupted/rhp2/session-not-closed-after-a-partly-read-frame/"+path, fmt.Sprintf("a read deadline expired %d bytes into a frame (%v); the session still reports IsClosed=%v PrematureCloseErr=%v and the next read answers %v", cut, err1, closed, pce, err2), wit)
			case err2 == nil:
				b.Violate("C19/interrupted/rhp2/later-read-succeeds/"+path, "after an interrupted frame a later read on the session succeeded", wit)
			}
		}
	}
	for _, cut := range []int64{3, 500, 9000} {
		b.Eval(1)
		var ic *interruptConn
		rt, ht, _, _, err := rhp2Pair(memconn.Options{BufSize: 1 << 20}, hostSK, nil, func(c net.Conn) net.Conn { ic = &interruptConn{Conn: c}; return ic })
		if err != nil {
			b.Inconclusive("rhp2 handshake failed (interrupted write): " + err.Error())
			continue
		}
		ic.mu.Lock()
		ic.wAt = ic.wn + cut
		ic.mu.Unlock()
		rdone := make(chan struct{})
		go func() {
			defer close(rdone)
			for i := 0; i < 2; i++ {
				if rt.ReadResponse(new(rhp2.RPCSettingsResponse), 1<<20) != nil {
					return
				}
			}
		}()
		err1 := ht.WriteResponse(big)
		closed, pce := ht.IsClosed(), ht.PrematureCloseErr()
		err2 := ht.WriteResponse(small)
		ht.ForceClose()
		rt.ForceClose()
		<-rdone
		b.Count("frames_interrupted_by_a_deadline", 1)
		b.Distinct("interrupted", "write", cut)
		wit := map[string]any{"transport": "rhp2", "bytes_of_the_frame_written_before_the_deadline": cut, "err1": fmt.Sprint(err1), "err2": fmt.Sprint(err2), "is_closed": closed}
		switch {
		case err1 == nil:
			b.Violate("C19/interrupted/rhp2/partial-write-reported-as-sent", "a frame of which only a part reached the connection was reported as written", wit)
		case !closed || pce == nil:
			b.Violate("C19/interrupted/rhp2/session-not-closed-after-a-partly-written-frame", fmt.Sprintf("a write deadline expired %d bytes into a frame (%v); the session still reports IsClosed=%v and the next write answers %v", cut, err1, closed, err2), wit)
		case err2 == nil:
			b.Violate("C19/interrupted/rhp2/later-write-reported-as-sent", "after a partly written frame a later write on the session was reported as sent", wit)
		}
	}
}
