package main

// Registry of every RHP4 Object (every type with a maxLen method in
// rhp/v4/encoding.go), with the limit the protocol definition declares for it,
// the largest instance the protocol's own rules admit, and random smaller
// instances.

import (
	"go/ast"
	"go/parser"
	"go/token"
	"path/filepath"
	"reflect"
	"runtime"
	"sort"
	"strings"

	rhp4 "go.sia.tech/core/rhp/v4"
	"go.sia.tech/core/types"
)

// Sizes from the protocol definition (fixed-width v2 encodings).
const (
	szCur      = 16
	szHash     = 32
	szSig      = 64
	szContract = 8 + 8 + 32 + 8 + 8 + (16 + 32) + (16 + 32) + 16 + 16 + 32 + 32 + 8 + 64 + 64 // 392
	szPrices   = 6*16 + 8 + 8 + 64                                                            // 176
	szAccount  = 32
	szToken    = 32 + 32 + 8 + 64 // 136
	szDeposit  = 32 + 16          // 48
	szPoolTok  = 32 + 32 + 8 + 64 // 136
	szObj      = 10 * 1024
	szTxnSet   = 100 * 1024
	szErr      = 1024 // RPCError limit; also the slack ReadResponse adds
	batch      = rhp4.MaxSectorBatchSize
	acctBatch  = rhp4.MaxAccountBatchSize
)

type r4spec struct {
	name  string
	resp  bool // read by ReadResponse (limit = szErr + limit) instead of ReadRequest
	limit int  // declared maxLen
	fresh func() rhp4.Object
	// max builds the largest instance the protocol admits; bounded=false means
	// the protocol states no count limit and max is a generous realistic one.
	max     func(g G, k *keys) rhp4.Object
	bounded bool
	rnd     func(g G, k *keys) rhp4.Object
	// validate runs the protocol's own Validate on an instance (nil: none).
	validate func(o rhp4.Object, k *keys) error
	// over builds the smallest instance beyond the protocol's count limit; the
	// protocol's Validate must reject it (evidence that rejection is possible).
	over func(g G, k *keys) rhp4.Object
}

type keys struct {
	hostSK types.PrivateKey
	hostPK types.PublicKey
	acctSK types.PrivateKey
}

func newKeys(g G) *keys {
	seed := g.bytes(32)
	sk := types.NewPrivateKeyFromSeed(seed)
	ak := types.NewPrivateKeyFromSeed(g.bytes(32))
	return &keys{hostSK: sk, hostPK: sk.PublicKey(), acctSK: ak}
}

func (k *keys) prices(g G) rhp4.HostPrices {
	hp := rhp4.HostPrices{ContractPrice: g.cur(), Collateral: g.cur(), StoragePrice: g.cur(), IngressPrice: g.cur(), EgressPrice: g.cur(), FreeSectorPrice: g.cur(),
		TipHeight: g.small() >> 8, ValidUntil: farFuture}
	hp.Signature = k.hostSK.SignHash(hp.SigHash())
	return hp
}

func (k *keys) token(g G) rhp4.AccountToken {
	t := rhp4.AccountToken{HostKey: k.hostPK, Account: rhp4.Account(k.acctSK.PublicKey()), ValidUntil: farFuture}
	t.Signature = k.acctSK.SignHash(t.SigHash())
	return t
}

func (g G) account() (a rhp4.Account) {
	g.fill(a[:])
	a[0] |= 1 // never the zero account
	return
}

func (g G) accounts(n int) []rhp4.Account {
	var out []rhp4.Account
	for i := 0; i < n; i++ {
		out = append(out, g.account())
	}
	return out
}

func (g G) deposits(n int) []rhp4.AccountDeposit {
	var out []rhp4.AccountDeposit
	for i := 0; i < n; i++ {
		out = append(out, rhp4.AccountDeposit{Account: g.account(), Amount: g.nzcur()})
	}
	return out
}

func (g G) sces(n, proofLen int) []types.SiacoinElement {
	var out []types.SiacoinElement
	for i := 0; i < n; i++ {
		out = append(out, g.sce(proofLen))
	}
	return out
}

func (g G) v2scis(n, proofLen int) []types.V2SiacoinInput {
	var out []types.V2SiacoinInput
	for i := 0; i < n; i++ {
		out = append(out, g.v2sci(proofLen))
	}
	return out
}

func (g G) pkPolicies(n int) []types.SatisfiedPolicy {
	var out []types.SatisfiedPolicy
	for i := 0; i < n; i++ {
		out = append(out, types.SatisfiedPolicy{Policy: types.PolicyPublicKey(g.pk()), Signatures: []types.Signature{g.sig()}})
	}
	return out
}

// distinctIndices returns n distinct sector indices below limit.
func (g G) distinctIndices(n int, limit uint64) []uint64 {
	if uint64(n) > limit {
		n = int(limit)
	}
	if uint64(n)*2 > limit {
		// dense: a random subset by partial shuffle
		all := make([]uint64, limit)
		for i := range all {
			all[i] = uint64(i)
		}
		for i := 0; i < n; i++ {
			j := i + g.n(int(limit)-i)
			all[i], all[j] = all[j], all[i]
		}
		return all[:n:n]
	}
	seen := make(map[uint64]struct{}, n)
	out := make([]uint64, 0, n)
	for len(out) < n {
		v := g.u64() % limit
		if _, ok := seen[v]; !ok {
			seen[v] = struct{}{}
			out = append(out, v)
		}
	}
	return out
}

func rndCount(g G, max int) int {
	switch g.n(4) {
	case 0:
		return g.n(3)
	case 1:
		return g.n(max + 1)
	}
	return g.n(min(max, 64) + 1)
}

// realistic transaction-set parameters for form/renew/refresh (no protocol
// count limit exists; see DESIGN C19 soundness guard)
const (
	realisticInputs    = 10
	realisticProofLen  = 40
	realisticParents   = 2
	realisticTxnSetLen = 3
)

func rhp4Registry() []r4spec {
	sigObj := func(name string, resp bool, fresh func() rhp4.Object, set func(o rhp4.Object, s types.Signature)) r4spec {
		mk := func(g G, k *keys) rhp4.Object { o := fresh(); set(o, g.sig()); return o }
		return r4spec{name: name, resp: resp, limit: szSig, fresh: fresh, max: mk, bounded: true, rnd: mk}
	}
	contractFC := func(sectors uint64) types.V2FileContract {
		return types.V2FileContract{Filesize: sectors * rhp4.SectorSize, Capacity: sectors * rhp4.SectorSize}
	}
	form := func(g G, k *keys, inputs, parents int) *rhp4.RPCFormContractRequest {
		hp := rhp4.HostPrices{ContractPrice: types.Siacoins(1), Collateral: types.NewCurrency64(2), StoragePrice: types.NewCurrency64(1), TipHeight: 100, ValidUntil: farFuture}
		hp.Signature = k.hostSK.SignHash(hp.SigHash())
		return &rhp4.RPCFormContractRequest{Prices: hp,
			Contract: rhp4.RPCFormContractParams{RenterPublicKey: g.pk(), RenterAddress: g.addr(), Allowance: types.Siacoins(10), Collateral: types.Siacoins(20), ProofHeight: 100 + rhp4.MinContractDuration + 10},
			MinerFee: types.Siacoins(1), Basis: types.ChainIndex{Height: 100, ID: types.BlockID(g.hash())},
			RenterInputs: g.sces(inputs, realisticProofLen), RenterParents: g.v2txns(parents, realisticProofLen)}
	}
	renew := func(g G, k *keys, inputs, parents int) *rhp4.RPCRenewContractRequest {
		f := form(g, k, inputs, parents)
		return &rhp4.RPCRenewContractRequest{Prices: f.Prices, Renewal: rhp4.RPCRenewContractParams{ContractID: types.FileContractID(g.hash()), Allowance: types.Siacoins(10), Collateral: types.Siacoins(20), ProofHeight: 100 + rhp4.MinContractDuration + 500},
			MinerFee: f.MinerFee, Basis: f.Basis, RenterInputs: f.RenterInputs, RenterParents: f.RenterParents, ChallengeSignature: g.sig()}
	}
	refresh := func(g G, k *keys, inputs, parents int) *rhp4.RPCRefreshContractRequest {
		f := form(g, k, inputs, parents)
		return &rhp4.RPCRefreshContractRequest{Prices: f.Prices, Refresh: rhp4.RPCRefreshContractParams{ContractID: types.FileContractID(g.hash()), Allowance: types.Siacoins(10), Collateral: types.Siacoins(20)},
			MinerFee: f.MinerFee, Basis: f.Basis, RenterInputs: f.RenterInputs, RenterParents: f.RenterParents, ChallengeSignature: g.sig()}
	}
	existing := types.V2FileContract{ProofHeight: 100 + rhp4.MinContractDuration + 100, ExpirationHeight: 100 + rhp4.MinContractDuration + 100 + rhp4.ProofWindow}
	tip := types.ChainIndex{Height: 100}
	bigCollateral := types.Siacoins(1e6)

	hostInputs := func(name string, fresh func() rhp4.Object, set func(o rhp4.Object, in []types.V2SiacoinInput)) r4spec {
		return r4spec{name: name, resp: true, limit: szTxnSet, fresh: fresh,
			max: func(g G, k *keys) rhp4.Object {
				o := fresh()
				set(o, g.v2scis(realisticInputs, realisticProofLen))
				return o
			},
			rnd: func(g G, k *keys) rhp4.Object {
				o := fresh()
				set(o, g.v2scis(g.n(4), g.n(realisticProofLen+1)))
				return o
			}}
	}
	second := func(name string, fresh func() rhp4.Object, set func(o rhp4.Object, g G, sp []types.SatisfiedPolicy)) r4spec {
		return r4spec{name: name, resp: true, limit: szObj, fresh: fresh,
			max: func(g G, k *keys) rhp4.Object { o := fresh(); set(o, g, g.pkPolicies(realisticInputs)); return o },
			rnd: func(g G, k *keys) rhp4.Object {
				o := fresh()
				var sp []types.SatisfiedPolicy
				for i, n := 0, g.n(4); i < n; i++ {
					sp = append(sp, g.satisfied())
				}
				set(o, g, sp)
				return o
			}}
	}
	third := func(name string, fresh func() rhp4.Object, set func(o rhp4.Object, ci types.ChainIndex, ts []types.V2Transaction)) r4spec {
		return r4spec{name: name, resp: true, limit: szTxnSet, fresh: fresh,
			max: func(g G, k *keys) rhp4.Object {
				o := fresh()
				// parents + the formation transaction carrying both parties' inputs
				ts := g.v2txns(realisticTxnSetLen-1, realisticProofLen)
				ft := types.V2Transaction{SiacoinInputs: g.v2scis(2*realisticInputs, realisticProofLen), SiacoinOutputs: g.scos(2), FileContracts: []types.V2FileContract{g.v2contract()}, MinerFee: g.nzcur()}
				set(o, g.chainIndex(), append(ts, ft))
				return o
			},
			rnd: func(g G, k *keys) rhp4.Object {
				o := fresh()
				set(o, g.chainIndex(), g.v2txns(g.n(3), g.n(realisticProofLen+1)))
				return o
			}}
	}

	specs := []r4spec{
		{name: "rhp4.RPCError", resp: false, limit: szErr, fresh: func() rhp4.Object { return new(rhp4.RPCError) }, bounded: true,
			max: func(g G, k *keys) rhp4.Object {
				return &rhp4.RPCError{Code: uint8(g.n(256)), Description: g.str(szErr - 1 - 8)}
			},
			rnd: func(g G, k *keys) rhp4.Object {
				return &rhp4.RPCError{Code: uint8(g.n(256)), Description: g.str(g.n(szErr - 1 - 8 + 1))}
			}},
		{name: "rhp4.RPCSettingsRequest", limit: 0, fresh: func() rhp4.Object { return new(rhp4.RPCSettingsRequest) }, bounded: true,
			max: func(g G, k *keys) rhp4.Object { return new(rhp4.RPCSettingsRequest) }, rnd: func(g G, k *keys) rhp4.Object { return new(rhp4.RPCSettingsRequest) }},
		{name: "rhp4.RPCSettingsResponse", resp: true, limit: szObj, fresh: func() rhp4.Object { return new(rhp4.RPCSettingsResponse) },
			max: func(g G, k *keys) rhp4.Object {
				return &rhp4.RPCSettingsResponse{Settings: rhp4.HostSettings{ProtocolVersion: [3]uint8{255, 255, 255}, Release: g.str(256), WalletAddress: g.addr(), AcceptingContracts: true,
					MaxCollateral: types.MaxCurrency, MaxContractDuration: ^uint64(0), RemainingStorage: ^uint64(0), TotalStorage: ^uint64(0), Prices: k.prices(g)}}
			},
			rnd: func(g G, k *keys) rhp4.Object {
				return &rhp4.RPCSettingsResponse{Settings: rhp4.HostSettings{ProtocolVersion: [3]uint8{uint8(g.n(256)), uint8(g.n(256)), uint8(g.n(256))}, Release: g.str(g.n(64)), WalletAddress: g.addr(), AcceptingContracts: g.n(2) == 0,
					MaxCollateral: g.cur(), MaxContractDuration: g.small(), RemainingStorage: g.small(), TotalStorage: g.small(), Prices: k.prices(g)}}
			}},

		{name: "rhp4.RPCFormContractRequest", limit: szTxnSet, fresh: func() rhp4.Object { return new(rhp4.RPCFormContractRequest) },
			max: func(g G, k *keys) rhp4.Object { return form(g, k, realisticInputs, realisticParents) },
			rnd: func(g G, k *keys) rhp4.Object { return form(g, k, 1+g.n(4), g.n(2)) },
			validate: func(o rhp4.Object, k *keys) error {
				return o.(*rhp4.RPCFormContractRequest).Validate(k.hostPK, tip, bigCollateral, 1e6)
			}},
		hostInputs("rhp4.RPCFormContractResponse", func() rhp4.Object { return new(rhp4.RPCFormContractResponse) }, func(o rhp4.Object, in []types.V2SiacoinInput) { o.(*rhp4.RPCFormContractResponse).HostInputs = in }),
		second("rhp4.RPCFormContractSecondResponse", func() rhp4.Object { return new(rhp4.RPCFormContractSecondResponse) }, func(o rhp4.Object, g G, sp []types.SatisfiedPolicy) {
			r := o.(*rhp4.RPCFormContractSecondResponse)
			r.RenterContractSignature, r.RenterSatisfiedPolicies = g.sig(), sp
		}),
		third("rhp4.RPCFormContractThirdResponse", func() rhp4.Object { return new(rhp4.RPCFormContractThirdResponse) }, func(o rhp4.Object, ci types.ChainIndex, ts []types.V2Transaction) {
			r := o.(*rhp4.RPCFormContractThirdResponse)
			r.Basis, r.TransactionSet = ci, ts
		}),

		{name: "rhp4.RPCRenewContractRequest", limit: szTxnSet, fresh: func() rhp4.Object { return new(rhp4.RPCRenewContractRequest) },
			max: func(g G, k *keys) rhp4.Object { return renew(g, k, realisticInputs, realisticParents) },
			rnd: func(g G, k *keys) rhp4.Object { return renew(g, k, 1+g.n(4), g.n(2)) },
			validate: func(o rhp4.Object, k *keys) error {
				return o.(*rhp4.RPCRenewContractRequest).Validate(k.hostPK, tip, existing, types.MaxCurrency, 1e6)
			}},
		hostInputs("rhp4.RPCRenewContractResponse", func() rhp4.Object { return new(rhp4.RPCRenewContractResponse) }, func(o rhp4.Object, in []types.V2SiacoinInput) { o.(*rhp4.RPCRenewContractResponse).HostInputs = in }),
		second("rhp4.RPCRenewContractSecondResponse", func() rhp4.Object { return new(rhp4.RPCRenewContractSecondResponse) }, func(o rhp4.Object, g G, sp []types.SatisfiedPolicy) {
			r := o.(*rhp4.RPCRenewContractSecondResponse)
			r.RenterRenewalSignature, r.RenterContractSignature, r.RenterSatisfiedPolicies = g.sig(), g.sig(), sp
		}),
		third("rhp4.RPCRenewContractThirdResponse", func() rhp4.Object { return new(rhp4.RPCRenewContractThirdResponse) }, func(o rhp4.Object, ci types.ChainIndex, ts []types.V2Transaction) {
			r := o.(*rhp4.RPCRenewContractThirdResponse)
			r.Basis, r.TransactionSet = ci, ts
		}),

		{name: "rhp4.RPCRefreshContractRequest", limit: szTxnSet, fresh: func() rhp4.Object { return new(rhp4.RPCRefreshContractRequest) },
			max: func(g G, k *keys) rhp4.Object { return refresh(g, k, realisticInputs, realisticParents) },
			rnd: func(g G, k *keys) rhp4.Object { return refresh(g, k, 1+g.n(4), g.n(2)) },
			validate: func(o rhp4.Object, k *keys) error {
				return o.(*rhp4.RPCRefreshContractRequest).Validate(k.hostPK, tip, existing, types.MaxCurrency, false)
			}},
		hostInputs("rhp4.RPCRefreshContractResponse", func() rhp4.Object { return new(rhp4.RPCRefreshContractResponse) }, func(o rhp4.Object, in []types.V2SiacoinInput) { o.(*rhp4.RPCRefreshContractResponse).HostInputs = in }),
		second("rhp4.RPCRefreshContractSecondResponse", func() rhp4.Object { return new(rhp4.RPCRefreshContractSecondResponse) }, func(o rhp4.Object, g G, sp []types.SatisfiedPolicy) {
			r := o.(*rhp4.RPCRefreshContractSecondResponse)
			r.RenterRenewalSignature, r.RenterContractSignature, r.RenterSatisfiedPolicies = g.sig(), g.sig(), sp
		}),
		third("rhp4.RPCRefreshContractThirdResponse", func() rhp4.Object { return new(rhp4.RPCRefreshContractThirdResponse) }, func(o rhp4.Object, ci types.ChainIndex, ts []types.V2Transaction) {
			r := o.(*rhp4.RPCRefreshContractThirdResponse)
			r.Basis, r.TransactionSet = ci, ts
		}),

		{name: "rhp4.RPCFreeSectorsRequest", limit: szObj + 32*batch, fresh: func() rhp4.Object { return new(rhp4.RPCFreeSectorsRequest) }, bounded: true,
			max: func(g G, k *keys) rhp4.Object {
				return &rhp4.RPCFreeSectorsRequest{ContractID: types.FileContractID(g.hash()), Prices: k.prices(g), Indices: g.distinctIndices(batch, 1<<30), ChallengeSignature: g.sig()}
			},
			rnd: func(g G, k *keys) rhp4.Object {
				return &rhp4.RPCFreeSectorsRequest{ContractID: types.FileContractID(g.hash()), Prices: k.prices(g), Indices: g.distinctIndices(rndCount(g, 5000), 1<<30), ChallengeSignature: g.sig()}
			},
			validate: func(o rhp4.Object, k *keys) error {
				return o.(*rhp4.RPCFreeSectorsRequest).Validate(k.hostPK, contractFC(1<<30))
			},
			over: func(g G, k *keys) rhp4.Object {
				return &rhp4.RPCFreeSectorsRequest{ContractID: types.FileContractID(g.hash()), Prices: k.prices(g), Indices: g.distinctIndices(batch+1, 1<<30), ChallengeSignature: g.sig()}
			}},
		// RPCFreeSectorsResponse: generic entry covers responses for small
		// batches; the contract-size dependent maximum is evaluated separately
		// (freeSectorsBySize).
		{name: "rhp4.RPCFreeSectorsResponse", resp: true, limit: 20 << 20, fresh: func() rhp4.Object { return new(rhp4.RPCFreeSectorsResponse) }, bounded: true,
			max: func(g G, k *keys) rhp4.Object {
				// all 2^18 sectors of a 2^18-sector contract freed: every leaf, no subtree hash
				return &rhp4.RPCFreeSectorsResponse{OldLeafHashes: g.fastHashes(batch), NewMerkleRoot: g.hash()}
			},
			rnd: func(g G, k *keys) rhp4.Object {
				return &rhp4.RPCFreeSectorsResponse{OldSubtreeHashes: g.hashes(rndCount(g, 2000)), OldLeafHashes: g.hashes(rndCount(g, 2000)), NewMerkleRoot: g.hash()}
			}},
		sigObj("rhp4.RPCFreeSectorsSecondResponse", true, func() rhp4.Object { return new(rhp4.RPCFreeSectorsSecondResponse) }, func(o rhp4.Object, s types.Signature) { o.(*rhp4.RPCFreeSectorsSecondResponse).RenterSignature = s }),
		sigObj("rhp4.RPCFreeSectorsThirdResponse", true, func() rhp4.Object { return new(rhp4.RPCFreeSectorsThirdResponse) }, func(o rhp4.Object, s types.Signature) { o.(*rhp4.RPCFreeSectorsThirdResponse).HostSignature = s }),

		{name: "rhp4.RPCAppendSectorsRequest", limit: szObj + 32*batch, fresh: func() rhp4.Object { return new(rhp4.RPCAppendSectorsRequest) }, bounded: true,
			max: func(g G, k *keys) rhp4.Object {
				return &rhp4.RPCAppendSectorsRequest{Prices: k.prices(g), Sectors: g.fastHashes(batch), ContractID: types.FileContractID(g.hash()), ChallengeSignature: g.sig()}
			},
			rnd: func(g G, k *keys) rhp4.Object {
				return &rhp4.RPCAppendSectorsRequest{Prices: k.prices(g), Sectors: g.hashes(1 + rndCount(g, 5000)), ContractID: types.FileContractID(g.hash()), ChallengeSignature: g.sig()}
			},
			validate: func(o rhp4.Object, k *keys) error { return o.(*rhp4.RPCAppendSectorsRequest).Validate(k.hostPK) },
			over: func(g G, k *keys) rhp4.Object {
				return &rhp4.RPCAppendSectorsRequest{Prices: k.prices(g), Sectors: g.fastHashes(batch + 1), ContractID: types.FileContractID(g.hash()), ChallengeSignature: g.sig()}
			}},
		{name: "rhp4.RPCAppendSectorsResponse", resp: true, limit: 20 << 20, fresh: func() rhp4.Object { return new(rhp4.RPCAppendSectorsResponse) }, bounded: true,
			max: func(g G, k *keys) rhp4.Object {
				acc := make([]bool, batch)
				for i := range acc {
					acc[i] = true
				}
				// one subtree root per set bit of the sector count: at most 64
				return &rhp4.RPCAppendSectorsResponse{Accepted: acc, SubtreeRoots: g.hashes(64), NewMerkleRoot: g.hash()}
			},
			rnd: func(g G, k *keys) rhp4.Object {
				n := rndCount(g, 5000)
				var acc []bool
				for i := 0; i < n; i++ {
					acc = append(acc, g.n(2) == 0)
				}
				return &rhp4.RPCAppendSectorsResponse{Accepted: acc, SubtreeRoots: g.hashes(g.n(41)), NewMerkleRoot: g.hash()}
			}},
		sigObj("rhp4.RPCAppendSectorsSecondResponse", true, func() rhp4.Object { return new(rhp4.RPCAppendSectorsSecondResponse) }, func(o rhp4.Object, s types.Signature) { o.(*rhp4.RPCAppendSectorsSecondResponse).RenterSignature = s }),
		sigObj("rhp4.RPCAppendSectorsThirdResponse", true, func() rhp4.Object { return new(rhp4.RPCAppendSectorsThirdResponse) }, func(o rhp4.Object, s types.Signature) { o.(*rhp4.RPCAppendSectorsThirdResponse).HostSignature = s }),

		{name: "rhp4.RPCLatestRevisionRequest", limit: szHash, fresh: func() rhp4.Object { return new(rhp4.RPCLatestRevisionRequest) }, bounded: true,
			max: func(g G, k *keys) rhp4.Object {
				return &rhp4.RPCLatestRevisionRequest{ContractID: types.FileContractID(g.hash())}
			},
			rnd: func(g G, k *keys) rhp4.Object {
				return &rhp4.RPCLatestRevisionRequest{ContractID: types.FileContractID(g.hash())}
			}},
		{name: "rhp4.RPCLatestRevisionResponse", resp: true, limit: szContract, fresh: func() rhp4.Object { return new(rhp4.RPCLatestRevisionResponse) }, bounded: true,
			max: func(g G, k *keys) rhp4.Object {
				return &rhp4.RPCLatestRevisionResponse{Contract: g.v2contract(), Revisable: true, Renewed: true}
			},
			rnd: func(g G, k *keys) rhp4.Object {
				return &rhp4.RPCLatestRevisionResponse{Contract: g.v2contract(), Revisable: g.n(2) == 0, Renewed: g.n(2) == 0}
			}},

		{name: "rhp4.RPCReadSectorRequest", limit: szPrices + szToken + szHash + 16, fresh: func() rhp4.Object { return new(rhp4.RPCReadSectorRequest) }, bounded: true,
			max: func(g G, k *keys) rhp4.Object {
				return &rhp4.RPCReadSectorRequest{Prices: k.prices(g), Token: k.token(g), Root: g.hash(), Offset: 0, Length: rhp4.SectorSize}
			},
			rnd: func(g G, k *keys) rhp4.Object {
				off := uint64(g.n(rhp4.SectorSize/64)) * 64
				return &rhp4.RPCReadSectorRequest{Prices: k.prices(g), Token: k.token(g), Root: g.hash(), Offset: off, Length: 64 * uint64(1+g.n(int((rhp4.SectorSize-off)/64)))}
			},
			validate: func(o rhp4.Object, k *keys) error { return o.(*rhp4.RPCReadSectorRequest).Validate(k.hostPK) },
			over: func(g G, k *keys) rhp4.Object {
				return &rhp4.RPCReadSectorRequest{Prices: k.prices(g), Token: k.token(g), Root: g.hash(), Offset: 64, Length: rhp4.SectorSize}
			}},
		{name: "rhp4.RPCReadSectorResponse", resp: true, limit: szObj + 8 + rhp4.SectorSize, fresh: func() rhp4.Object { return new(rhp4.RPCReadSectorResponse) }, bounded: true,
			max: func(g G, k *keys) rhp4.Object {
				// a range proof inside a 2^16-leaf sector has at most 2*16 hashes
				return &rhp4.RPCReadSectorResponse{Proof: g.hashes(32), DataLength: rhp4.SectorSize}
			},
			rnd: func(g G, k *keys) rhp4.Object {
				return &rhp4.RPCReadSectorResponse{Proof: g.hashes(g.n(33)), DataLength: g.small()}
			}},
		{name: "rhp4.RPCWriteSectorRequest", limit: szPrices + szToken + 8, fresh: func() rhp4.Object { return new(rhp4.RPCWriteSectorRequest) }, bounded: true,
			max: func(g G, k *keys) rhp4.Object {
				return &rhp4.RPCWriteSectorRequest{Prices: k.prices(g), Token: k.token(g), DataLength: rhp4.SectorSize}
			},
			rnd: func(g G, k *keys) rhp4.Object {
				return &rhp4.RPCWriteSectorRequest{Prices: k.prices(g), Token: k.token(g), DataLength: 64 * uint64(1+g.n(rhp4.SectorSize/64))}
			},
			validate: func(o rhp4.Object, k *keys) error { return o.(*rhp4.RPCWriteSectorRequest).Validate(k.hostPK) },
			over: func(g G, k *keys) rhp4.Object {
				return &rhp4.RPCWriteSectorRequest{Prices: k.prices(g), Token: k.token(g), DataLength: rhp4.SectorSize + 64}
			}},
		{name: "rhp4.RPCWriteSectorResponse", resp: true, limit: szHash, fresh: func() rhp4.Object { return new(rhp4.RPCWriteSectorResponse) }, bounded: true,
			max: func(g G, k *keys) rhp4.Object { return &rhp4.RPCWriteSectorResponse{Root: g.hash()} },
			rnd: func(g G, k *keys) rhp4.Object { return &rhp4.RPCWriteSectorResponse{Root: g.hash()} }},

		{name: "rhp4.RPCSectorRootsRequest", limit: szPrices + szHash + szSig + 16, fresh: func() rhp4.Object { return new(rhp4.RPCSectorRootsRequest) }, bounded: true,
			max: func(g G, k *keys) rhp4.Object {
				return &rhp4.RPCSectorRootsRequest{Prices: k.prices(g), ContractID: types.FileContractID(g.hash()), RenterSignature: g.sig(), Offset: 1<<30 - batch, Length: batch}
			},
			rnd: func(g G, k *keys) rhp4.Object {
				off := uint64(g.n(1 << 30))
				return &rhp4.RPCSectorRootsRequest{Prices: k.prices(g), ContractID: types.FileContractID(g.hash()), RenterSignature: g.sig(), Offset: off, Length: 1 + uint64(g.n(int(min(batch, 1<<30-off))))}
			},
			validate: func(o rhp4.Object, k *keys) error {
				return o.(*rhp4.RPCSectorRootsRequest).Validate(k.hostPK, contractFC(1<<30))
			},
			over: func(g G, k *keys) rhp4.Object {
				return &rhp4.RPCSectorRootsRequest{Prices: k.prices(g), ContractID: types.FileContractID(g.hash()), RenterSignature: g.sig(), Offset: 0, Length: batch + 1}
			}},
		{name: "rhp4.RPCSectorRootsResponse", resp: true, limit: 20 << 20, fresh: func() rhp4.Object { return new(rhp4.RPCSectorRootsResponse) }, bounded: true,
			max: func(g G, k *keys) rhp4.Object {
				// a range proof in a tree of < 2^64 leaves has at most 2*64 hashes
				return &rhp4.RPCSectorRootsResponse{Proof: g.hashes(128), Roots: g.fastHashes(batch), HostSignature: g.sig()}
			},
			rnd: func(g G, k *keys) rhp4.Object {
				return &rhp4.RPCSectorRootsResponse{Proof: g.hashes(g.n(61)), Roots: g.hashes(1 + rndCount(g, 5000)), HostSignature: g.sig()}
			}},

		{name: "rhp4.RPCAccountBalanceRequest", limit: szAccount, fresh: func() rhp4.Object { return new(rhp4.RPCAccountBalanceRequest) }, bounded: true,
			max: func(g G, k *keys) rhp4.Object { return &rhp4.RPCAccountBalanceRequest{Account: g.account()} },
			rnd: func(g G, k *keys) rhp4.Object { return &rhp4.RPCAccountBalanceRequest{Account: g.account()} }},
		{name: "rhp4.RPCAccountBalanceResponse", resp: true, limit: szCur, fresh: func() rhp4.Object { return new(rhp4.RPCAccountBalanceResponse) }, bounded: true,
			max: func(g G, k *keys) rhp4.Object { return &rhp4.RPCAccountBalanceResponse{Balance: types.MaxCurrency} },
			rnd: func(g G, k *keys) rhp4.Object { return &rhp4.RPCAccountBalanceResponse{Balance: g.cur()} }},

		{name: "rhp4.RPCReplenishAccountsRequest", limit: 8 + szHash*acctBatch + szCur + szHash + szSig, fresh: func() rhp4.Object { return new(rhp4.RPCReplenishAccountsRequest) }, bounded: true,
			max: func(g G, k *keys) rhp4.Object {
				return &rhp4.RPCReplenishAccountsRequest{Accounts: g.accounts(acctBatch), Target: types.MaxCurrency, ContractID: types.FileContractID(g.hash()), ChallengeSignature: g.sig()}
			},
			rnd: func(g G, k *keys) rhp4.Object {
				return &rhp4.RPCReplenishAccountsRequest{Accounts: g.accounts(1 + g.n(acctBatch)), Target: g.nzcur(), ContractID: types.FileContractID(g.hash()), ChallengeSignature: g.sig()}
			},
			validate: func(o rhp4.Object, k *keys) error { return o.(*rhp4.RPCReplenishAccountsRequest).Validate() },
			over: func(g G, k *keys) rhp4.Object {
				return &rhp4.RPCReplenishAccountsRequest{Accounts: g.accounts(acctBatch + 1), Target: types.MaxCurrency, ContractID: types.FileContractID(g.hash()), ChallengeSignature: g.sig()}
			}},
		{name: "rhp4.RPCReplenishAccountsResponse", resp: true, limit: 8 + szDeposit*acctBatch, fresh: func() rhp4.Object { return new(rhp4.RPCReplenishAccountsResponse) }, bounded: true,
			max: func(g G, k *keys) rhp4.Object {
				return &rhp4.RPCReplenishAccountsResponse{Deposits: g.deposits(acctBatch)}
			},
			rnd: func(g G, k *keys) rhp4.Object {
				return &rhp4.RPCReplenishAccountsResponse{Deposits: g.deposits(g.n(acctBatch + 1))}
			}},
		sigObj("rhp4.RPCReplenishAccountsSecondResponse", true, func() rhp4.Object { return new(rhp4.RPCReplenishAccountsSecondResponse) }, func(o rhp4.Object, s types.Signature) {
			o.(*rhp4.RPCReplenishAccountsSecondResponse).RenterSignature = s
		}),
		sigObj("rhp4.RPCReplenishAccountsThirdResponse", true, func() rhp4.Object { return new(rhp4.RPCReplenishAccountsThirdResponse) }, func(o rhp4.Object, s types.Signature) {
			o.(*rhp4.RPCReplenishAccountsThirdResponse).HostSignature = s
		}),

		{name: "rhp4.RPCFundAccountsRequest", limit: szHash + 8 + szDeposit*acctBatch + szSig, fresh: func() rhp4.Object { return new(rhp4.RPCFundAccountsRequest) }, bounded: true,
			max: func(g G, k *keys) rhp4.Object {
				return &rhp4.RPCFundAccountsRequest{ContractID: types.FileContractID(g.hash()), Deposits: g.deposits(acctBatch), RenterSignature: g.sig()}
			},
			rnd: func(g G, k *keys) rhp4.Object {
				return &rhp4.RPCFundAccountsRequest{ContractID: types.FileContractID(g.hash()), Deposits: g.deposits(1 + g.n(acctBatch)), RenterSignature: g.sig()}
			},
			validate: func(o rhp4.Object, k *keys) error { return o.(*rhp4.RPCFundAccountsRequest).Validate() },
			over: func(g G, k *keys) rhp4.Object {
				return &rhp4.RPCFundAccountsRequest{ContractID: types.FileContractID(g.hash()), Deposits: g.deposits(acctBatch + 1), RenterSignature: g.sig()}
			}},
		{name: "rhp4.RPCFundAccountsResponse", resp: true, limit: 8 + szCur*acctBatch + szSig, fresh: func() rhp4.Object { return new(rhp4.RPCFundAccountsResponse) }, bounded: true,
			max: func(g G, k *keys) rhp4.Object {
				return &rhp4.RPCFundAccountsResponse{Balances: g.curs(acctBatch), HostSignature: g.sig()}
			},
			rnd: func(g G, k *keys) rhp4.Object {
				return &rhp4.RPCFundAccountsResponse{Balances: g.curs(g.n(acctBatch + 1)), HostSignature: g.sig()}
			}},

		{name: "rhp4.RPCAttachPoolsRequest", limit: 8 + szPoolTok*acctBatch, fresh: func() rhp4.Object { return new(rhp4.RPCAttachPoolsRequest) }, bounded: true,
			max: func(g G, k *keys) rhp4.Object {
				return &rhp4.RPCAttachPoolsRequest{Attachments: attachments(g, acctBatch)}
			},
			rnd: func(g G, k *keys) rhp4.Object {
				return &rhp4.RPCAttachPoolsRequest{Attachments: attachments(g, 1+g.n(acctBatch))}
			},
			validate: func(o rhp4.Object, k *keys) error { return o.(*rhp4.RPCAttachPoolsRequest).Validate() },
			over: func(g G, k *keys) rhp4.Object {
				return &rhp4.RPCAttachPoolsRequest{Attachments: attachments(g, acctBatch+1)}
			}},
		{name: "rhp4.RPCAttachPoolsResponse", resp: true, limit: 0, fresh: func() rhp4.Object { return new(rhp4.RPCAttachPoolsResponse) }, bounded: true,
			max: func(g G, k *keys) rhp4.Object { return new(rhp4.RPCAttachPoolsResponse) }, rnd: func(g G, k *keys) rhp4.Object { return new(rhp4.RPCAttachPoolsResponse) }},
		{name: "rhp4.RPCDetachPoolsRequest", limit: 8 + szPoolTok*acctBatch, fresh: func() rhp4.Object { return new(rhp4.RPCDetachPoolsRequest) }, bounded: true,
			max: func(g G, k *keys) rhp4.Object {
				return &rhp4.RPCDetachPoolsRequest{Detachments: detachments(g, acctBatch)}
			},
			rnd: func(g G, k *keys) rhp4.Object {
				return &rhp4.RPCDetachPoolsRequest{Detachments: detachments(g, 1+g.n(acctBatch))}
			},
			validate: func(o rhp4.Object, k *keys) error { return o.(*rhp4.RPCDetachPoolsRequest).Validate() },
			over: func(g G, k *keys) rhp4.Object {
				return &rhp4.RPCDetachPoolsRequest{Detachments: detachments(g, acctBatch+1)}
			}},
		{name: "rhp4.RPCDetachPoolsResponse", resp: true, limit: 0, fresh: func() rhp4.Object { return new(rhp4.RPCDetachPoolsResponse) }, bounded: true,
			max: func(g G, k *keys) rhp4.Object { return new(rhp4.RPCDetachPoolsResponse) }, rnd: func(g G, k *keys) rhp4.Object { return new(rhp4.RPCDetachPoolsResponse) }},

		{name: "rhp4.RPCVerifySectorRequest", limit: szPrices + szToken + szHash + 8, fresh: func() rhp4.Object { return new(rhp4.RPCVerifySectorRequest) }, bounded: true,
			max: func(g G, k *keys) rhp4.Object {
				return &rhp4.RPCVerifySectorRequest{Prices: k.prices(g), Token: k.token(g), Root: g.hash(), LeafIndex: rhp4.LeavesPerSector - 1}
			},
			rnd: func(g G, k *keys) rhp4.Object {
				return &rhp4.RPCVerifySectorRequest{Prices: k.prices(g), Token: k.token(g), Root: g.hash(), LeafIndex: uint64(g.n(rhp4.LeavesPerSector))}
			},
			validate: func(o rhp4.Object, k *keys) error { return o.(*rhp4.RPCVerifySectorRequest).Validate(k.hostPK) },
			over: func(g G, k *keys) rhp4.Object {
				return &rhp4.RPCVerifySectorRequest{Prices: k.prices(g), Token: k.token(g), Root: g.hash(), LeafIndex: rhp4.LeavesPerSector}
			}},
		{name: "rhp4.RPCVerifySectorResponse", resp: true, limit: szObj, fresh: func() rhp4.Object { return new(rhp4.RPCVerifySectorResponse) }, bounded: true,
			max: func(g G, k *keys) rhp4.Object {
				r := &rhp4.RPCVerifySectorResponse{Proof: g.hashes(16)}
				g.fill(r.Leaf[:])
				return r
			},
			rnd: func(g G, k *keys) rhp4.Object {
				r := &rhp4.RPCVerifySectorResponse{Proof: g.hashes(g.n(17))}
				g.fill(r.Leaf[:])
				return r
			}},
	}
	return specs
}

func attachments(g G, n int) []rhp4.PoolAttachment {
	var out []rhp4.PoolAttachment
	for i := 0; i < n; i++ {
		a := rhp4.PoolAttachment{Account: g.account(), Pool: g.account(), ValidUntil: farFuture, Signature: g.sig()}
		a.Pool[1] = ^a.Account[1]
		a.Signature[0] |= 1
		out = append(out, a)
	}
	return out
}

func detachments(g G, n int) []rhp4.PoolDetachment {
	var out []rhp4.PoolDetachment
	for i := 0; i < n; i++ {
		a := rhp4.PoolDetachment{Account: g.account(), Pool: g.account(), ValidUntil: farFuture, Signature: g.sig()}
		a.Pool[1] = ^a.Account[1]
		a.Signature[0] |= 1
		out = append(out, a)
	}
	return out
}

// rhp4SourceTypes parses rhp/v4/encoding.go of the tree the binary was built
// from (located through the compile-time file name of a function in that
// package) and returns the receiver type names of every maxLen method.
func rhp4SourceTypes() ([]string, string, error) {
	pc := reflect.ValueOf(rhp4.ReadID).Pointer()
	file, _ := runtime.FuncForPC(pc).FileLine(pc)
	dir := filepath.Dir(file)
	fset := token.NewFileSet()
	f, err := parser.ParseFile(fset, filepath.Join(dir, "encoding.go"), nil, 0)
	if err != nil {
		return nil, dir, err
	}
	var out []string
	for _, d := range f.Decls {
		fd, ok := d.(*ast.FuncDecl)
		if !ok || fd.Recv == nil || fd.Name.Name != "maxLen" || len(fd.Recv.List) != 1 {
			continue
		}
		t := fd.Recv.List[0].Type
		if st, ok := t.(*ast.StarExpr); ok {
			t = st.X
		}
		if id, ok := t.(*ast.Ident); ok {
			out = append(out, "rhp4."+id.Name)
		}
	}
	sort.Strings(out)
	return out, dir, nil
}

func shortName(n string) string { return strings.TrimPrefix(n, "rhp4.") }
