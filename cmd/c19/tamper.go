package main

// Tamper monitor and handshake mismatches (batch 5).

import (
	"bytes"
	"errors"
	"fmt"
	"io"
	"net"
	"sync"
	"time"

	"go.sia.tech/core/gateway"
	rhp2 "go.sia.tech/core/rhp/v2"
	rhp3 "go.sia.tech/core/rhp/v3"
	"go.sia.tech/core/types"
	"golang.org/x/crypto/blake2b"
	"golang.org/x/crypto/curve25519"
	"verif/internal/harness"
	"verif/internal/memconn"
)

// RHP2 frame layout (whole frame = 8-byte length prefix + nonce + ciphertext + tag)
const (
	r2Prefix = 8
	r2Nonce  = 12
	r2Tag    = 16
)

func r2OffsetClass(k, frameLen, plainLen int) string {
	switch {
	case k < r2Prefix:
		return "length-prefix"
	case k < r2Prefix+r2Nonce:
		return "nonce"
	case k >= frameLen-r2Tag:
		return "tag"
	case k >= r2Prefix+r2Nonce+plainLen:
		return "padding"
	}
	return "ciphertext"
}

type r2TamperCase struct {
	truncate  bool
	k         int  // offset inside the frame
	mask      byte // flip mask
	raw       bool // renter uses RawResponse/VerifyTag
	toHost    bool // tamper a renter->host frame (host is the reader)
	dataLen   int  // payload size of the tampered message
	fragChunk int
}

// runR2Tamper runs one tamper case; it returns the offset class.
func runR2Tamper(b *harness.B, g G, sk types.PrivateKey, c r2TamperCase) {
	b.Eval(1)
	tm := &memconn.Tamper{}
	opt := memconn.Options{Hook: tm.Hook(), BufSize: 1 << 20, MaxChunk: c.fragChunk, Seed1: g.u64(), Seed2: g.u64()}
	rt, ht, rc, hc, err := rhp2Pair(opt, sk, nil, nil)
	if err != nil {
		b.Inconclusive("rhp2 handshake failed in tamper case: " + err.Error())
		return
	}
	defer rt.ForceClose()
	defer ht.ForceClose()
	// positive control on this very session: an untampered exchange works
	ctl := &rhp2.RPCReadResponse{Signature: g.sig(), Data: g.bytes(g.n(300))}
	cerr := make(chan error, 1)
	go func() {
		if _, err := ht.ReadID(); err != nil {
			cerr <- err
			return
		}
		cerr <- ht.WriteResponse(ctl)
	}()
	if err := rt.WriteRequest(rhp2.RPCReadID, nil); err != nil {
		b.Inconclusive("rhp2 control write failed: " + err.Error())
		return
	}
	var got *rhp2.RPCReadResponse
	if c.raw {
		got, err = rawRead(rt, 8192)
	} else {
		got = new(rhp2.RPCReadResponse)
		err = rt.ReadResponse(got, 8192)
	}
	if e2 := <-cerr; err != nil || e2 != nil || equalObj(ctl, got) != "" {
		b.Violate("C19/tamper/rhp2/control-failed", fmt.Sprintf("untampered control exchange failed: %v %v %s", err, e2, equalObj(ctl, got)), nil)
		return
	}
	b.Count("tamper_controls_untampered_ok", 1)

	// the frame to be tampered
	obj := &rhp2.RPCReadResponse{Signature: g.sig(), Data: g.bytes(c.dataLen)}
	plain := 1 + 8 + 64 + 8 + c.dataLen + 8 // flag + signature + data + empty proof
	reqObj := &rhp2.RPCSettingsResponse{Settings: g.bytes(c.dataLen)}
	if c.toHost {
		plain = 1 + 8 + c.dataLen
	}
	frameLen := r2Prefix + r2Nonce + plain + r2Tag
	if frameLen < 4096 {
		frameLen = 4096
	}
	k := c.k
	if k < 0 {
		k += frameLen // negative: counted from the end
	}
	if k >= frameLen {
		k = frameLen - 1
	}
	class := r2OffsetClass(k, frameLen, plain)
	kind := "flip"
	if c.truncate {
		kind = "truncate"
	}
	path := "ReadResponse"
	if c.raw {
		path = "RawResponse"
	}
	if c.toHost {
		path = "ReadRequest"
	}
	b.Distinct("tamper", "rhp2", kind, class, path, sizeClass(c.dataLen), c.fragChunk != 0)
	wit := map[string]any{"transport": "rhp2", "kind": kind, "frame_offset": k, "offset_class": class, "mask": c.mask, "frame_len": frameLen, "reader": path, "data_len": c.dataLen}

	var reader, writer *rhp2.Transport
	var wconn *memconn.Conn
	dir := memconn.BtoA // host -> renter
	reader, writer, wconn = rt, ht, hc
	if c.toHost {
		dir = memconn.AtoB
		reader, writer, wconn = ht, rt, rc
	}
	base := wconn.Sent()
	if c.truncate {
		tm.ArmTruncate(dir, base+int64(k))
	} else {
		tm.ArmFlip(dir, base+int64(k), c.mask)
	}
	// writer: the tampered message, two more, then the harness hangs up
	wdone := make(chan struct{})
	go func() {
		defer close(wdone)
		if c.toHost {
			// write the frame as a bare request object (the id frame is the one tampered when k is small)
			writer.WriteResponse(reqObj)
			writer.WriteResponse(reqObj)
			writer.WriteResponse(reqObj)
		} else {
			writer.WriteResponse(obj)
			writer.WriteResponse(obj)
			writer.WriteResponse(obj)
		}
		wconn.Close()
	}()
	read := func() error {
		switch {
		case c.toHost:
			// the renter wrote rpcResponse frames; read them as such on the host
			return reader.ReadResponse(new(rhp2.RPCSettingsResponse), uint64(c.dataLen)+8192)
		case c.raw:
			_, err := rawRead(reader, uint64(c.dataLen)+8192)
			return err
		}
		return reader.ReadResponse(new(rhp2.RPCReadResponse), uint64(c.dataLen)+8192)
	}
	err1 := read()
	closedAfter1, pce := reader.IsClosed(), reader.PrematureCloseErr()
	err2 := read()
	err3 := read()
	<-wdone
	if tm.Hits() == 0 {
		b.Inconclusive("tamper offset was never transmitted (rhp2)")
		return
	}
	if isTimeout(err1) || isTimeout(err2) {
		b.Inconclusive("watchdog fired in rhp2 tamper case")
		return
	}
	wit["err1"], wit["err2"], wit["is_closed_after_first_read"] = fmt.Sprint(err1), fmt.Sprint(err2), closedAfter1
	if err1 == nil {
		b.Violate("C19/tamper/rhp2/"+kind+"-accepted/"+class+"/"+path, fmt.Sprintf("a frame with a %s at offset %d (%s) was accepted", kind, k, class), wit)
		return
	}
	if err2 == nil || err3 == nil {
		b.Violate("C19/tamper/rhp2/later-read-succeeds/"+class+"/"+path, fmt.Sprintf("after a %s at offset %d (%s) a later read on the session succeeded", kind, k, class), wit)
		return
	}
	// every modified byte of a frame, the (unauthenticated) length prefix included, must close the session: the
	// statement makes no exception, and a session left open re-reads the following bytes as a fresh length
	authenticated := !c.truncate
	if authenticated {
		if !closedAfter1 || pce == nil {
			b.Violate("C19/tamper/rhp2/session-not-closed/"+class+"/"+path, fmt.Sprintf("modified %s byte detected (%v) but IsClosed=%v PrematureCloseErr=%v", class, err1, closedAfter1, pce), wit)
			return
		}
		// a closed session accepts nothing more in the other direction either
		if werr := reader.WriteResponse(obj); werr == nil {
			b.Violate("C19/tamper/rhp2/write-after-close/"+class, "a write on the closed session succeeded", wit)
			return
		}
	} else if k > 0 {
		// a frame cut short after its first byte: the rest of the stream cannot be a frame boundary any more
		if !closedAfter1 || pce == nil {
			b.Violate("C19/tamper/rhp2/session-not-closed-after-truncation/"+class+"/"+path, fmt.Sprintf("a frame truncated at offset %d (%s) is detected (%v) but the session is not closed: IsClosed=%v PrematureCloseErr=%v", k, class, err1, closedAfter1, pce), wit)
			return
		}
		b.Count("rhp2_truncated_frames_closing_the_session", 1)
	} else {
		// cut at the frame boundary: the peer hung up between two messages
		if closedAfter1 {
			b.Count("rhp2_hangup_between_frames_session_marked_closed", 1)
		} else {
			b.Count("rhp2_hangup_between_frames_session_not_marked_closed", 1)
		}
	}
	b.Count("tamper_cases_detected", 1)
	b.Count("tamper_detected/rhp2/"+kind+"/"+class, 1)
}

func runTamper(b *harness.B) {
	g := G{r: b.SubRng("tamper")}
	sk := types.NewPrivateKeyFromSeed(g.bytes(32))

	// RHP2: offsets of one frame; exhaustive over the small regions, sampled in the bulk
	var ks []int
	for k := 0; k < r2Prefix+r2Nonce+72; k++ {
		ks = append(ks, k)
	}
	for k := 1; k <= r2Tag+48; k++ {
		ks = append(ks, -k)
	}
	step := b.Pick(64, 1)
	for k := 100; k < 4096-64; k += step {
		ks = append(ks, k)
	}
	for i, k := range ks {
		mask := byte(1) << uint(g.n(8))
		if i%5 == 0 {
			mask = byte(1 + g.n(255))
		}
		c := r2TamperCase{k: k, mask: mask, dataLen: 200 + g.n(200), raw: i%3 == 1, toHost: i%7 == 3}
		if i%11 == 0 {
			c.fragChunk = 1 + g.n(50)
		}
		runR2Tamper(b, g, sk, c)
	}
	// every bit of every length-prefix byte
	for k := 0; k < r2Prefix; k++ {
		for bit := 0; bit < 8; bit++ {
			runR2Tamper(b, g, sk, r2TamperCase{k: k, mask: 1 << bit, dataLen: 100, raw: bit%2 == 0})
		}
	}
	// unpadded frames of other sizes (tag / ciphertext boundaries, SectorSize once)
	sizes := []int{3964, 3965, 4000, 5000, 70000}
	if !b.Quick() {
		sizes = append(sizes, rhp2.SectorSize)
	}
	for _, dl := range sizes {
		for _, k := range []int{0, 7, 8, 19, 20, 21, 100, 4000, -1, -16, -17, -18, 4095, 4096, 4097} {
			for _, raw := range []bool{false, true} {
				runR2Tamper(b, g, sk, r2TamperCase{k: k, mask: byte(1 + g.n(255)), dataLen: dl, raw: raw})
			}
		}
	}
	// truncation at every offset class
	for _, k := range []int{0, 1, 7, 8, 9, 19, 20, 21, 100, 2000, -17, -16, -15, -1} {
		for _, raw := range []bool{false, true} {
			runR2Tamper(b, g, sk, r2TamperCase{truncate: true, k: k, dataLen: 300, raw: raw})
			runR2Tamper(b, g, sk, r2TamperCase{truncate: true, k: k, dataLen: 6000, raw: raw})
		}
	}

	// mux-based transports
	nMux := b.Pick(30, 300)
	for i := 0; i < nMux; i++ {
		runMuxTamper(b, g, "gateway", i)
		runMuxTamper(b, g, "rhp3", i)
	}
}

// quiesce waits until neither end has sent anything for a few polls (a driver
// heuristic to decide when to hang up; never an oracle).
func quiesce(a, c *memconn.Conn, done <-chan struct{}) {
	last := [2]int64{-1, -1}
	still := 0
	for still < 25 {
		select {
		case <-done:
			return
		default:
		}
		cur := [2]int64{a.Sent(), c.Sent()}
		if cur == last {
			still++
		} else {
			still, last = 0, cur
		}
		time.Sleep(2 * time.Millisecond)
	}
}

// prefixCheck: under tampering only "nothing different is delivered" is
// demanded of mux-based transports.
func (t *trace) prefixCheck(b *harness.B, transport string, wit map[string]any) (delivered int, ok bool) {
	t.mu.Lock()
	defer t.mu.Unlock()
	ok = true
	for k, r := range t.read {
		w := t.written[k]
		for i := range r {
			b.Eval(1)
			if i >= len(w) {
				wit["stream"], wit["index"] = k, i
				b.Violate("C19/tamper/"+transport+"/object-never-written-delivered", fmt.Sprintf("stream %s delivered %d objects, only %d were written", k, len(r), len(w)), wit)
				return delivered, false
			}
			if d := equalObj(w[i], r[i]); d != "" {
				wit["stream"], wit["index"], wit["difference"], wit["type"] = k, i, d, typeName(w[i])
				b.Violate("C19/tamper/"+transport+"/different-object-delivered/"+typeName(w[i]), fmt.Sprintf("under tampering stream %s delivered a different object at index %d: %s", k, i, d), wit)
				return delivered, false
			}
			delivered++
		}
	}
	return delivered, ok
}

func runMuxTamper(b *harness.B, g G, transport string, i int) {
	b.Eval(1)
	tm := &memconn.Tamper{}
	opt := memconn.Options{Hook: tm.Hook(), Seed1: g.u64(), Seed2: g.u64()}
	if i%4 == 1 {
		opt.MaxChunk = 1 + g.n(200)
	}
	ca, cb := memconn.Pipe(opt)
	dl := time.Now().Add(watchdog)
	ca.SetDeadline(dl)
	cb.SetDeadline(dl)
	defer ca.Close()
	defer cb.Close()
	truncate := i%3 == 2
	dir := g.n(2)
	// offset inside the next few mux packets (4320 bytes each by default)
	k := int64(g.n(3 * 4320))
	switch i % 6 {
	case 0:
		k = int64(g.n(16)) // first bytes of the next packet
	case 1:
		k = 4320 - 1 - int64(g.n(16)) // tag of the next packet
	}
	kind := "flip"
	if truncate {
		kind = "truncate"
	}
	wit := map[string]any{"transport": transport, "kind": kind, "direction": dir, "offset_after_handshake": k}
	tr := newTrace()
	var closeAll func()
	var wg sync.WaitGroup
	arm := func() {
		src := ca
		if dir == memconn.BtoA {
			src = cb
		}
		if truncate {
			tm.ArmTruncate(dir, src.Sent()+k)
		} else {
			tm.ArmFlip(dir, src.Sent()+k, byte(1+g.n(255)))
		}
	}
	seed := g.u64()
	switch transport {
	case "gateway":
		genesis := types.BlockID(g.hash())
		hd := gateway.Header{GenesisID: genesis, UniqueID: gateway.UniqueID{1}, NetAddress: "10.19.0.1:9981"}
		ha := gateway.Header{GenesisID: genesis, UniqueID: gateway.UniqueID{2}, NetAddress: "10.19.0.2:9981"}
		sess, derr, aerr := gwConnect(ca, cb, hd, ha)
		if derr != nil || aerr != nil {
			b.Inconclusive(fmt.Sprintf("gateway handshake failed in tamper case: %v %v", derr, aerr))
			return
		}
		closeAll = func() { sess.d.Close(); sess.a.Close() }
		// control exchange, then arm
		if !gwPing(sess, tr, g, 9999) {
			b.Violate("C19/tamper/gateway/control-failed", "untampered control exchange failed", map[string]any{"errors": tr.fails})
			closeAll()
			return
		}
		b.Count("tamper_controls_untampered_ok", 1)
		arm()
		nStreams := 3
		wg.Add(1)
		go func() {
			defer wg.Done()
			var swg sync.WaitGroup
			for {
				s, err := sess.a.AcceptStream()
				if err != nil {
					break
				}
				swg.Add(1)
				go func() { defer swg.Done(); defer s.Close(); gwServe(s, tr, seed) }()
			}
			swg.Wait()
		}()
		for s := 0; s < nStreams; s++ {
			wg.Add(1)
			go func(s int) {
				defer wg.Done()
				st, err := sess.d.DialStream()
				if err != nil {
					return
				}
				defer st.Close()
				gwClient(st, tr, subG(seed, uint64(s)), s, 6)
			}(s)
		}
	case "rhp3":
		sk := types.NewPrivateKeyFromSeed(g.bytes(32))
		rt, ht, rerr, herr := r3Connect(ca, cb, sk, sk.PublicKey())
		if rerr != nil || herr != nil {
			b.Inconclusive(fmt.Sprintf("rhp3 handshake failed in tamper case: %v %v", rerr, herr))
			return
		}
		closeAll = func() { rt.Close(); ht.Close() }
		kinds := r3kinds()
		// control
		{
			s := rt.DialStream()
			want := &rhp3.RPCAccountBalanceResponse{Balance: g.cur()}
			go func() {
				hs, err := ht.AcceptStream()
				if err != nil {
					return
				}
				defer hs.Close()
				var got rhp3.RPCAccountBalanceResponse
				if hs.ReadResponse(&got, 4096) == nil {
					hs.WriteResponse(&got)
				}
			}()
			var echo rhp3.RPCAccountBalanceResponse
			if err := s.WriteResponse(want); err != nil || s.ReadResponse(&echo, 4096) != nil || equalObj(want, &echo) != "" {
				b.Violate("C19/tamper/rhp3/control-failed", "untampered control exchange failed", nil)
				s.Close()
				closeAll()
				return
			}
			s.Close()
			b.Count("tamper_controls_untampered_ok", 1)
		}
		arm()
		nStreams := 3
		wg.Add(1)
		go func() {
			defer wg.Done()
			var swg sync.WaitGroup
			for {
				hs, err := ht.AcceptStream()
				if err != nil {
					break
				}
				swg.Add(1)
				go func() {
					defer swg.Done()
					defer hs.Close()
					// echo server: reads objects of the scheduled kinds, logs them
					var tag rhp3.RPCLatestRevisionRequest
					if hs.ReadResponse(&tag, 4096) != nil {
						return
					}
					idx := int(tag.ContractID[0])
					label := fmt.Sprint("s", idx)
					tr.r(label, &tag)
					sg := subG(seed, uint64(idx)+50)
					for j := 0; j < 8; j++ {
						o := kinds[sg.n(len(kinds))].fresh()
						if hs.ReadResponse(o, 1<<20) != nil {
							return
						}
						tr.r(label, o)
						ack := &rhp3.PaymentResponse{Signature: types.Signature{byte(j), byte(idx)}}
						tr.w(label+"/ack", ack)
						if hs.WriteResponse(ack) != nil {
							return
						}
					}
				}()
			}
			swg.Wait()
		}()
		for s := 0; s < nStreams; s++ {
			wg.Add(1)
			go func(s int) {
				defer wg.Done()
				st := rt.DialStream()
				defer st.Close()
				label := fmt.Sprint("s", s)
				cg := subG(seed^3, uint64(s))
				tag := &rhp3.RPCLatestRevisionRequest{ContractID: types.FileContractID(cg.hash())}
				tag.ContractID[0] = byte(s)
				tr.w(label, tag)
				if st.WriteResponse(tag) != nil {
					return
				}
				sg := subG(seed, uint64(s)+50)
				for j := 0; j < 8; j++ {
					o := kinds[sg.n(len(kinds))].gen(cg, 3000)
					if ep, ok := o.(*rhp3.RPCExecuteProgramResponse); ok {
						ep.Error = nil
					}
					tr.w(label, o)
					if st.WriteResponse(o) != nil {
						return
					}
					var ack rhp3.PaymentResponse
					if st.ReadResponse(&ack, 4096) != nil {
						return
					}
					tr.r(label+"/ack", &ack)
				}
			}(s)
		}
	}
	done := make(chan struct{})
	go func() { wg.Wait(); close(done) }()
	// hang up once the traffic has stopped (needed for truncation; harmless otherwise)
	go func() {
		quiesce(ca, cb, done)
		closeAll()
	}()
	select {
	case <-done:
	case <-time.After(watchdog):
		closeAll()
		ca.Close()
		cb.Close()
		<-done
		b.Inconclusive("watchdog fired in " + transport + " tamper case")
		return
	}
	closeAll()
	if tm.Hits() == 0 {
		b.Count("mux_tamper_offset_not_reached", 1)
		return
	}
	b.Distinct("tamper", transport, kind, dir, k < 16, k%4320 >= 4320-16, opt.MaxChunk != 0)
	delivered, ok := tr.prefixCheck(b, transport, wit)
	if !ok {
		return
	}
	b.Count("tamper_cases_detected", 1) // nothing different was delivered
	b.Count("tamper_detected/"+transport+"/"+kind, 1)
	b.MaxOf("mux_tamper_objects_delivered_intact_max", int64(delivered))
	total := 0
	tr.mu.Lock()
	for _, w := range tr.written {
		total += len(w)
	}
	allRead := 0
	for _, r := range tr.read {
		allRead += len(r)
	}
	tr.mu.Unlock()
	if allRead == total && total >= 3*9 {
		b.Count("mux_tamper_session_completed_despite_tamper(observation; dependency)", 1)
	}
}

// gwPing performs one complete RPC on a fresh stream; it reports success.
func gwPing(sess *gwSession, tr *trace, g G, tag int) bool {
	okc := make(chan bool, 1)
	go func() {
		s, err := sess.a.AcceptStream()
		if err != nil {
			okc <- false
			return
		}
		defer s.Close()
		id, err := s.ReadID()
		if err != nil {
			okc <- false
			return
		}
		o := gateway.ObjectForID(id)
		if o == nil || s.ReadRequest(o) != nil {
			okc <- false
			return
		}
		r := o.(*gateway.RPCSendHeaders)
		r.Headers, r.Remaining = []types.BlockHeader{{Nonce: r.Max}}, 5
		okc <- s.WriteResponse(r) == nil
	}()
	s, err := sess.d.DialStream()
	if err != nil {
		return false
	}
	defer s.Close()
	req := &gateway.RPCSendHeaders{Index: g.chainIndex(), Max: uint64(1 + g.n(100))}
	if s.WriteID(req) != nil || s.WriteRequest(req) != nil {
		return false
	}
	if err := s.ReadResponse(req); err != nil {
		return false
	}
	return <-okc && len(req.Headers) == 1 && req.Headers[0].Nonce == req.Max && req.Remaining == 5
}

func gwServe(s *gateway.Stream, tr *trace, seed uint64) {
	label := ""
	for j := 0; ; j++ {
		id, err := s.ReadID()
		if err != nil {
			return
		}
		o := gateway.ObjectForID(id)
		if o == nil {
			tr.r(label+"/req", &id) // an id that was never written: prefixCheck flags it
			return
		}
		if s.ReadRequest(o) != nil {
			return
		}
		if j == 0 {
			if h, ok := o.(*gateway.RPCRelayV2Header); ok {
				label = fmt.Sprint("s", h.Header.Nonce)
			} else {
				label = "unlabelled"
			}
		}
		tr.r(label+"/req", o)
		resp := gwCloneReq(o)
		gwFillResp(subG(seed^uint64(j), uint64(len(label))), resp)
		if gateway.VerifMaxResponseLen(resp) == 0 {
			continue
		}
		tr.w(label+"/resp", resp)
		if s.WriteResponse(resp) != nil {
			return
		}
	}
}

func gwClient(s *gateway.Stream, tr *trace, sg G, idx, n int) {
	label := fmt.Sprint("s", idx)
	for j := 0; j <= n; j++ {
		var req gateway.Object
		if j == 0 {
			h := sg.header()
			h.Nonce = uint64(idx)
			req = &gateway.RPCRelayV2Header{Header: h}
		} else {
			req = gwMakeReq(sg, sg.n(gwKinds), true)
		}
		tr.w(label+"/req", req)
		if s.WriteID(req) != nil || s.WriteRequest(req) != nil {
			return
		}
		recv := gwCloneReq(req)
		if gateway.VerifMaxResponseLen(recv) == 0 {
			continue
		}
		if s.ReadResponse(recv) != nil {
			return
		}
		tr.r(label+"/resp", recv)
	}
}

// ---- handshake mismatches ----

func runHandshakeMismatch(b *harness.B) {
	g := G{r: b.SubRng("handshake")}
	n := b.Pick(6, 40)
	for i := 0; i < n; i++ {
		for _, fc := range []memconn.Options{{}, {MaxChunk: 1}, {MaxChunk: 13}} {
			fc.Seed1, fc.Seed2 = g.u64(), g.u64()
			gwMismatch(b, g, fc, "different-genesis")
			gwMismatch(b, g, fc, "same-unique-id")
			gwMismatch(b, g, fc, "both")
			gwMismatch(b, g, fc, "control")
			r2Mismatch(b, g, fc, "wrong-host-key")
			r2Mismatch(b, g, fc, "no-common-cipher-at-host")
			r2Mismatch(b, g, fc, "host-answers-no-overlap")
			r2Mismatch(b, g, fc, "host-selects-unknown-cipher")
			r2Mismatch(b, g, fc, "control")
			r3Mismatch(b, g, fc, true)
			r3Mismatch(b, g, fc, false)
		}
	}
}

func gwMismatch(b *harness.B, g G, opt memconn.Options, kind string) {
	b.Eval(1)
	dc, ac := memconn.Pipe(opt)
	dl := time.Now().Add(watchdog)
	dc.SetDeadline(dl)
	ac.SetDeadline(dl)
	defer dc.Close()
	defer ac.Close()
	hd := gateway.Header{GenesisID: types.BlockID(g.hash()), NetAddress: "10.19.0.1:9981"}
	ha := gateway.Header{GenesisID: hd.GenesisID, NetAddress: "10.19.0.2:9981"}
	g.fill(hd.UniqueID[:])
	g.fill(ha.UniqueID[:])
	ha.UniqueID[0] = ^hd.UniqueID[0]
	switch kind {
	case "different-genesis":
		ha.GenesisID[g.n(32)] ^= byte(1 + g.n(255))
	case "same-unique-id":
		ha.UniqueID = hd.UniqueID
	case "both":
		ha.GenesisID[g.n(32)] ^= 1
		ha.UniqueID = hd.UniqueID
	}
	sess, derr, aerr := gwConnect(dc, ac, hd, ha)
	b.Distinct("handshake", "gateway", kind, opt.MaxChunk)
	if isTimeout(derr) || isTimeout(aerr) {
		b.Inconclusive("watchdog fired in gateway handshake mismatch case")
		return
	}
	wit := map[string]any{"protocol": "gateway", "mismatch": kind, "dial_error": fmt.Sprint(derr), "accept_error": fmt.Sprint(aerr)}
	if kind == "control" {
		if derr != nil || aerr != nil {
			b.Violate("C19/handshake/gateway/control-failed", "matching headers were refused", wit)
			return
		}
		sess.d.Close()
		sess.a.Close()
		b.Count("handshake_controls_ok", 1)
		return
	}
	if derr == nil || aerr == nil {
		if sess.d != nil && derr == nil {
			sess.d.Close()
		}
		if sess.a != nil && aerr == nil {
			sess.a.Close()
		}
		side := "dialer"
		if aerr == nil {
			side = "acceptor"
		}
		b.Violate("C19/handshake/gateway/"+kind+"/"+side+"-gets-transport", fmt.Sprintf("header mismatch (%s) but the %s ended without an error", kind, side), wit)
		return
	}
	b.Count("handshake_mismatch_cases", 1)
}

func x25519Pair(g G) (sk []byte, pk [32]byte) {
	sk = g.bytes(32)
	p, _ := curve25519.X25519(sk, curve25519.Basepoint)
	copy(pk[:], p)
	return
}

var (
	specLoopEnter = types.NewSpecifier("LoopEnter")
	specChaCha    = types.NewSpecifier("ChaCha20Poly1305")
	specNoOverlap = types.NewSpecifier("NoOverlap")
)

func r2Mismatch(b *harness.B, g G, opt memconn.Options, kind string) {
	b.Eval(1)
	rc, hc := memconn.Pipe(opt)
	dl := time.Now().Add(watchdog)
	rc.SetDeadline(dl)
	hc.SetDeadline(dl)
	defer rc.Close()
	defer hc.Close()
	sk := types.NewPrivateKeyFromSeed(g.bytes(32))
	other := types.NewPrivateKeyFromSeed(g.bytes(32))
	b.Distinct("handshake", "rhp2", kind, opt.MaxChunk)
	type res struct {
		t   *rhp2.Transport
		err error
	}
	switch kind {
	case "wrong-host-key", "control":
		expect := sk.PublicKey()
		if kind == "wrong-host-key" {
			expect = other.PublicKey()
		}
		ch := make(chan res, 1)
		go func() { t, err := rhp2.NewHostTransport(hc, sk); ch <- res{t, err} }()
		rt, rerr := rhp2.NewRenterTransport(rc, expect)
		if kind == "control" {
			hr := <-ch
			if rerr != nil || hr.err != nil {
				b.Violate("C19/handshake/rhp2/control-failed", fmt.Sprintf("correct key refused: %v %v", rerr, hr.err), nil)
				return
			}
			rt.ForceClose()
			hr.t.ForceClose()
			b.Count("handshake_controls_ok", 1)
			return
		}
		if isTimeout(rerr) {
			b.Inconclusive("watchdog fired in rhp2 wrong-host-key case")
			return
		}
		if rerr == nil || rt != nil {
			b.Violate("C19/handshake/rhp2/wrong-host-key/renter-gets-transport", "the renter accepted a host that does not hold the expected key", map[string]any{"error": fmt.Sprint(rerr)})
			return
		}
		// the renter hangs up (as any caller does on error); the host, which
		// cannot know, must then not be left with a working session
		rc.Close()
		hr := <-ch
		if hr.err == nil {
			_, err := hr.t.ReadID()
			if err == nil {
				b.Violate("C19/handshake/rhp2/wrong-host-key/host-session-usable", "host read an RPC id on a session whose renter refused the handshake", nil)
				return
			}
			b.Count("rhp2_host_transport_returned_then_first_read_fails", 1)
		}
		b.Count("handshake_mismatch_cases", 1)
	case "no-common-cipher-at-host":
		// hand-rolled renter offering only unknown ciphers
		ch := make(chan res, 1)
		go func() { t, err := rhp2.NewHostTransport(hc, sk); ch <- res{t, err} }()
		_, xpk := x25519Pair(g)
		var buf bytes.Buffer
		e := types.NewEncoder(&buf)
		specLoopEnter.EncodeTo(e)
		e.Write(xpk[:])
		nC := g.n(3)
		e.WriteUint64(uint64(nC))
		for i := 0; i < nC; i++ {
			s := g.spec()
			s.EncodeTo(e)
		}
		e.Flush()
		rc.Write(buf.Bytes())
		hr := <-ch
		if isTimeout(hr.err) {
			b.Inconclusive("watchdog fired in rhp2 no-common-cipher case")
			return
		}
		if hr.err == nil || hr.t != nil {
			b.Violate("C19/handshake/rhp2/no-common-cipher/host-gets-transport", "the host established a session without a common cipher", nil)
			return
		}
		// observation: does the renter ever learn why? (the refusal is encoded but may not be flushed)
		hc.Close()
		rest, _ := io.ReadAll(rc)
		if bytes.Contains(rest, specNoOverlap[:]) {
			b.Count("rhp2_no_overlap_refusal_reached_renter", 1)
		} else {
			b.Count("rhp2_no_overlap_refusal_never_sent(observation)", 1)
		}
		b.Count("handshake_mismatch_cases", 1)
	case "host-answers-no-overlap", "host-selects-unknown-cipher":
		// hand-rolled host holding the right key but refusing / choosing nonsense
		ch := make(chan error, 1)
		go func() {
			d := types.NewDecoder(io.LimitedReader{R: hc, N: 1024})
			var id types.Specifier
			id.DecodeFrom(d)
			var rpk [32]byte
			d.Read(rpk[:])
			var ciphers []types.Specifier
			types.DecodeSlice(d, &ciphers)
			if d.Err() != nil {
				ch <- d.Err()
				return
			}
			_, xpk := x25519Pair(g)
			h := blake2b.Sum256(append(append([]byte(nil), rpk[:]...), xpk[:]...))
			sig := sk.SignHash(types.Hash256(h))
			c := specNoOverlap
			if kind == "host-selects-unknown-cipher" {
				c = g.spec()
			}
			var buf bytes.Buffer
			e := types.NewEncoder(&buf)
			e.Write(xpk[:])
			e.WriteBytes(sig[:])
			c.EncodeTo(e)
			e.Flush()
			_, err := hc.Write(buf.Bytes())
			ch <- err
		}()
		rt, rerr := rhp2.NewRenterTransport(rc, sk.PublicKey())
		<-ch
		if isTimeout(rerr) {
			b.Inconclusive("watchdog fired in rhp2 " + kind + " case")
			return
		}
		if rerr == nil || rt != nil {
			b.Violate("C19/handshake/rhp2/"+kind+"/renter-gets-transport", "the renter established a session although the host did not select the offered cipher", nil)
			return
		}
		b.Count("handshake_mismatch_cases", 1)
	}
}

func r3Mismatch(b *harness.B, g G, opt memconn.Options, wrong bool) {
	b.Eval(1)
	rc, hc := memconn.Pipe(opt)
	dl := time.Now().Add(watchdog)
	rc.SetDeadline(dl)
	hc.SetDeadline(dl)
	defer rc.Close()
	defer hc.Close()
	sk := types.NewPrivateKeyFromSeed(g.bytes(32))
	expect := sk.PublicKey()
	kind := "control"
	if wrong {
		expect = types.NewPrivateKeyFromSeed(g.bytes(32)).PublicKey()
		kind = "wrong-host-key"
	}
	b.Distinct("handshake", "rhp3", kind, opt.MaxChunk)
	type res struct {
		t   *rhp3.Transport
		err error
	}
	ch := make(chan res, 1)
	go func() { t, err := rhp3.NewHostTransport(hc, sk); ch <- res{t, err} }()
	rt, rerr := rhp3.NewRenterTransport(rc, expect)
	if !wrong {
		hr := <-ch
		if rerr != nil || hr.err != nil {
			b.Violate("C19/handshake/rhp3/control-failed", fmt.Sprintf("correct key refused: %v %v", rerr, hr.err), nil)
			return
		}
		rt.Close()
		hr.t.Close()
		b.Count("handshake_controls_ok", 1)
		return
	}
	if isTimeout(rerr) {
		b.Inconclusive("watchdog fired in rhp3 wrong-host-key case")
		return
	}
	if rerr == nil {
		rt.Close()
		b.Violate("C19/handshake/rhp3/wrong-host-key/renter-gets-transport", "the renter accepted a host that does not hold the expected key", nil)
		return
	}
	rc.Close() // the renter hangs up
	hr := <-ch
	if isTimeout(hr.err) {
		b.Inconclusive("watchdog fired on the host side of the rhp3 wrong-host-key case")
		return
	}
	if hr.err == nil {
		hr.t.Close()
		b.Violate("C19/handshake/rhp3/wrong-host-key/host-gets-transport", "the host ended the handshake with a transport although the renter refused it", nil)
		return
	}
	b.Count("handshake_mismatch_cases", 1)
}

var _ = errors.New
var _ net.Conn
