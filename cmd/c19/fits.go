package main

// Fits-its-own-limit monitor for RHP4 (batch 0) plus the contract-size
// dependent responses.

import (
	"bytes"
	"errors"
	"fmt"
	"io"
	"math/bits"
	"sort"

	rhp2 "go.sia.tech/core/rhp/v2"
	rhp4 "go.sia.tech/core/rhp/v4"
	"go.sia.tech/core/types"
	"verif/internal/harness"
)

func sizeClass(n int) string {
	if n == 0 {
		return "0"
	}
	return fmt.Sprintf("2^%d", bits.Len(uint(n))-1)
}

var testID = types.NewSpecifier("C19Test")

// r4Encode writes o exactly as a sender would.
func r4Encode(s *r4spec, o rhp4.Object) ([]byte, error) {
	var buf bytes.Buffer
	var err error
	if s.resp {
		err = rhp4.WriteResponse(&buf, o)
	} else {
		err = rhp4.WriteRequest(&buf, testID, o)
	}
	return buf.Bytes(), err
}

// r4Decode reads the message with the real receiver functions; it returns the
// decoded object, the number of bytes the receiver pulled and the error.
func r4Decode(s *r4spec, r io.Reader) (rhp4.Object, int64, error) {
	cr := &countReader{r: r}
	o := s.fresh()
	if s.resp {
		err := rhp4.ReadResponse(cr, o)
		return o, cr.n, err
	}
	id, err := rhp4.ReadID(cr)
	if err != nil {
		return o, cr.n, fmt.Errorf("ReadID: %w", err)
	} else if id != testID {
		return o, cr.n, fmt.Errorf("ReadID returned %v", id)
	}
	err = rhp4.ReadRequest(cr, o)
	return o, cr.n, err
}

func (s *r4spec) recvLimit() int64 {
	if s.resp {
		return int64(1 + szErr + s.limit) // flag byte + error allowance + object limit
	}
	return int64(16 + s.limit) // 16 = RPC id read by ReadID
}

type countReader struct {
	r io.Reader
	n int64
}

func (c *countReader) Read(p []byte) (int, error) {
	n, err := c.r.Read(p)
	c.n += int64(n)
	return n, err
}

// r4RoundTrip is the oracle for one instance: it must encode, be accepted by
// the receiver, decode to an equal object and consume exactly its encoding.
func r4RoundTrip(b *harness.B, s *r4spec, o rhp4.Object, variant string, wit map[string]any) (int, bool) {
	b.Eval(1)
	enc, err := r4Encode(s, o)
	if err != nil {
		b.Violate("C19/write-error/"+s.name, "writer failed: "+err.Error(), wit)
		return 0, false
	}
	b.Distinct("fits", s.name, variant, sizeClass(len(enc)))
	b.MaxOf("encoded_bytes_max/"+s.name, int64(len(enc)))
	// trailing bytes of a following message must stay untouched
	tail := []byte{0xA5, 0x5A, 0xC3}
	got, pulled, err := r4Decode(s, bytes.NewReader(append(append([]byte(nil), enc...), tail...)))
	if wit == nil {
		wit = map[string]any{}
	}
	wit["type"], wit["variant"], wit["encoded_bytes"], wit["receiver_limit_declared"] = s.name, variant, len(enc), s.recvLimit()
	if err != nil {
		wit["read_error"] = err.Error()
		key := "C19/exceeds-maxLen/" + s.name + "/" + variant
		if int64(len(enc)) <= s.recvLimit() {
			key = "C19/rejects-valid/" + s.name + "/" + variant
		}
		b.Violate(key, fmt.Sprintf("%s (%s, %d bytes encoded; declared receiver limit %d) was refused by its reader: %v", s.name, variant, len(enc), s.recvLimit(), err), wit)
		return len(enc), false
	}
	if d := equalObj(o, got); d != "" {
		wit["difference"] = d
		b.Violate("C19/roundtrip-mismatch/"+s.name, "decoded object differs from the written one at "+d, wit)
		return len(enc), false
	}
	if pulled != int64(len(enc)) {
		wit["pulled"] = pulled
		b.Violate("C19/framing-desync/"+s.name, fmt.Sprintf("reader consumed %d bytes of a %d-byte message", pulled, len(enc)), wit)
		return len(enc), false
	}
	if !s.resp && len(enc)-16 > s.limit || s.resp && len(enc)-1 > s.limit {
		// accepted, but only thanks to the error-slack ReadResponse adds
		b.Count("accepted_above_declared_maxLen_within_error_slack", 1)
		b.SetAdd("types_fitting_only_within_error_slack", s.name)
	}
	return len(enc), true
}

func runRHP4Fits(b *harness.B) {
	g := G{r: b.Rng}
	k := newKeys(g)
	specs := rhp4Registry()

	// completeness of the registry against the source the binary was built from
	src, dir, err := rhp4SourceTypes()
	if err != nil {
		b.Inconclusive("cannot parse rhp/v4/encoding.go (" + dir + "): " + err.Error())
	} else {
		have := map[string]bool{}
		for _, s := range specs {
			have[s.name] = true
		}
		for _, t := range src {
			if !have[t] {
				b.Inconclusive("rhp4 Object type not in the check's registry: " + t)
			}
			delete(have, t)
		}
		for t := range have {
			b.Inconclusive("registry names a type with no maxLen in the source: " + t)
		}
		b.Count("rhp4_object_types_in_source", len(src))
	}

	nRnd := b.Pick(40, 600)
	for i := range specs {
		s := &specs[i]
		// largest instance
		o := s.max(g, k)
		variant := "max-valid-instance"
		if !s.bounded {
			variant = "realistic-instance"
		}
		if s.validate != nil {
			if err := s.validate(o, k); err != nil {
				b.Inconclusive(fmt.Sprintf("generator: protocol Validate rejects the %s of %s: %v", variant, s.name, err))
				continue
			}
			b.Count("max_instances_admitted_by_protocol_validate", 1)
		}
		if n, ok := r4RoundTrip(b, s, o, variant, nil); ok {
			b.Count("objects_max_size_roundtrips", 1)
			if !s.bounded {
				b.MaxOf("realistic_instance_bytes/"+s.name, int64(n))
			}
		}
		// positive control for the protocol limit itself: one past the limit is refused by Validate
		if s.over != nil {
			b.Eval(1)
			if err := s.validate(s.over(g, k), k); err == nil {
				b.Inconclusive("generator: protocol Validate accepts an instance beyond the believed protocol limit of " + s.name)
			} else {
				b.Count("over_protocol_limit_rejected_by_validate", 1)
				b.Distinct("over-limit", s.name)
			}
		}
		// random smaller ones
		for j := 0; j < nRnd; j++ {
			o := s.rnd(g, k)
			if _, ok := r4RoundTrip(b, s, o, "random-instance", nil); ok {
				b.Count("objects_random_roundtrips", 1)
			}
		}
		// capacity of the unbounded ones (observation): how many inputs fit
		if !s.bounded {
			b.SetAdd("types_without_protocol_count_limit", s.name)
		}
	}
	formCapacity(b, g, k)
	b.Sample(map[string]any{"kind": "rhp4 max-size round trips", "types": len(specs), "random_per_type": nRnd})
}

// formCapacity reports (observation only) how many renter inputs of a given
// proof length fit the form-contract request limit.
func formCapacity(b *harness.B, g G, k *keys) {
	s := &r4spec{name: "rhp4.RPCFormContractRequest", limit: szTxnSet, fresh: func() rhp4.Object { return new(rhp4.RPCFormContractRequest) }}
	for _, pl := range []int{20, 30, 40} {
		lo, hi := 0, 400
		for lo < hi {
			mid := (lo + hi + 1) / 2
			req := &rhp4.RPCFormContractRequest{Prices: k.prices(g), RenterInputs: g.sces(mid, pl)}
			enc, _ := r4Encode(s, req)
			_, _, err := r4Decode(s, bytes.NewReader(enc))
			if err == nil {
				lo = mid
			} else {
				hi = mid - 1
			}
		}
		b.MaxOf(fmt.Sprintf("capacity_form_request_inputs_at_proof_len_%d", pl), int64(lo))
	}
}

// ---- contract-size dependent responses ----

func freeActions(freed []uint64, numSectors uint64) []rhp2.RPCWriteAction {
	// the protocol's definition of freeing: swap each freed index with the
	// i-th sector from the end, then trim (rhp/v4 convertFreeActions)
	as := make([]rhp2.RPCWriteAction, 0, len(freed)+1)
	for i, n := range freed {
		as = append(as, rhp2.RPCWriteAction{Type: rhp2.RPCWriteActionSwap, A: n, B: numSectors - uint64(i) - 1})
	}
	return append(as, rhp2.RPCWriteAction{Type: rhp2.RPCWriteActionTrim, A: uint64(len(freed))})
}

func indexPattern(g G, pattern string, n int, numSectors uint64) []uint64 {
	if uint64(n) > numSectors {
		n = int(numSectors)
	}
	out := make([]uint64, 0, n)
	switch pattern {
	case "stride":
		// evenly spread over the part of the contract that is not swapped in
		span := numSectors
		if numSectors >= 2*uint64(n) {
			span = numSectors - uint64(n)
		}
		stride := span / uint64(n)
		if stride == 0 {
			stride = 1
		}
		off := uint64(0)
		if stride > 1 {
			off = stride / 2
		}
		for i := 0; i < n; i++ {
			out = append(out, (off+uint64(i)*stride)%numSectors)
		}
	case "random":
		out = g.distinctIndices(n, numSectors)
	case "head":
		for i := 0; i < n; i++ {
			out = append(out, uint64(i))
		}
	case "tail":
		for i := 0; i < n; i++ {
			out = append(out, numSectors-1-uint64(i))
		}
	}
	return out
}

func runContractSizeResponses(b *harness.B) {
	g := G{r: b.SubRng("bysize")}
	k := newKeys(g)
	reg := rhp4Registry()
	find := func(name string) *r4spec {
		for i := range reg {
			if reg[i].name == name {
				return &reg[i]
			}
		}
		panic(name)
	}
	free := find("rhp4.RPCFreeSectorsResponse")
	freeReq := find("rhp4.RPCFreeSectorsRequest")
	exps := []int{18, 19, 20, 24, 30}
	if !b.Quick() {
		exps = []int{18, 19, 20, 21, 22, 24, 26, 28, 30}
	}
	type row struct {
		Log2Sectors int    `json:"log2_sectors"`
		Pattern     string `json:"pattern"`
		Hashes      uint64 `json:"proof_hashes"`
		Bytes       int64  `json:"response_bytes"`
		Fits        bool   `json:"fits"`
	}
	var table []row
	worstKnown := row{}
	for _, e := range exps {
		for _, extra := range []uint64{0, 1, 12345} {
			if extra != 0 && (b.Quick() || e > 24) {
				continue
			}
			N := uint64(1)<<e + extra
			for _, pat := range []string{"stride", "random", "tail", "head"} {
				if b.Quick() && pat == "head" {
					continue
				}
				b.Eval(1)
				idx := indexPattern(g, pat, batch, N)
				// the request is admitted by the protocol
				req := &rhp4.RPCFreeSectorsRequest{Prices: k.prices(g), Indices: idx}
				if err := req.Validate(k.hostPK, types.V2FileContract{Filesize: N * rhp4.SectorSize}); err != nil {
					b.Inconclusive("generator: FreeSectors request pattern " + pat + " rejected by Validate: " + err.Error())
					continue
				}
				_ = freeReq
				hashes := rhp2.DiffProofSize(freeActions(idx, N), N)
				size := int64(1 + 8 + 8 + 32*hashes + 32)
				fits := size <= free.recvLimit()
				table = append(table, row{e, pat, hashes, size, fits})
				b.Distinct("free-by-size", e, extra != 0, pat, fits)
				b.MaxOf(fmt.Sprintf("free_sectors_response_bytes/2^%d_sectors", e), size)
				b.Count("size_dependent_response_evaluations", 1)
				// the real builder agrees with DiffProofSize where it is affordable
				var resp *rhp4.RPCFreeSectorsResponse
				if e <= 20 && (pat == "stride" || pat == "random") && extra == 0 {
					roots := g.fastHashes(int(N))
					th, lh := rhp4.BuildFreeSectorsProof(roots, idx)
					if uint64(len(th)+len(lh)) != hashes {
						b.Violate("C19/size-model/DiffProofSize-vs-BuildFreeSectorsProof", fmt.Sprintf("DiffProofSize=%d, builder produced %d+%d hashes", hashes, len(th), len(lh)), map[string]any{"log2_sectors": e, "pattern": pat})
					}
					b.Count("real_builder_cross_checks", 1)
					resp = &rhp4.RPCFreeSectorsResponse{OldSubtreeHashes: th, OldLeafHashes: lh, NewMerkleRoot: g.hash()}
				} else if pat == "stride" || (pat == "random" && !b.Quick()) {
					// synthetic proof of exactly that many hashes (sizes only)
					leaf := uint64(len(idx))
					if hashes < leaf {
						leaf = hashes
					}
					resp = &rhp4.RPCFreeSectorsResponse{OldSubtreeHashes: g.fastHashes(int(hashes - leaf)), OldLeafHashes: g.fastHashes(int(leaf)), NewMerkleRoot: g.hash()}
				}
				if resp == nil {
					continue
				}
				wit := map[string]any{"numSectors": N, "log2_sectors": e, "indices_pattern": pat, "batch": len(idx), "proof_hashes": hashes,
					"note": "request admitted by RPCFreeSectorsRequest.Validate; response size from rhp2.DiffProofSize over the protocol's swap+trim actions"}
				if fits {
					if _, ok := r4RoundTrip(b, free, resp, "max-batch-by-contract-size", wit); ok {
						b.Count("objects_max_size_roundtrips", 1)
					}
					continue
				}
				// does not fit: confirm with the real reader, then report once per class
				enc, _ := r4Encode(free, resp)
				_, pulled, err := r4Decode(free, bytes.NewReader(enc))
				wit["encoded_bytes"], wit["receiver_limit"], wit["pulled"] = len(enc), free.recvLimit(), pulled
				if err == nil {
					b.Violate("C19/limit-table/rhp4.RPCFreeSectorsResponse", "response larger than the declared limit was accepted", wit)
					continue
				}
				wit["read_error"] = err.Error()
				key := "C19/exceeds-maxLen/rhp4.RPCFreeSectorsResponse/numSectors>=2^20"
				if e < 20 {
					key = "C19/exceeds-maxLen/rhp4.RPCFreeSectorsResponse/numSectors<2^20"
				}
				b.Violate(key, fmt.Sprintf("valid max batch (2^18 indices, %s) on a contract of 2^%d sectors: response needs %d bytes (%d hashes), the renter reads at most %d; real ReadResponse: %v",
					pat, e, len(enc), hashes, free.recvLimit(), err), wit)
				if size > worstKnown.Bytes {
					worstKnown = table[len(table)-1]
				}
			}
		}
	}
	sort.Slice(table, func(i, j int) bool { return table[i].Log2Sectors < table[j].Log2Sectors })
	b.Sample(map[string]any{"kind": "RPCFreeSectorsResponse size by contract size (max batch)", "limit": free.recvLimit(), "table": table})

	// the signature message of a contract formation carries one satisfied policy per renter input of the request:
	// the largest request the host's own limit admits must lead to a second response the host can read
	{
		formReq := find("rhp4.RPCFormContractRequest")
		second := find("rhp4.RPCFormContractSecondResponse")
		const proofLen = 20
		mk := func(n int) *rhp4.RPCFormContractRequest {
			o := formReq.max(g, k).(*rhp4.RPCFormContractRequest)
			o.RenterParents = nil
			o.RenterInputs = nil
			for i := 0; i < n; i++ {
				e := types.SiacoinElement{ID: types.SiacoinOutputID(g.hash()), SiacoinOutput: types.SiacoinOutput{Value: types.Siacoins(100), Address: types.StandardUnlockHash(k.hostPK)}}
				e.StateElement.LeafIndex = uint64(1000 + i)
				e.StateElement.MerkleProof = g.fastHashes(proofLen)
				o.RenterInputs = append(o.RenterInputs, e)
			}
			return o
		}
		fitsReq := func(n int) bool {
			enc, err := r4Encode(formReq, mk(n))
			return err == nil && int64(len(enc)) <= formReq.recvLimit()
		}
		lo, hi := 1, 4096
		for lo < hi {
			m := (lo + hi + 1) / 2
			if fitsReq(m) {
				lo = m
			} else {
				hi = m - 1
			}
		}
		n := lo
		req := mk(n)
		b.Eval(1)
		wit := map[string]any{"renter_inputs": n, "proof_hashes_per_input": proofLen}
		if formReq.validate != nil {
			if err := formReq.validate(req, k); err != nil {
				wit["request_validate_error"] = err.Error()
			}
		}
		encReq, _ := r4Encode(formReq, req)
		if _, _, err := r4Decode(formReq, bytes.NewReader(encReq)); err != nil {
			b.Inconclusive("largest formation request within its limit does not decode: " + err.Error())
		} else {
			var sps []types.SatisfiedPolicy
			for i := 0; i < n; i++ {
				sps = append(sps, types.SatisfiedPolicy{Policy: types.SpendPolicy{Type: types.PolicyTypeUnlockConditions(types.StandardUnlockConditions(k.hostPK))}, Signatures: []types.Signature{g.sig()}})
			}
			resp := &rhp4.RPCFormContractSecondResponse{RenterContractSignature: g.sig(), RenterSatisfiedPolicies: sps}
			enc, _ := r4Encode(second, resp)
			wit["request_bytes"], wit["request_limit"], wit["second_response_bytes"], wit["second_response_limit"] = len(encReq), formReq.recvLimit(), len(enc), second.recvLimit()
			b.Count("request_determined_responses_checked", 1)
			if _, _, err := r4Decode(second, bytes.NewReader(enc)); err != nil {
				wit["read_error"] = err.Error()
				b.Violate("C19/exceeds-maxLen/rhp4.RPCFormContractSecondResponse/one-policy-per-input-of-the-largest-request-within-its-limit",
					fmt.Sprintf("a formation request with %d renter inputs (%d bytes) is within the host's request limit (%d); the matching signature message with one single-signature policy per input needs %d bytes, the host reads at most %d: %v", n, len(encReq), formReq.recvLimit(), len(enc), second.recvLimit(), err), wit)
			}
		}
	}

	// the last message of a formation carries the finished transaction, with the inputs of BOTH parties: requests and
	// host responses that each fit their own limit must lead to a third response the renter can read
	{
		formReq, hostResp, third := find("rhp4.RPCFormContractRequest"), find("rhp4.RPCFormContractResponse"), find("rhp4.RPCFormContractThirdResponse")
		const perSide, proofLen = 55, 24
		pol := types.PolicyPublicKey(k.hostPK)
		mkIn := func(i int) types.V2SiacoinInput {
			e := types.SiacoinElement{ID: types.SiacoinOutputID(g.hash()), SiacoinOutput: types.SiacoinOutput{Value: types.Siacoins(100), Address: pol.Address()}}
			e.StateElement.LeafIndex = uint64(5000 + i)
			e.StateElement.MerkleProof = g.fastHashes(proofLen)
			return types.V2SiacoinInput{Parent: e, SatisfiedPolicy: types.SatisfiedPolicy{Policy: pol, Signatures: []types.Signature{g.sig()}}}
		}
		req := formReq.max(g, k).(*rhp4.RPCFormContractRequest)
		req.RenterParents, req.RenterInputs = nil, nil
		var all []types.V2SiacoinInput
		for i := 0; i < perSide; i++ {
			in := mkIn(i)
			req.RenterInputs = append(req.RenterInputs, in.Parent)
			all = append(all, in)
		}
		hr := &rhp4.RPCFormContractResponse{}
		for i := 0; i < perSide; i++ {
			in := mkIn(perSide + i)
			hr.HostInputs = append(hr.HostInputs, in)
			all = append(all, in)
		}
		encReq, e1 := r4Encode(formReq, req)
		encHR, e2 := r4Encode(hostResp, hr)
		b.Eval(1)
		if e1 != nil || e2 != nil || int64(len(encReq)) > formReq.recvLimit() || int64(len(encHR)) > hostResp.recvLimit() {
			b.Inconclusive("formation messages of 55 inputs per side do not fit their own limits")
		} else {
			fc, _ := rhp4.NewContract(req.Prices, req.Contract, k.hostPK, types.StandardUnlockHash(k.hostPK))
			txn := types.V2Transaction{SiacoinInputs: all, FileContracts: []types.V2FileContract{fc}, MinerFee: types.Siacoins(1),
				SiacoinOutputs: []types.SiacoinOutput{{Value: types.Siacoins(1), Address: pol.Address()}, {Value: types.Siacoins(1), Address: pol.Address()}}}
			resp := &rhp4.RPCFormContractThirdResponse{Basis: types.ChainIndex{Height: 1000, ID: types.BlockID(g.hash())}, TransactionSet: []types.V2Transaction{txn}}
			enc, _ := r4Encode(third, resp)
			wit := map[string]any{"inputs_per_side": perSide, "proof_hashes_per_input": proofLen, "request_bytes": len(encReq), "request_limit": formReq.recvLimit(), "host_response_bytes": len(encHR), "host_response_limit": hostResp.recvLimit(), "third_response_bytes": len(enc), "third_response_limit": third.recvLimit()}
			b.Count("request_determined_responses_checked", 1)
			if _, _, err := r4Decode(third, bytes.NewReader(enc)); err != nil {
				wit["read_error"] = err.Error()
				b.Violate("C19/exceeds-maxLen/rhp4.RPCFormContractThirdResponse/transaction-with-the-inputs-of-both-parties-each-within-its-limit",
					fmt.Sprintf("a formation in which each side funds from %d outputs: request %d bytes (limit %d), host inputs %d bytes (limit %d), both admitted; the finished transaction in the third response needs %d bytes, the renter reads at most %d: %v", perSide, len(encReq), formReq.recvLimit(), len(encHR), hostResp.recvLimit(), len(enc), third.recvLimit(), err), wit)
			}
		}
	}

	// AppendSectorsResponse and SectorRootsResponse over contract sizes
	app := find("rhp4.RPCAppendSectorsResponse")
	roots := find("rhp4.RPCSectorRootsResponse")
	for _, e := range exps {
		for _, N := range []uint64{1 << e, 1<<e - 1, 1<<e + 1, (1 << e) | 0x2AAAA} {
			b.Eval(1)
			var sub []types.Hash256
			if e <= 20 {
				old := g.fastHashes(int(N))
				sub, _ = rhp4.BuildAppendProof(old, g.fastHashes(8))
				if len(sub) != bits.OnesCount64(N) {
					b.Violate("C19/size-model/BuildAppendProof", fmt.Sprintf("BuildAppendProof over %d sectors gave %d subtree roots, popcount is %d", N, len(sub), bits.OnesCount64(N)), nil)
				}
				b.Count("real_builder_cross_checks", 1)
			} else {
				sub = g.hashes(bits.OnesCount64(N))
			}
			acc := make([]bool, batch)
			for i := range acc {
				acc[i] = i%3 != 0
			}
			if _, ok := r4RoundTrip(b, app, &rhp4.RPCAppendSectorsResponse{Accepted: acc, SubtreeRoots: sub, NewMerkleRoot: g.hash()}, "max-batch-by-contract-size", map[string]any{"numSectors": N}); ok {
				b.Count("objects_max_size_roundtrips", 1)
			}
			b.Distinct("append-by-size", e, bits.OnesCount64(N))

			// sector roots: max batch at several offsets
			if N < batch {
				continue
			}
			for _, start := range []uint64{0, N - batch, (N - batch) / 2, (N - batch) / 3} {
				b.Eval(1)
				ps := rhp2.RangeProofSize(N, start, start+batch)
				var proof []types.Hash256
				if e <= 20 {
					all := g.fastHashes(int(N))
					proof = rhp4.BuildSectorRootsProof(all, start, start+batch)
					if uint64(len(proof)) != ps {
						b.Violate("C19/size-model/RangeProofSize-vs-BuildSectorRootsProof", fmt.Sprintf("RangeProofSize=%d builder=%d", ps, len(proof)), map[string]any{"n": N, "start": start})
					}
					b.Count("real_builder_cross_checks", 1)
				} else {
					proof = g.hashes(int(ps))
				}
				if _, ok := r4RoundTrip(b, roots, &rhp4.RPCSectorRootsResponse{Proof: proof, Roots: g.fastHashes(batch), HostSignature: g.sig()}, "max-batch-by-contract-size", map[string]any{"numSectors": N, "start": start}); ok {
					b.Count("objects_max_size_roundtrips", 1)
				}
				b.Distinct("roots-by-size", e, ps)
				b.Count("size_dependent_response_evaluations", 1)
			}
		}
	}

	// ReadSector / VerifySector proofs from the real sector-proof builder
	rd := find("rhp4.RPCReadSectorResponse")
	vs := find("rhp4.RPCVerifySectorResponse")
	var sector [rhp4.SectorSize]byte
	g.fill(sector[:4096])
	copy(sector[4096:], sector[:4096])
	cache := rhp4.CachedSectorSubtrees(&sector)
	ranges := [][2]uint64{{0, rhp4.LeavesPerSector}, {0, 1}, {rhp4.LeavesPerSector - 1, rhp4.LeavesPerSector}, {1, rhp4.LeavesPerSector - 1}, {21845, 43691}, {32767, 32769}, {1, 2}}
	for i := 0; i < b.Pick(20, 300); i++ {
		s := uint64(g.n(rhp4.LeavesPerSector))
		ranges = append(ranges, [2]uint64{s, s + 1 + uint64(g.n(int(rhp4.LeavesPerSector-s)))})
	}
	for _, r := range ranges {
		b.Eval(1)
		s0, e0 := rhp4.SectorSubtreeRange(r[0], r[1])
		proof := rhp4.BuildSectorProof(sector[s0*64:e0*64], r[0], r[1], cache)
		b.MaxOf("read_sector_proof_hashes_max", int64(len(proof)))
		if _, ok := r4RoundTrip(b, rd, &rhp4.RPCReadSectorResponse{Proof: proof, DataLength: (r[1] - r[0]) * 64}, "real-proof", map[string]any{"start": r[0], "end": r[1]}); ok {
			b.Count("objects_max_size_roundtrips", 1)
		}
		if r[1] == r[0]+1 {
			v := &rhp4.RPCVerifySectorResponse{Proof: proof}
			copy(v.Leaf[:], sector[r[0]*64:])
			if _, ok := r4RoundTrip(b, vs, v, "real-proof", map[string]any{"leaf": r[0]}); ok {
				b.Count("objects_max_size_roundtrips", 1)
			}
		}
		b.Distinct("sector-proof", len(proof), bits.Len64(r[1]-r[0]))
	}
	_ = errors.New
}
