package main

// Generators for protocol objects (RHP4, gateway, RHP2, RHP3) and the
// structural equality used by every round-trip oracle.

import (
	"errors"
	"fmt"
	"math/rand/v2"
	"reflect"
	"time"

	"go.sia.tech/core/consensus"
	"go.sia.tech/core/types"
)

// farFuture is a fixed instant that the library's own time.Now() comparisons
// always see as "not expired" (never read by an oracle).
var farFuture = time.Unix(4102444800, 0) // 2100-01-01

type G struct {
	r *rand.Rand
	// alloc, when set, supplies the state element of every generated element
	// (leaf index and a proof of the right length for one accumulator)
	alloc func() types.StateElement
}

func (g G) n(n int) int { return g.r.IntN(n) }
func (g G) u64() uint64 { return g.r.Uint64() }
func (g G) small() uint64 {
	switch g.n(4) {
	case 0:
		return 0
	case 1:
		return uint64(g.n(1000))
	case 2:
		return g.u64() >> uint(g.n(64))
	}
	return g.u64()
}
func (g G) fill(b []byte) {
	for i := 0; i+8 <= len(b); i += 8 {
		v := g.r.Uint64()
		b[i], b[i+1], b[i+2], b[i+3], b[i+4], b[i+5], b[i+6], b[i+7] = byte(v), byte(v>>8), byte(v>>16), byte(v>>24), byte(v>>32), byte(v>>40), byte(v>>48), byte(v>>56)
	}
	for i := len(b) &^ 7; i < len(b); i++ {
		b[i] = byte(g.r.Uint32())
	}
}
func (g G) bytes(n int) []byte {
	if n == 0 {
		return nil
	}
	b := make([]byte, n)
	g.fill(b)
	return b
}
func (g G) hash() (h types.Hash256)   { g.fill(h[:]); return }
func (g G) addr() (a types.Address)   { g.fill(a[:]); return }
func (g G) sig() (s types.Signature)  { g.fill(s[:]); return }
func (g G) pk() (p types.PublicKey)   { g.fill(p[:]); return }
func (g G) spec() (s types.Specifier) { g.fill(s[:]); return }
func (g G) tm() time.Time             { return time.Unix(int64(g.u64()>>24), 0) }
func (g G) cur() types.Currency {
	switch g.n(5) {
	case 0:
		return types.ZeroCurrency
	case 1:
		return types.MaxCurrency
	case 2:
		return types.NewCurrency64(g.u64())
	}
	return types.NewCurrency(g.u64(), g.u64()>>uint(g.n(64)))
}
func (g G) nzcur() types.Currency {
	c := g.cur()
	if c.IsZero() {
		return types.NewCurrency64(1)
	}
	return c
}
func (g G) str(n int) string {
	const al = "abcdefghijklmnopqrstuvwxyz0123456789 .:-_/\x00\xff\"é"
	b := make([]byte, n)
	for i := range b {
		b[i] = al[g.n(len(al))]
	}
	return string(b)
}
func (g G) hashes(n int) []types.Hash256 {
	if n == 0 {
		return nil
	}
	hs := make([]types.Hash256, n)
	for i := range hs {
		g.fill(hs[i][:])
	}
	return hs
}

// fastHashes fills n hashes cheaply (for multi-megabyte objects): a counter
// pattern mixed with one random word so that neighbouring hashes differ.
func (g G) fastHashes(n int) []types.Hash256 {
	if n == 0 {
		return nil
	}
	hs := make([]types.Hash256, n)
	seed := g.u64()
	for i := range hs {
		v := seed + uint64(i)*0x9e3779b97f4a7c15
		for j := 0; j < 4; j++ {
			v ^= v << 13
			v ^= v >> 7
			v ^= v << 17
			hs[i][j*8], hs[i][j*8+1], hs[i][j*8+2], hs[i][j*8+3] = byte(v), byte(v>>8), byte(v>>16), byte(v>>24)
			hs[i][j*8+4], hs[i][j*8+5], hs[i][j*8+6], hs[i][j*8+7] = byte(v>>32), byte(v>>40), byte(v>>48), byte(v>>56)
		}
	}
	return hs
}

func (g G) chainIndex() types.ChainIndex {
	return types.ChainIndex{Height: g.small(), ID: types.BlockID(g.hash())}
}

func (g G) sco() types.SiacoinOutput {
	return types.SiacoinOutput{Value: g.cur(), Address: g.addr()}
}

func (g G) stateElement(proofLen int) types.StateElement {
	if g.alloc != nil {
		return g.alloc()
	}
	return types.StateElement{LeafIndex: g.u64() >> 20, MerkleProof: g.hashes(proofLen)}
}

func (g G) sce(proofLen int) types.SiacoinElement {
	return types.SiacoinElement{ID: types.SiacoinOutputID(g.hash()), StateElement: g.stateElement(proofLen), SiacoinOutput: g.sco(), MaturityHeight: g.small()}
}

func (g G) policy(depth int) types.SpendPolicy {
	k := g.n(7)
	if depth <= 0 && k == 4 {
		k = 2
	}
	switch k {
	case 0:
		return types.PolicyAbove(g.small())
	case 1:
		return types.PolicyAfter(g.tm())
	case 2:
		return types.PolicyPublicKey(g.pk())
	case 3:
		return types.PolicyHash(g.hash())
	case 4:
		n := g.n(4)
		of := make([]types.SpendPolicy, n)
		for i := range of {
			of[i] = g.policy(depth - 1)
		}
		return types.PolicyThreshold(uint8(g.n(n+1)), of)
	case 5:
		return types.PolicyOpaque(g.policy(depth - 1))
	}
	return types.SpendPolicy{Type: types.PolicyTypeUnlockConditions(g.uc())}
}

func (g G) satisfied() types.SatisfiedPolicy {
	sp := types.SatisfiedPolicy{Policy: g.policy(2)}
	for i, n := 0, g.n(3); i < n; i++ {
		sp.Signatures = append(sp.Signatures, g.sig())
	}
	for i, n := 0, g.n(2); i < n; i++ {
		sp.Preimages = append(sp.Preimages, g.hash())
	}
	return sp
}

func (g G) v2sci(proofLen int) types.V2SiacoinInput {
	return types.V2SiacoinInput{Parent: g.sce(proofLen), SatisfiedPolicy: g.satisfied()}
}

func (g G) v2contract() types.V2FileContract {
	return types.V2FileContract{
		Capacity: g.small(), Filesize: g.small(), FileMerkleRoot: g.hash(), ProofHeight: g.small(), ExpirationHeight: g.small(),
		RenterOutput: g.sco(), HostOutput: g.sco(), MissedHostValue: g.cur(), TotalCollateral: g.cur(),
		RenterPublicKey: g.pk(), HostPublicKey: g.pk(), RevisionNumber: g.small(), RenterSignature: g.sig(), HostSignature: g.sig(),
	}
}

func (g G) v2fce(proofLen int) types.V2FileContractElement {
	return types.V2FileContractElement{ID: types.FileContractID(g.hash()), StateElement: g.stateElement(proofLen), V2FileContract: g.v2contract()}
}

// v2txn returns a random v2 transaction of modest size; proofLen is the proof
// length of every element it references (so that a set of them can be
// multiproof-encoded consistently only when made by the accumulator model —
// this one is for plain, uncompressed codecs).
func (g G) v2txn(proofLen int) types.V2Transaction {
	var t types.V2Transaction
	for i, n := 0, g.n(3); i < n; i++ {
		t.SiacoinInputs = append(t.SiacoinInputs, g.v2sci(proofLen))
	}
	for i, n := 0, g.n(3); i < n; i++ {
		t.SiacoinOutputs = append(t.SiacoinOutputs, g.sco())
	}
	if g.n(4) == 0 {
		t.SiafundInputs = append(t.SiafundInputs, types.V2SiafundInput{
			Parent:       types.SiafundElement{ID: types.SiafundOutputID(g.hash()), StateElement: g.stateElement(proofLen), SiafundOutput: types.SiafundOutput{Value: g.small(), Address: g.addr()}, ClaimStart: g.cur()},
			ClaimAddress: g.addr(), SatisfiedPolicy: g.satisfied()})
		t.SiafundOutputs = append(t.SiafundOutputs, types.SiafundOutput{Value: g.small(), Address: g.addr()})
	}
	if g.n(4) == 0 {
		t.FileContracts = append(t.FileContracts, g.v2contract())
	}
	if g.n(4) == 0 {
		t.FileContractRevisions = append(t.FileContractRevisions, types.V2FileContractRevision{Parent: g.v2fce(proofLen), Revision: g.v2contract()})
	}
	if g.n(4) == 0 {
		var res types.V2FileContractResolutionType
		switch g.n(3) {
		case 0:
			res = &types.V2FileContractRenewal{FinalRenterOutput: g.sco(), FinalHostOutput: g.sco(), RenterRollover: g.cur(), HostRollover: g.cur(), NewContract: g.v2contract(), RenterSignature: g.sig(), HostSignature: g.sig()}
		case 1:
			sp := &types.V2StorageProof{ProofIndex: types.ChainIndexElement{ID: types.BlockID(g.hash()), StateElement: g.stateElement(proofLen), ChainIndex: g.chainIndex()}, Proof: g.hashes(g.n(20))}
			g.fill(sp.Leaf[:])
			res = sp
		default:
			res = &types.V2FileContractExpiration{}
		}
		t.FileContractResolutions = append(t.FileContractResolutions, types.V2FileContractResolution{Parent: g.v2fce(proofLen), Resolution: res})
	}
	if g.n(4) == 0 {
		t.Attestations = append(t.Attestations, types.Attestation{PublicKey: g.pk(), Key: g.str(1 + g.n(20)), Value: g.bytes(g.n(40)), Signature: g.sig()})
	}
	if g.n(3) == 0 {
		t.ArbitraryData = g.bytes(1 + g.n(100))
	}
	if g.n(8) == 0 {
		a := g.addr()
		t.NewFoundationAddress = &a
	}
	if g.n(2) == 0 {
		t.MinerFee = g.nzcur()
	}
	if reflect.DeepEqual(t, types.V2Transaction{}) {
		t.ArbitraryData = []byte{1}
	}
	return t
}

func (g G) v2txns(n, proofLen int) []types.V2Transaction {
	if n == 0 {
		return nil
	}
	ts := make([]types.V2Transaction, n)
	for i := range ts {
		ts[i] = g.v2txn(proofLen)
	}
	return ts
}

// ---- v1 objects (RHP2 / RHP3 messages) ----

func (g G) uk() types.UnlockKey {
	if g.n(4) == 0 {
		return types.UnlockKey{Algorithm: g.spec(), Key: g.bytes(g.n(40))}
	}
	return types.UnlockKey{Algorithm: types.SpecifierEd25519, Key: g.bytes(32)}
}

func (g G) uc() types.UnlockConditions {
	uc := types.UnlockConditions{Timelock: g.small(), SignaturesRequired: g.small()}
	for i, n := 0, g.n(3); i < n; i++ {
		uc.PublicKeys = append(uc.PublicKeys, g.uk())
	}
	return uc
}

func (g G) scos(n int) []types.SiacoinOutput {
	var out []types.SiacoinOutput
	for i := 0; i < n; i++ {
		out = append(out, g.sco())
	}
	return out
}

func (g G) curs(n int) []types.Currency {
	var out []types.Currency
	for i := 0; i < n; i++ {
		out = append(out, g.cur())
	}
	return out
}

func (g G) v1contract() types.FileContract {
	return types.FileContract{Filesize: g.small(), FileMerkleRoot: g.hash(), WindowStart: g.small(), WindowEnd: g.small(), Payout: g.cur(),
		ValidProofOutputs: g.scos(g.n(3)), MissedProofOutputs: g.scos(g.n(4)), UnlockHash: g.addr(), RevisionNumber: g.small()}
}

func (g G) v1rev() types.FileContractRevision {
	fc := g.v1contract()
	fc.Payout = types.MaxCurrency // sentinel the decoder writes (documented in types.FileContractRevision)
	return types.FileContractRevision{ParentID: types.FileContractID(g.hash()), UnlockConditions: g.uc(), FileContract: fc}
}

func (g G) u64s(n int) []uint64 {
	var out []uint64
	for i := 0; i < n; i++ {
		out = append(out, g.small())
	}
	return out
}

func (g G) txnsig() types.TransactionSignature {
	ts := types.TransactionSignature{ParentID: g.hash(), PublicKeyIndex: g.small(), Timelock: g.small(), Signature: g.bytes(g.n(70))}
	if g.n(2) == 0 {
		ts.CoveredFields.WholeTransaction = true
	} else {
		ts.CoveredFields = types.CoveredFields{SiacoinInputs: g.u64s(g.n(3)), SiacoinOutputs: g.u64s(g.n(2)), FileContracts: g.u64s(g.n(2)), FileContractRevisions: g.u64s(g.n(2)),
			StorageProofs: g.u64s(g.n(2)), SiafundInputs: g.u64s(g.n(2)), SiafundOutputs: g.u64s(g.n(2)), MinerFees: g.u64s(g.n(2)), ArbitraryData: g.u64s(g.n(2)), Signatures: g.u64s(g.n(2))}
	}
	return ts
}

func (g G) txnsigs(n int) []types.TransactionSignature {
	var out []types.TransactionSignature
	for i := 0; i < n; i++ {
		out = append(out, g.txnsig())
	}
	return out
}

func (g G) v1txn() types.Transaction {
	var t types.Transaction
	for i, n := 0, g.n(3); i < n; i++ {
		t.SiacoinInputs = append(t.SiacoinInputs, types.SiacoinInput{ParentID: types.SiacoinOutputID(g.hash()), UnlockConditions: g.uc()})
	}
	t.SiacoinOutputs = g.scos(g.n(3))
	if g.n(3) == 0 {
		t.FileContracts = append(t.FileContracts, g.v1contract())
	}
	if g.n(3) == 0 {
		t.FileContractRevisions = append(t.FileContractRevisions, g.v1rev())
	}
	if g.n(4) == 0 {
		sp := types.StorageProof{ParentID: types.FileContractID(g.hash()), Proof: g.hashes(g.n(12))}
		g.fill(sp.Leaf[:])
		t.StorageProofs = append(t.StorageProofs, sp)
	}
	if g.n(4) == 0 {
		t.SiafundInputs = append(t.SiafundInputs, types.SiafundInput{ParentID: types.SiafundOutputID(g.hash()), UnlockConditions: g.uc(), ClaimAddress: g.addr()})
		t.SiafundOutputs = append(t.SiafundOutputs, types.SiafundOutput{Value: g.small(), Address: g.addr()})
	}
	t.MinerFees = g.curs(g.n(2))
	for i, n := 0, g.n(2); i < n; i++ {
		t.ArbitraryData = append(t.ArbitraryData, g.bytes(g.n(60)))
	}
	t.Signatures = g.txnsigs(g.n(3))
	return t
}

func (g G) v1txns(n int) []types.Transaction {
	var out []types.Transaction
	for i := 0; i < n; i++ {
		out = append(out, g.v1txn())
	}
	return out
}

// ---- structural equality ----

var timeType = reflect.TypeOf(time.Time{})
var stateType = reflect.TypeOf(consensus.State{})
var accType = reflect.TypeOf(consensus.ElementAccumulator{})
var errorType = reflect.TypeOf((*error)(nil)).Elem()

// equalObj compares two values structurally: nil and empty slices are equal
// (the decoders produce nil for empty), times compare by instant, error
// values by message, everything else field by field including unexported
// fields. It returns "" or the path of the first difference.
func equalObj(a, b any) string {
	return eqv(reflect.ValueOf(a), reflect.ValueOf(b), "")
}

func eqv(a, b reflect.Value, path string) string {
	if a.IsValid() != b.IsValid() {
		return path + ": one side invalid"
	}
	if !a.IsValid() {
		return ""
	}
	if a.Type() != b.Type() {
		return fmt.Sprintf("%s: type %v vs %v", path, a.Type(), b.Type())
	}
	if a.Type() == timeType && a.CanInterface() {
		if !a.Interface().(time.Time).Equal(b.Interface().(time.Time)) {
			return fmt.Sprintf("%s: time %v vs %v", path, a.Interface(), b.Interface())
		}
		return ""
	}
	if a.Kind() == reflect.Struct && a.Type().ConvertibleTo(timeType) && a.CanInterface() {
		x, y := a.Convert(timeType).Interface().(time.Time), b.Convert(timeType).Interface().(time.Time)
		if !x.Equal(y) {
			return fmt.Sprintf("%s: time %v vs %v", path, x, y)
		}
		return ""
	}
	if a.Type() == accType && a.CanInterface() {
		// only the trees named by the bits of NumLeaves are part of the value
		// (the others are not encoded and are never read)
		x, y := a.Interface().(consensus.ElementAccumulator), b.Interface().(consensus.ElementAccumulator)
		if x.NumLeaves != y.NumLeaves {
			return fmt.Sprintf("%s.NumLeaves: %d vs %d", path, x.NumLeaves, y.NumLeaves)
		}
		for i := range x.Trees {
			if x.NumLeaves&(1<<i) != 0 && x.Trees[i] != y.Trees[i] {
				return fmt.Sprintf("%s.Trees[%d]: %v vs %v", path, i, x.Trees[i], y.Trees[i])
			}
		}
		return ""
	}
	switch a.Kind() {
	case reflect.Bool:
		if a.Bool() != b.Bool() {
			return fmt.Sprintf("%s: %v vs %v", path, a.Bool(), b.Bool())
		}
	case reflect.Int, reflect.Int8, reflect.Int16, reflect.Int32, reflect.Int64:
		if a.Int() != b.Int() {
			return fmt.Sprintf("%s: %v vs %v", path, a.Int(), b.Int())
		}
	case reflect.Uint, reflect.Uint8, reflect.Uint16, reflect.Uint32, reflect.Uint64, reflect.Uintptr:
		if a.Uint() != b.Uint() {
			return fmt.Sprintf("%s: %v vs %v", path, a.Uint(), b.Uint())
		}
	case reflect.String:
		if a.String() != b.String() {
			return fmt.Sprintf("%s: %q vs %q", path, trunc(a.String(), 40), trunc(b.String(), 40))
		}
	case reflect.Array:
		if a.Type().Elem().Kind() == reflect.Uint8 {
			for i := 0; i < a.Len(); i++ {
				if a.Index(i).Uint() != b.Index(i).Uint() {
					return fmt.Sprintf("%s[%d]: byte %#x vs %#x", path, i, a.Index(i).Uint(), b.Index(i).Uint())
				}
			}
			return ""
		}
		for i := 0; i < a.Len(); i++ {
			if d := eqv(a.Index(i), b.Index(i), fmt.Sprintf("%s[%d]", path, i)); d != "" {
				return d
			}
		}
	case reflect.Slice:
		if a.Len() != b.Len() {
			return fmt.Sprintf("%s: len %d vs %d", path, a.Len(), b.Len())
		}
		if a.Len() == 0 {
			return ""
		}
		ek := a.Type().Elem().Kind()
		if ek == reflect.Uint8 {
			if a.CanInterface() && b.CanInterface() && a.Type().Elem() == reflect.TypeOf(byte(0)) {
				x, y := a.Bytes(), b.Bytes()
				for i := range x {
					if x[i] != y[i] {
						return fmt.Sprintf("%s[%d]: byte %#x vs %#x", path, i, x[i], y[i])
					}
				}
				return ""
			}
		}
		// fast path for big slices of 32-byte arrays
		if ek == reflect.Array && a.Type().Elem().Len() == 32 && a.Type().Elem().Elem().Kind() == reflect.Uint8 && a.CanInterface() {
			if x, ok := a.Interface().([]types.Hash256); ok {
				y := b.Interface().([]types.Hash256)
				for i := range x {
					if x[i] != y[i] {
						return fmt.Sprintf("%s[%d]: hash %v vs %v", path, i, x[i], y[i])
					}
				}
				return ""
			}
		}
		if ek == reflect.Uint64 && a.CanInterface() {
			if x, ok := a.Interface().([]uint64); ok {
				y := b.Interface().([]uint64)
				for i := range x {
					if x[i] != y[i] {
						return fmt.Sprintf("%s[%d]: %d vs %d", path, i, x[i], y[i])
					}
				}
				return ""
			}
		}
		if ek == reflect.Bool && a.CanInterface() {
			if x, ok := a.Interface().([]bool); ok {
				y := b.Interface().([]bool)
				for i := range x {
					if x[i] != y[i] {
						return fmt.Sprintf("%s[%d]: %v vs %v", path, i, x[i], y[i])
					}
				}
				return ""
			}
		}
		for i := 0; i < a.Len(); i++ {
			if d := eqv(a.Index(i), b.Index(i), fmt.Sprintf("%s[%d]", path, i)); d != "" {
				return d
			}
		}
	case reflect.Struct:
		for i := 0; i < a.NumField(); i++ {
			if a.Type() == stateType && a.Type().Field(i).Name == "Network" {
				continue // documented: network parameters are not encoded with a State
			}
			if d := eqv(a.Field(i), b.Field(i), path+"."+a.Type().Field(i).Name); d != "" {
				return d
			}
		}
	case reflect.Ptr:
		if a.IsNil() != b.IsNil() {
			return fmt.Sprintf("%s: nil %v vs %v", path, a.IsNil(), b.IsNil())
		}
		if a.IsNil() {
			return ""
		}
		return eqv(a.Elem(), b.Elem(), path)
	case reflect.Interface:
		if a.IsNil() != b.IsNil() {
			return fmt.Sprintf("%s: nil interface %v vs %v", path, a.IsNil(), b.IsNil())
		}
		if a.IsNil() {
			return ""
		}
		if a.Type() == errorType && a.CanInterface() {
			if x, y := a.Interface().(error).Error(), b.Interface().(error).Error(); x != y {
				return fmt.Sprintf("%s: error %q vs %q", path, trunc(x, 40), trunc(y, 40))
			}
			return ""
		}
		return eqv(a.Elem(), b.Elem(), path)
	case reflect.Map:
		if a.Len() != b.Len() {
			return fmt.Sprintf("%s: map len %d vs %d", path, a.Len(), b.Len())
		}
		for _, k := range a.MapKeys() {
			if d := eqv(a.MapIndex(k), b.MapIndex(k), fmt.Sprintf("%s[%v]", path, k)); d != "" {
				return d
			}
		}
	default:
		return fmt.Sprintf("%s: unhandled kind %v", path, a.Kind())
	}
	return ""
}

func trunc(s string, n int) string {
	if len(s) > n {
		return s[:n] + "…"
	}
	return s
}

var errWatchdog = errors.New("watchdog")

func typeName(v any) string {
	t := reflect.TypeOf(v)
	for t.Kind() == reflect.Ptr {
		t = t.Elem()
	}
	return t.String()
}
