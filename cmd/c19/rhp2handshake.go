package main

import (
	"bytes"
	"fmt"
	"io"
	"net"
	"strings"
	"time"

	rhp2 "go.sia.tech/core/rhp/v2"
	"go.sia.tech/core/types"
	"verif/internal/harness"
)

// runR2HandshakeRejection: the one error the rhp2 handshake itself can deliver. A renter that proposes only ciphers
// the host does not know must receive the host's "no overlap" answer (whatever one side writes is what the other
// side reads), and a renter that receives that answer must report it as such.
func runR2HandshakeRejection(b *harness.B) {
	sk := types.NewPrivateKeyFromSeed(bytes.Repeat([]byte{7}, 32))
	// (a) host side: hand-written key exchange request with an unknown cipher only
	{
		hc, rc := net.Pipe()
		hc.SetDeadline(time.Now().Add(10 * time.Second))
		rc.SetDeadline(time.Now().Add(10 * time.Second))
		herr := make(chan error, 1)
		go func() {
			_, err := rhp2.NewHostTransport(hc, sk)
			herr <- err
			hc.Close()
		}()
		var req bytes.Buffer
		e := types.NewEncoder(&req)
		types.NewSpecifier("LoopEnter").EncodeTo(e)
		e.Write(make([]byte, 32)) // renter's x25519 key (unused by a rejection)
		types.EncodeSlice(e, []types.Specifier{types.NewSpecifier("Threefish512")})
		e.Flush()
		go rc.Write(req.Bytes())
		got, _ := io.ReadAll(rc)
		err := <-herr
		b.Eval(1)
		b.Count("rhp2_handshake_rejections_host_side", 1)
		wit := map[string]any{"host_error": fmt.Sprint(err), "bytes_received_by_renter": len(got)}
		if err == nil || !strings.Contains(err.Error(), "no supported ciphers") {
			b.Inconclusive("rhp2 host did not reject the unknown cipher: " + fmt.Sprint(err))
		} else {
			d := types.NewBufDecoder(got)
			var pk [32]byte
			d.Read(pk[:])
			d.ReadBytes()
			var c types.Specifier
			c.DecodeFrom(d)
			if d.Err() != nil || c != types.NewSpecifier("NoOverlap") {
				b.Violate("C19/transport/rhp2/handshake-rejection-not-delivered", fmt.Sprintf("the host answered the key exchange with a NoOverlap response and reported %q, but the renter received %d bytes that do not decode to it", err, len(got)), wit)
			}
		}
	}
	// (b) renter side: a host answering NoOverlap (no key, no signature: there is no session to authenticate)
	{
		hc, rc := net.Pipe()
		hc.SetDeadline(time.Now().Add(10 * time.Second))
		rc.SetDeadline(time.Now().Add(10 * time.Second))
		go func() {
			io.CopyN(io.Discard, hc, 16+32+8+16) // the renter's request
			var resp bytes.Buffer
			e := types.NewEncoder(&resp)
			e.Write(make([]byte, 32))
			e.WriteBytes(make([]byte, 64))
			types.NewSpecifier("NoOverlap").EncodeTo(e)
			e.Flush()
			hc.Write(resp.Bytes())
			time.Sleep(50 * time.Millisecond)
			hc.Close()
		}()
		_, err := rhp2.NewRenterTransport(rc, sk.PublicKey())
		rc.Close()
		b.Eval(1)
		b.Count("rhp2_handshake_rejections_renter_side", 1)
		if err == nil {
			b.Violate("C19/transport/rhp2/handshake-rejection-accepted", "the renter completed a handshake the host rejected", nil)
		} else if !strings.Contains(err.Error(), "does not support any of our proposed ciphers") {
			b.Violate("C19/transport/rhp2/handshake-rejection-delivered-as-another-error", fmt.Sprintf("the host's NoOverlap answer reached the renter as %q", err), map[string]any{"error": err.Error()})
		}
	}
}
