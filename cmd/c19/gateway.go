package main

// Gateway objects: fits-its-own-limit, and the weight-versus-bytes analysis of
// the block- and transaction-carrying RPCs (batch 1).

import (
	"bytes"
	"fmt"
	"io"
	"math"
	"math/bits"
	"strings"
	"time"

	"go.sia.tech/core/consensus"
	"go.sia.tech/core/gateway"
	"go.sia.tech/core/types"
	"verif/internal/harness"
)

// declared receiver limits of the gateway protocol (from its definition)
func gwDeclaredReq(o gateway.Object) int {
	switch o.(type) {
	case *gateway.RPCShareNodes, *gateway.RPCDiscoverIP:
		return 0
	case *gateway.RPCSendHeaders:
		return 8 + 32 + 8
	case *gateway.RPCSendV2Blocks:
		return 8 + 32*32 + 8
	case *gateway.RPCSendTransactions:
		return 8 + 32 + 8 + 100*32
	case *gateway.RPCSendCheckpoint:
		return 8 + 32
	case *gateway.RPCRelayV2Header:
		return 8 + 32 + 32 + 8
	case *gateway.RPCRelayV2BlockOutline, *gateway.RPCRelayV2TransactionSet:
		return 5e6
	}
	return -1
}

func gwDeclaredResp(o gateway.Object) int {
	switch r := o.(type) {
	case *gateway.RPCShareNodes:
		return 8 + 100*128 // since the fix of the missing slice prefix
	case *gateway.RPCDiscoverIP:
		return 128
	case *gateway.RPCSendHeaders:
		return 8 + int(min(r.Max, (math.MaxInt-16)/80))*80 + 8 // Max capped so that the product cannot wrap
	case *gateway.RPCSendV2Blocks:
		return 8 + int(min(r.Max, (math.MaxInt-16)/5000000))*5e6 + 8 // since the fix that made room for the prefix and Remaining
	case *gateway.RPCSendTransactions:
		return 5e6
	case *gateway.RPCSendCheckpoint:
		return 5e6 + 4e3
	case *gateway.RPCRelayV2Header, *gateway.RPCRelayV2BlockOutline, *gateway.RPCRelayV2TransactionSet:
		return 0
	}
	return -1
}

func gwName(o gateway.Object) string { return "gateway." + typeName(o)[len("gateway."):] }

// gwRoundTrip: o is written with the real encoder; recv is the receiver's
// object (request parameters already set for responses); after decoding recv
// must equal o.
func gwRoundTrip(b *harness.B, o, recv gateway.Object, isResp bool, variant string, wit map[string]any) (int, bool) {
	b.Eval(1)
	name := gwName(o)
	half := "request"
	if isResp {
		half = "response"
	}
	var buf bytes.Buffer
	var err error
	var limit, declared int
	if isResp {
		err = gateway.VerifEncodeResponse(o, &buf)
		limit, declared = gateway.VerifMaxResponseLen(recv), gwDeclaredResp(recv)
	} else {
		err = gateway.VerifEncodeRequest(o, &buf)
		limit, declared = gateway.VerifMaxRequestLen(recv), gwDeclaredReq(recv)
	}
	if wit == nil {
		wit = map[string]any{}
	}
	wit["type"], wit["half"], wit["variant"], wit["encoded_bytes"], wit["receiver_limit"] = name, half, variant, buf.Len(), limit
	if err != nil {
		b.Violate("C19/write-error/"+name, err.Error(), wit)
		return 0, false
	}
	if limit != declared {
		b.Count("gateway_limit_differs_from_declared_table", 1)
		b.SetAdd("gateway_limit_mismatch", fmt.Sprintf("%s %s: receiver %d declared %d", name, half, limit, declared))
	}
	b.Distinct("gw-fits", name, half, variant, sizeClass(buf.Len()))
	b.MaxOf("encoded_bytes_max/"+name+"/"+half, int64(buf.Len()))
	enc := buf.Bytes()
	cr := &countReader{r: bytes.NewReader(append(append([]byte(nil), enc...), 0xA5, 0x5A))}
	if isResp {
		err = gateway.VerifDecodeResponse(recv, cr)
	} else {
		err = gateway.VerifDecodeRequest(recv, cr)
	}
	if err != nil {
		wit["read_error"] = err.Error()
		key := "C19/exceeds-maxLen/" + name + "/" + variant
		if len(enc) <= declared {
			key = "C19/rejects-valid/" + name + "/" + variant
		}
		b.Violate(key, fmt.Sprintf("%s %s (%s, %d bytes; receiver limit %d) refused: %v", name, half, variant, len(enc), limit, err), wit)
		return len(enc), false
	}
	if d := equalObj(o, recv); d != "" {
		wit["difference"] = d
		b.Violate("C19/roundtrip-mismatch/"+name+"/"+half, "decoded object differs at "+d, wit)
		return len(enc), false
	}
	if cr.n != int64(len(enc)) && !(limit == 0 && cr.n == 0) {
		wit["pulled"] = cr.n
		b.Violate("C19/framing-desync/"+name+"/"+half, fmt.Sprintf("reader consumed %d of %d bytes", cr.n, len(enc)), wit)
		return len(enc), false
	}
	return len(enc), true
}

// ---- consistent multiproof material ----

// leafAllocator hands out state elements whose (leaf index, proof length)
// pairs are those of distinct leaves of an accumulator with numLeaves leaves.
type leafAllocator struct {
	g         G
	numLeaves uint64
	used      map[uint64]bool
	next      func() uint64 // optional deterministic index source
}

func (a *leafAllocator) alloc() types.StateElement {
	for {
		var i uint64
		if a.next != nil {
			i = a.next()
		} else {
			i = a.g.u64() % a.numLeaves
		}
		if a.used[i] {
			continue
		}
		a.used[i] = true
		return types.StateElement{LeafIndex: i, MerkleProof: a.g.hashes(bits.Len64(i^a.numLeaves) - 1)}
	}
}

// fixpoint returns txns with proofs made mutually consistent: the library's
// own multiproof expansion recomputes every proof hash from the leaf hashes
// and the transmitted multiproof, so decode(encode(x)) is a consistent set.
func fixpoint(txns []types.V2Transaction) ([]types.V2Transaction, error) {
	var buf bytes.Buffer
	e := types.NewEncoder(&buf)
	types.V2TransactionsMultiproof(txns).EncodeTo(e)
	e.Flush()
	var out types.V2TransactionsMultiproof
	d := types.NewBufDecoder(buf.Bytes())
	out.DecodeFrom(d)
	return out, d.Err()
}

func (g G) header() types.BlockHeader {
	return types.BlockHeader{ParentID: types.BlockID(g.hash()), Nonce: g.u64(), Timestamp: g.tm(), Commitment: g.hash()}
}

func (g G) headers(n int) []types.BlockHeader {
	var out []types.BlockHeader
	for i := 0; i < n; i++ {
		out = append(out, g.header())
	}
	return out
}

// block returns a random block whose v2 transactions carry consistent proofs.
func (g G) block(nV1, nV2 int) types.Block {
	b := types.Block{ParentID: types.BlockID(g.hash()), Nonce: g.u64(), Timestamp: g.tm(), MinerPayouts: g.scos(1 + g.n(2)), Transactions: g.v1txns(nV1)}
	if nV2 >= 0 {
		numLeaves := uint64(1)<<uint(10+g.n(30)) | g.u64()>>uint(24+g.n(30))
		al := &leafAllocator{g: g, numLeaves: numLeaves, used: map[uint64]bool{}}
		g2 := g
		g2.alloc = al.alloc
		txns, err := fixpoint(g2.v2txns(nV2, 0))
		if err != nil {
			panic(err)
		}
		b.V2 = &types.V2BlockData{Height: g.small(), Commitment: g.hash(), Transactions: txns}
		if len(b.V2.Transactions) == 0 {
			b.V2.Transactions = nil
		}
	}
	return b
}

func (g G) state() consensus.State {
	var s consensus.State
	s.Index = g.chainIndex()
	s.Index.Height = 11 + s.Index.Height>>1 // all 11 timestamps encoded
	for i := range s.PrevTimestamps {
		s.PrevTimestamps[i] = g.tm()
	}
	s.Depth, s.ChildTarget, s.OakTarget = types.BlockID(g.hash()), types.BlockID(g.hash()), types.BlockID(g.hash())
	s.SiafundTaxRevenue = g.cur()
	s.OakTime = time.Duration(g.u64() >> 2)
	s.FoundationSubsidyAddress, s.FoundationManagementAddress = g.addr(), g.addr()
	for _, w := range []*consensus.Work{&s.TotalWork, &s.Difficulty, &s.OakWork} {
		w.DecodeFrom(types.NewBufDecoder(g.bytes(32)))
	}
	s.Elements.NumLeaves = g.u64()
	if g.n(3) == 0 {
		s.Elements.NumLeaves = ^uint64(0)
	}
	for i := range s.Elements.Trees {
		if s.Elements.NumLeaves&(1<<i) != 0 {
			s.Elements.Trees[i] = g.hash()
		}
	}
	s.Attestations = g.small()
	return s
}

func ipv6Peer(g G) string {
	return fmt.Sprintf("[%04x:%04x:%04x:%04x:%04x:%04x:%04x:%04x]:%d", g.n(65536), g.n(65536), g.n(65536), g.n(65536), g.n(65536), g.n(65536), g.n(65536), g.n(65536), 10000+g.n(55536))
}

func runGatewayFits(b *harness.B) {
	g := G{r: b.Rng}
	n := b.Pick(25, 400)
	for i := 0; i < n+1; i++ {
		max := i == 0
		variant := "random-instance"
		if max {
			variant = "max-valid-instance"
		}
		cnt := func(limit int) int {
			if max {
				return limit
			}
			return rndCount(g, limit)
		}
		ok := true
		// ShareNodes (response only; no protocol count limit: 100 longest-form addresses)
		{
			var peers []string
			for j, m := 0, cnt(100); j < m; j++ {
				if max || g.n(2) == 0 {
					peers = append(peers, ipv6Peer(g))
				} else {
					peers = append(peers, fmt.Sprintf("%d.%d.%d.%d:%d", g.n(256), g.n(256), g.n(256), g.n(256), g.n(65536)))
				}
			}
			_, k := gwRoundTrip(b, &gateway.RPCShareNodes{Peers: peers}, &gateway.RPCShareNodes{}, true, variant, nil)
			ok = ok && k
			if max {
				// the longest address a peer can announce: the handshake header (32+8+128 bytes) leaves 120 bytes for it
				long := make([]string, 100)
				for j := range long {
					host := strings.Repeat("a", 120-len(".example:65535")-3) + fmt.Sprintf("%03d", j)
					long[j] = host + ".example:65535"
				}
				_, k = gwRoundTrip(b, &gateway.RPCShareNodes{Peers: long}, &gateway.RPCShareNodes{}, true, "max-valid-instance/100-peers-with-120-byte-addresses", nil)
				ok = ok && k
			}
			_, k = gwRoundTrip(b, &gateway.RPCShareNodes{}, &gateway.RPCShareNodes{}, false, variant, nil)
			ok = ok && k
		}
		{
			ip := "ffff:ffff:ffff:ffff:ffff:ffff:255.255.255.255"
			if !max {
				ip = g.str(g.n(46))
			}
			_, k := gwRoundTrip(b, &gateway.RPCDiscoverIP{IP: ip}, &gateway.RPCDiscoverIP{}, true, variant, nil)
			ok = ok && k
		}
		{
			mx := uint64(cnt(2000))
			if max {
				mx = 10000
			}
			req := &gateway.RPCSendHeaders{Index: g.chainIndex(), Max: mx}
			_, k := gwRoundTrip(b, req, &gateway.RPCSendHeaders{}, false, variant, nil)
			ok = ok && k
			nh := int(mx)
			if !max && g.n(2) == 0 {
				nh = g.n(int(mx) + 1)
			}
			resp := &gateway.RPCSendHeaders{Index: req.Index, Max: mx, Headers: g.headers(nh), Remaining: g.small()}
			_, k = gwRoundTrip(b, resp, &gateway.RPCSendHeaders{Index: req.Index, Max: mx}, true, variant, nil)
			ok = ok && k
		}
		if max {
			// a requester that sets no practical bound: the limit derived from Max must not wrap
			for _, mx := range []uint64{1 << 60, 0x0333333333333333, 1<<64 - 1, 1 << 62, 1 << 32} {
				idx := g.chainIndex()
				resp := &gateway.RPCSendHeaders{Index: idx, Max: mx, Headers: g.headers(2), Remaining: 7}
				_, k := gwRoundTrip(b, resp, &gateway.RPCSendHeaders{Index: idx, Max: mx}, true, "huge-max", nil)
				ok = ok && k
				bresp := &gateway.RPCSendV2Blocks{Max: mx, Blocks: []types.Block{g.block(1, 1)}, Remaining: 7}
				_, k = gwRoundTrip(b, bresp, &gateway.RPCSendV2Blocks{Max: mx}, true, "huge-max", nil)
				ok = ok && k
			}
		}
		{
			var hist []types.BlockID
			for j, m := 0, cnt(32); j < m; j++ {
				hist = append(hist, types.BlockID(g.hash()))
			}
			mx := uint64(g.n(5)) // including a request for no blocks at all: the response still carries Remaining
			req := &gateway.RPCSendV2Blocks{History: hist, Max: mx}
			_, k := gwRoundTrip(b, req, &gateway.RPCSendV2Blocks{}, false, variant, nil)
			ok = ok && k
			var blocks []types.Block
			for j := 0; j < int(mx); j++ {
				blocks = append(blocks, g.block(g.n(3), g.n(6)-1))
			}
			resp := &gateway.RPCSendV2Blocks{History: hist, Max: mx, Blocks: blocks, Remaining: g.small()}
			_, k = gwRoundTrip(b, resp, &gateway.RPCSendV2Blocks{History: hist, Max: mx}, true, "random-blocks", nil)
			ok = ok && k
		}
		{
			req := &gateway.RPCSendTransactions{Index: g.chainIndex(), Hashes: g.hashes(cnt(100))}
			_, k := gwRoundTrip(b, req, &gateway.RPCSendTransactions{}, false, variant, nil)
			ok = ok && k
			resp := &gateway.RPCSendTransactions{Index: req.Index, Hashes: req.Hashes, Transactions: g.v1txns(g.n(4)), V2Transactions: g.v2txns(g.n(5), g.n(40))}
			_, k = gwRoundTrip(b, resp, &gateway.RPCSendTransactions{Index: req.Index, Hashes: req.Hashes}, true, "random-transactions", nil)
			ok = ok && k
		}
		{
			req := &gateway.RPCSendCheckpoint{Index: g.chainIndex()}
			_, k := gwRoundTrip(b, req, &gateway.RPCSendCheckpoint{}, false, variant, nil)
			ok = ok && k
			resp := &gateway.RPCSendCheckpoint{Index: req.Index, Block: g.block(g.n(3), g.n(6)-1), State: g.state()}
			if max {
				resp.State.Elements.NumLeaves = ^uint64(0)
				for j := range resp.State.Elements.Trees {
					resp.State.Elements.Trees[j] = g.hash()
				}
			}
			_, k = gwRoundTrip(b, resp, &gateway.RPCSendCheckpoint{Index: req.Index}, true, "random-block-"+variant+"-state", nil)
			ok = ok && k
		}
		{
			_, k := gwRoundTrip(b, &gateway.RPCRelayV2Header{Header: g.header()}, &gateway.RPCRelayV2Header{}, false, variant, nil)
			ok = ok && k
		}
		{
			blk := g.block(g.n(3), g.n(8))
			if len(blk.MinerPayouts) > 1 {
				blk.MinerPayouts = blk.MinerPayouts[:1]
			}
			// omit a random subset (the receiver is assumed to have those)
			var om1 []types.Transaction
			var om2 []types.V2Transaction
			for _, t := range blk.Transactions {
				if g.n(3) == 0 {
					om1 = append(om1, t)
				}
			}
			for _, t := range blk.V2.Transactions {
				if g.n(3) == 0 {
					om2 = append(om2, t)
				}
			}
			ol := gateway.OutlineBlock(blk, om1, om2)
			_, k := gwRoundTrip(b, &gateway.RPCRelayV2BlockOutline{Block: ol}, &gateway.RPCRelayV2BlockOutline{}, false, "random-outline", nil)
			ok = ok && k
		}
		{
			req := &gateway.RPCRelayV2TransactionSet{Index: g.chainIndex(), Transactions: g.v2txns(1+g.n(5), g.n(40))}
			_, k := gwRoundTrip(b, req, &gateway.RPCRelayV2TransactionSet{}, false, "random-transactions", nil)
			ok = ok && k
		}
		if ok {
			if max {
				b.Count("objects_max_size_roundtrips", 1)
			} else {
				b.Count("objects_random_roundtrips", 1)
			}
		}
	}
}

// ---- weight versus bytes ----

type weightRow struct {
	Shape        string `json:"shape"`
	Log2Leaves   int    `json:"log2_accumulator_leaves,omitempty"`
	Spread       string `json:"leaf_spread,omitempty"`
	Txns         int    `json:"transactions"`
	Inputs       int    `json:"inputs"`
	Weight       uint64 `json:"weight"`
	Validated    bool   `json:"validated_by_ValidateBlock"`
	SendV2Blocks int    `json:"SendV2Blocks_response_bytes"`
	Checkpoint   int    `json:"SendCheckpoint_response_bytes"`
	Outline      int    `json:"RelayV2BlockOutline_request_bytes"`
	SendTxns     int    `json:"SendTransactions_response_bytes"`
	RelayTxns    int    `json:"RelayV2TransactionSet_request_bytes"`
	keySuffix    string // distinguishes the cause in finding keys
}

type encCase struct {
	rpc     string
	enc     func(w io.Writer) error
	limit   int
	recv    func() gateway.Object
	isResp  bool
	orig    gateway.Object
	applies bool
}

type lenWriter struct{ n int }

func (l *lenWriter) Write(p []byte) (int, error) { l.n += len(p); return len(p), nil }

// measureBlock encodes blk through every block/transaction-carrying RPC,
// judges each against the receiver's limit and (when consistent is true and it
// fits) round-trips it for equality.
func measureBlock(b *harness.B, blk types.Block, row *weightRow, consistent bool, cs consensus.State) {
	hashes := []types.Hash256{}
	nt := len(blk.Transactions) + len(blk.V2Transactions())
	for i := 0; i < nt && i < 100; i++ {
		hashes = append(hashes, types.Hash256{byte(i)})
	}
	v2 := blk.V2Transactions()
	if len(v2) > 100-min(100, len(blk.Transactions)) {
		v2 = v2[:100-min(100, len(blk.Transactions))]
	}
	v1 := blk.Transactions
	if len(v1) > 100 {
		v1 = v1[:100]
	}
	idx := types.ChainIndex{Height: 7, ID: blk.ID()}
	cases := []struct {
		rpc    string
		o      gateway.Object
		recv   gateway.Object
		isResp bool
		out    *int
		key    string
	}{
		{"RPCSendV2Blocks", &gateway.RPCSendV2Blocks{Max: 1, Blocks: []types.Block{blk}, Remaining: 3}, &gateway.RPCSendV2Blocks{Max: 1}, true, &row.SendV2Blocks, "max-weight-block"},
		{"RPCSendCheckpoint", &gateway.RPCSendCheckpoint{Index: idx, Block: blk, State: cs}, &gateway.RPCSendCheckpoint{Index: idx}, true, &row.Checkpoint, "max-weight-block"},
		{"RPCRelayV2BlockOutline", &gateway.RPCRelayV2BlockOutline{Block: gateway.OutlineBlock(blk, nil, nil)}, &gateway.RPCRelayV2BlockOutline{}, false, &row.Outline, "max-weight-block"},
		{"RPCSendTransactions", &gateway.RPCSendTransactions{Index: idx, Hashes: hashes, Transactions: v1, V2Transactions: v2}, &gateway.RPCSendTransactions{Index: idx, Hashes: hashes}, true, &row.SendTxns, "max-weight-txnset"},
		{"RPCRelayV2TransactionSet", &gateway.RPCRelayV2TransactionSet{Index: idx, Transactions: blk.V2Transactions()}, &gateway.RPCRelayV2TransactionSet{}, false, &row.RelayTxns, "max-weight-txnset"},
	}
	for _, c := range cases {
		b.Eval(1)
		var lw lenWriter
		var limit int
		if c.isResp {
			gateway.VerifEncodeResponse(c.o, &lw)
			limit = gateway.VerifMaxResponseLen(c.recv)
		} else {
			gateway.VerifEncodeRequest(c.o, &lw)
			limit = gateway.VerifMaxRequestLen(c.recv)
		}
		*c.out = lw.n
		fits := lw.n <= limit
		b.Distinct("weight", c.rpc, row.Shape, row.Log2Leaves, row.Spread, fits)
		b.MaxOf("max_weight_bytes/"+c.rpc, int64(lw.n))
		b.Count("weight_vs_bytes_measurements", 1)
		wit := map[string]any{"rpc": "gateway." + c.rpc, "shape": row.Shape, "log2_accumulator_leaves": row.Log2Leaves, "leaf_spread": row.Spread, "transactions": row.Txns, "inputs": row.Inputs,
			"consensus_weight": row.Weight, "max_block_weight": cs.MaxBlockWeight(), "encoded_bytes": lw.n, "receiver_limit": limit, "validated_by_ValidateBlock": row.Validated}
		if fits {
			if consistent {
				if _, ok := gwRoundTrip(b, c.o, c.recv, c.isResp, "max-weight", wit); ok {
					b.Count("objects_max_size_roundtrips", 1)
					b.Count("max_weight_blocks_roundtripped", 1)
				}
			}
			continue
		}
		// confirm with the real decoder (sizes up to a few tens of MB)
		var buf bytes.Buffer
		if c.isResp {
			gateway.VerifEncodeResponse(c.o, &buf)
		} else {
			gateway.VerifEncodeRequest(c.o, &buf)
		}
		var err error
		cr := &countReader{r: &buf}
		if c.isResp {
			err = gateway.VerifDecodeResponse(c.recv, cr)
		} else {
			err = gateway.VerifDecodeRequest(c.recv, cr)
		}
		wit["pulled"] = cr.n
		if err == nil {
			b.Violate("C19/limit-not-applied/gateway."+c.rpc, fmt.Sprintf("%d-byte message accepted although the limit is %d", lw.n, limit), wit)
			continue
		}
		wit["read_error"] = err.Error()
		b.Violate("C19/exceeds-maxLen/gateway."+c.rpc+"/"+c.key+row.keySuffix,
			fmt.Sprintf("block/transaction set of consensus weight %d (limit %d; shape %s) encodes to %d bytes for %s, the receiver reads at most %d: %v", row.Weight, cs.MaxBlockWeight(), row.Shape, lw.n, c.rpc, limit, err), wit)
	}
}

func testNetwork() (*consensus.Network, types.Block) {
	n := &consensus.Network{Name: "c19", InitialCoinbase: types.Siacoins(300000), MinimumCoinbase: types.Siacoins(300000), InitialTarget: types.BlockID{0xFF}, BlockInterval: 10 * time.Minute, MaturityDelay: 0}
	n.HardforkOak.GenesisTimestamp = time.Unix(1618033988, 0)
	n.HardforkASIC.OakTime = 10000 * time.Second
	n.HardforkASIC.OakTarget = n.InitialTarget
	n.HardforkASIC.NonceFactor = 1
	n.HardforkFoundation.PrimaryAddress = types.AnyoneCanSpend().Address()
	n.HardforkFoundation.FailsafeAddress = types.VoidAddress
	// everything active from genesis on; v2 allowed from height 1
	n.HardforkV2.AllowHeight = 1
	n.HardforkV2.RequireHeight = 1
	n.HardforkV2.FinalCutHeight = 1 << 40
	return n, types.Block{Timestamp: n.HardforkOak.GenesisTimestamp}
}

func sealV2(cs consensus.State, txns []types.V2Transaction, minerAddr types.Address) types.Block {
	blk := types.Block{ParentID: cs.Index.ID, Timestamp: cs.PrevTimestamps[0].Add(time.Second), MinerPayouts: []types.SiacoinOutput{{Address: minerAddr, Value: cs.BlockReward()}},
		V2: &types.V2BlockData{Height: cs.Index.Height + 1, Transactions: txns}}
	for _, t := range txns {
		blk.MinerPayouts[0].Value = blk.MinerPayouts[0].Value.Add(t.MinerFee)
	}
	blk.V2.Commitment = cs.Commitment(minerAddr, nil, txns)
	for blk.Nonce%cs.NonceFactor() != 0 {
		blk.Nonce++
	}
	for i := 0; blk.ID().CmpWork(cs.PoWTarget()) < 0 && i < 1<<20; i++ {
		blk.Nonce += cs.NonceFactor()
	}
	return blk
}

func runWeightVsBytes(b *harness.B) {
	g := G{r: b.SubRng("weight")}
	acs := types.AnyoneCanSpend()
	acsAddr := acs.Address()
	var zero consensus.State
	maxW := zero.MaxBlockWeight()

	mkInput := func(se types.StateElement) types.V2SiacoinInput {
		return types.V2SiacoinInput{Parent: types.SiacoinElement{ID: types.SiacoinOutputID(g.hash()), StateElement: se, SiacoinOutput: types.SiacoinOutput{Value: types.NewCurrency64(1), Address: acsAddr}}, SatisfiedPolicy: types.SatisfiedPolicy{Policy: acs}}
	}
	inputWeight := zero.V2TransactionWeight(types.V2Transaction{SiacoinInputs: []types.V2SiacoinInput{mkInput(types.StateElement{})}})
	M := int(maxW / inputWeight)
	b.MaxOf("cheapest_input_weight", int64(inputWeight))
	b.MaxOf("inputs_in_max_weight_block", int64(M))
	var rows []weightRow

	// (1) real chain: a genuinely valid maximal-input block, real proofs
	{
		n, genesis := testNetwork()
		var gtx types.Transaction
		for i := 0; i < M; i++ {
			gtx.SiacoinOutputs = append(gtx.SiacoinOutputs, types.SiacoinOutput{Value: types.NewCurrency64(1), Address: acsAddr})
		}
		genesis.Transactions = []types.Transaction{gtx}
		cs, au := consensus.ApplyBlock(n.GenesisState(), genesis, consensus.V1BlockSupplement{Transactions: make([]consensus.V1TransactionSupplement, 1)}, time.Time{})
		var ins []types.V2SiacoinInput
		for _, d := range au.SiacoinElementDiffs() {
			if d.SiacoinElement.SiacoinOutput.Address == acsAddr && len(ins) < M {
				ins = append(ins, types.V2SiacoinInput{Parent: d.SiacoinElement.Copy(), SatisfiedPolicy: types.SatisfiedPolicy{Policy: acs}})
			}
		}
		txn := types.V2Transaction{SiacoinInputs: ins, MinerFee: types.NewCurrency64(uint64(len(ins)))}
		blk := sealV2(cs, []types.V2Transaction{txn}, g.addr())
		row := weightRow{Shape: "one transaction, cheapest inputs, real chain", Log2Leaves: bits.Len64(cs.Elements.NumLeaves) - 1, Spread: "dense", Txns: 1, Inputs: len(ins), Weight: cs.V2TransactionWeight(txn)}
		b.Eval(1)
		if err := consensus.ValidateBlock(cs, blk, consensus.V1BlockSupplement{}); err != nil {
			b.Inconclusive("generator: maximal-input block rejected by ValidateBlock: " + err.Error())
		} else {
			row.Validated = true
			b.Count("max_weight_blocks_validated_by_ValidateBlock", 1)
			measureBlock(b, blk, &row, true, cs)
			rows = append(rows, row)
		}

		// (1b) a light block: one spend of an output created in the block, whose parent carries Merkle proof hashes.
		// Nothing validates, weighs or compresses the proof of an in-block parent, yet it travels with the block.
		if len(ins) >= 1 {
			t1 := types.V2Transaction{SiacoinInputs: []types.V2SiacoinInput{ins[0]}, SiacoinOutputs: []types.SiacoinOutput{{Value: types.NewCurrency64(1), Address: acsAddr}}}
			eph := t1.EphemeralSiacoinOutput(0)
			eph.StateElement.MerkleProof = make([]types.Hash256, 170000)
			t2 := types.V2Transaction{SiacoinInputs: []types.V2SiacoinInput{{Parent: eph, SatisfiedPolicy: types.SatisfiedPolicy{Policy: acs}}}, MinerFee: types.NewCurrency64(1)}
			blk3 := sealV2(cs, []types.V2Transaction{t1, t2}, g.addr())
			row3 := weightRow{Shape: "light block: in-block parent carrying 170000 proof hashes", Txns: 2, Inputs: 2, Weight: cs.V2TransactionWeight(t1) + cs.V2TransactionWeight(t2), keySuffix: "/unvalidated-proof-on-an-in-block-parent"}
			b.Eval(1)
			if err := consensus.ValidateBlock(cs, blk3, consensus.V1BlockSupplement{}); err != nil {
				b.Count("light_block_with_attached_proof_rejected_by_ValidateBlock", 1)
				b.SetAdd("light_block_rejections", err.Error())
			} else {
				row3.Validated = true
				b.Count("max_weight_blocks_validated_by_ValidateBlock", 1)
				measureBlock(b, blk3, &row3, false, cs)
				rows = append(rows, row3)
			}
		}

		// (2) per-transaction overhead: many minimal transactions (1 byte of
		// arbitrary data = weight 1 each); valid, checked by ValidateBlock
		nt := b.Pick(300_000, int(maxW))
		txns := make([]types.V2Transaction, nt)
		for i := range txns {
			txns[i].ArbitraryData = []byte{byte(i)}
		}
		blk2 := sealV2(cs, txns, g.addr())
		row2 := weightRow{Shape: "minimal transactions (1 byte arbitrary data each)", Txns: nt}
		for _, t := range txns[:1] {
			row2.Weight = cs.V2TransactionWeight(t) * uint64(nt)
		}
		b.Eval(1)
		if err := consensus.ValidateBlock(cs, blk2, consensus.V1BlockSupplement{}); err != nil {
			b.Inconclusive("generator: minimal-transaction block rejected by ValidateBlock: " + err.Error())
		} else {
			row2.Validated = true
			b.Count("max_weight_blocks_validated_by_ValidateBlock", 1)
			measureBlock(b, blk2, &row2, true, cs)
			rows = append(rows, row2)
		}
	}

	// (3) synthetic accumulators 2^20..2^40, leaves scattered, maximal inputs
	exps := []int{20, 26, 40}
	if !b.Quick() {
		exps = []int{20, 22, 24, 26, 28, 32, 36, 40}
	}
	for _, e := range exps {
		for _, spread := range []string{"even", "random"} {
			if b.Quick() && spread == "random" && e != 26 {
				continue
			}
			numLeaves := uint64(1) << e
			al := &leafAllocator{g: g, numLeaves: numLeaves, used: map[uint64]bool{}}
			if spread == "even" {
				stride := numLeaves / uint64(M)
				i := uint64(0)
				al.next = func() uint64 { v := i*stride + stride/2; i++; return v % numLeaves }
			}
			ins := make([]types.V2SiacoinInput, M)
			for i := range ins {
				ins[i] = mkInput(al.alloc())
			}
			txn := types.V2Transaction{SiacoinInputs: ins, MinerFee: types.NewCurrency64(uint64(M))}
			txns := []types.V2Transaction{txn}
			cons := false
			// consistent proofs (for the equality round trip) where it may fit
			if e <= 20 {
				if fp, err := fixpoint(txns); err == nil {
					txns, cons = fp, true
				}
			}
			blk := types.Block{ParentID: types.BlockID(g.hash()), Timestamp: g.tm(), MinerPayouts: []types.SiacoinOutput{{Address: g.addr(), Value: types.Siacoins(300000)}},
				V2: &types.V2BlockData{Height: 5, Commitment: g.hash(), Transactions: txns}}
			row := weightRow{Shape: "one transaction, cheapest inputs, synthetic proofs", Log2Leaves: e, Spread: spread, Txns: 1, Inputs: M, Weight: zero.V2TransactionWeight(txn)}
			if row.Weight > maxW {
				b.Inconclusive("generator: synthetic block over weight")
				continue
			}
			measureBlock(b, blk, &row, cons, g.state())
			rows = append(rows, row)
		}
	}
	b.Sample(map[string]any{"kind": "consensus weight vs encoded bytes of maximal valid-shaped blocks", "max_block_weight": maxW, "cheapest_input_weight": inputWeight, "rows": rows})
}
