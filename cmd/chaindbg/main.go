// chaindbg: developer tool — grows chains over every network family and
// prints what the generator achieved (accepted blocks, kinds, rejections).
package main

import (
	"flag"
	"fmt"
	"math/rand/v2"
	"sort"

	"verif/internal/chaingen"
)

func main() {
	seed := flag.Uint64("seed", 1, "")
	blocks := flag.Int("blocks", 150, "")
	nets := flag.Int("nets", 5, "")
	reorg := flag.Bool("reorg", false, "")
	flag.Parse()
	kinds := map[string]int{}
	stats := map[string]int{}
	eras := map[string]int{}
	total := 0
	for i := 0; i < *nets; i++ {
		fam := chaingen.Families[i%len(chaingen.Families)]
		rng := rand.New(rand.NewPCG(*seed, uint64(i)))
		net := chaingen.GenNet(rng, fam, i)
		c := chaingen.NewChain(net, rng)
		c.OnApply = func(ev chaingen.ApplyEvent) {
			for _, k := range ev.Kinds {
				kinds[k]++
			}
			eras[chaingen.Era(net.N, ev.Next.Index.Height)]++
		}
		for j := 0; j < *blocks; j += 10 {
			total += c.Grow(10, chaingen.Plan{MaxTxns: 6})
			if *reorg && c.Height() > 5 {
				k := 1 + rng.IntN(4)
				for r := 0; r < k; r++ {
					c.RevertTip()
				}
			}
		}
		for k, v := range c.Stats {
			stats[k] += v
		}
		if c.LastReject != nil {
			fmt.Printf("net %s last reject: %v kinds=%v\n", net.Name, c.LastReject.Err, c.LastReject.Kinds)
		}
	}
	fmt.Println("accepted blocks:", total)
	pr := func(m map[string]int) {
		var ks []string
		for k := range m {
			ks = append(ks, k)
		}
		sort.Strings(ks)
		for _, k := range ks {
			fmt.Printf("  %-60s %d\n", k, m[k])
		}
	}
	fmt.Println("kinds:")
	pr(kinds)
	fmt.Println("eras:")
	pr(eras)
	fmt.Println("stats:")
	pr(stats)
}
