package main

import (
	"crypto/sha256"
	"encoding/hex"
	"encoding/json"
	"fmt"
	"os"
	"path/filepath"
	"sort"
	"strings"

	"verif/internal/harness"
)

// recB wraps the harness batch context inside a sub-worker: every observation
// is also mirrored into a checkpoint that is flushed to disk regularly, and
// every violation is appended to a side file at once. If the sub-worker dies
// (fatal error) or is killed by the watchdog, the supervisor merges the last
// checkpoint and the side file instead of the final result, so nothing that was
// observed before the death is lost.
type recB struct {
	*harness.B
	mirror   harness.Result
	distinct map[string]struct{}
	sets     map[string]map[string]struct{}
	perKey   map[string]int
	vf       *os.File
	path     string
	events   int
}

func newRecB(b *harness.B) *recB {
	r := &recB{B: b, distinct: map[string]struct{}{}, sets: map[string]map[string]struct{}{}, perKey: map[string]int{}}
	r.mirror = harness.Result{Batch: b.Batch, Counters: map[string]int64{}, Max: map[string]int64{}, Inconclusive: map[string]int64{}}
	r.path = filepath.Join(b.Work, "checkpoint.json")
	r.vf, _ = os.OpenFile(filepath.Join(b.Work, "violations.jsonl"), os.O_CREATE|os.O_TRUNC|os.O_WRONLY, 0o644)
	return r
}

func (r *recB) Eval(n int) { r.B.Eval(n); r.mirror.Evaluations += int64(n) }

func (r *recB) Count(name string, n int) { r.B.Count(name, n); r.mirror.Counters[name] += int64(n) }

func (r *recB) MaxOf(name string, v int64) {
	r.B.MaxOf(name, v)
	if v > r.mirror.Max[name] {
		r.mirror.Max[name] = v
	}
}

func (r *recB) Distinct(parts ...any) {
	r.B.Distinct(parts...)
	h := sha256.Sum256([]byte(fmt.Sprint(parts...)))
	if len(r.distinct) < 400000 {
		r.distinct[hex.EncodeToString(h[:6])] = struct{}{}
	}
}

func (r *recB) SetAdd(set, member string) {
	r.B.SetAdd(set, member)
	m := r.sets[set]
	if m == nil {
		m = map[string]struct{}{}
		r.sets[set] = m
	}
	if len(m) < 2000 {
		m[member] = struct{}{}
	}
}

func (r *recB) Inconclusive(reason string) { r.B.Inconclusive(reason); r.mirror.Inconclusive[reason]++ }

func (r *recB) Violate(key, detail string, witness any) {
	r.B.Violate(key, detail, witness)
	if r.perKey[key] >= 3 || r.vf == nil {
		return
	}
	r.perKey[key]++
	if raw, err := json.Marshal(harness.Violation{Key: key, Detail: detail, Witness: witness, Batch: r.B.Batch}); err == nil {
		r.vf.Write(append(raw, '\n'))
	}
}

// tick is called once per measurement window / validated variant.
func (r *recB) tick() {
	r.events++
	if r.events%150 == 0 {
		r.checkpoint()
	}
}

func (r *recB) checkpoint() {
	res := r.mirror
	res.Distinct = make([]string, 0, len(r.distinct))
	for k := range r.distinct {
		res.Distinct = append(res.Distinct, k)
	}
	res.Sets = map[string][]string{}
	for n, m := range r.sets {
		for k := range m {
			res.Sets[n] = append(res.Sets[n], k)
		}
		sort.Strings(res.Sets[n])
	}
	raw, err := json.Marshal(res)
	if err != nil {
		return
	}
	tmp := r.path + ".tmp"
	if os.WriteFile(tmp, raw, 0o644) == nil {
		os.Rename(tmp, r.path)
	}
}

// salvage is the supervisor side: merge what a dead / killed sub-worker left behind.
func salvage(b *harness.B, sub string) {
	var res harness.Result
	if raw, err := os.ReadFile(filepath.Join(sub, "checkpoint.json")); err == nil && json.Unmarshal(raw, &res) == nil {
		mergeResult(b, &res)
	}
	if raw, err := os.ReadFile(filepath.Join(sub, "violations.jsonl")); err == nil {
		for _, ln := range strings.Split(string(raw), "\n") {
			var v harness.Violation
			if ln != "" && json.Unmarshal([]byte(ln), &v) == nil && v.Key != "" {
				b.Violate(v.Key, v.Detail, v.Witness)
			}
		}
	}
}
