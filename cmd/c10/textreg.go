package main

import (
	"encoding"
	"encoding/json"
	"fmt"
	"go/ast"
	"go/parser"
	"go/token"
	"math/rand/v2"
	"os"
	"path/filepath"
	"reflect"
	"regexp"
	"sort"
	"strings"
	"sync"
	"time"

	"go.sia.tech/core/consensus"
	rhp2 "go.sia.tech/core/rhp/v2"
	rhp3 "go.sia.tech/core/rhp/v3"
	rhp4 "go.sia.tech/core/rhp/v4"
	"go.sia.tech/core/types"
	"verif/internal/chaingen"
	"verif/internal/valgen"
)

// tEntry is one text / JSON entry point.
type tEntry struct {
	Name   string   // unique
	Covers []string // declared functions this entry calls DIRECTLY: "dir.Type.Method" / "dir.ParseX"
	Kind   string   // text | parse | json
	Call   func(in []byte) error
	Valid  func(rng *rand.Rand) []byte // one own valid output (nil if none could be produced)
}

func safely(f func()) (ok bool) {
	defer func() {
		if r := recover(); r != nil {
			ok = false
		}
	}()
	f()
	return true
}

// textOf registers T.UnmarshalText (called directly).
func textOf[T any, PT interface {
	*T
	encoding.TextUnmarshaler
}](name string) tEntry {
	return tEntry{
		Name: name + ".UnmarshalText", Covers: []string{name + ".UnmarshalText"}, Kind: "text",
		Call: func(in []byte) error { return PT(new(T)).UnmarshalText(in) },
		Valid: func(rng *rand.Rand) (out []byte) {
			safely(func() {
				v := valgen.New[T](rng, nil)
				if tm, ok := any(v).(encoding.TextMarshaler); ok {
					out, _ = tm.MarshalText()
				} else if tm, ok := any(&v).(encoding.TextMarshaler); ok {
					out, _ = tm.MarshalText()
				} else {
					out = []byte(fmt.Sprint(v))
				}
			})
			return
		},
	}
}

// jsonOf registers json.Unmarshal into T; covers lists the UnmarshalJSON
// methods this reaches as the top-level call.
func jsonOf[T any](name string, covers ...string) tEntry {
	return tEntry{
		Name: name + "/json", Covers: covers, Kind: "json",
		Call: func(in []byte) error { return json.Unmarshal(in, new(T)) },
		Valid: func(rng *rand.Rand) (out []byte) {
			safely(func() {
				o := &valgen.Opts{Budget: 60, MaxLen: 2, MaxDepth: 2}
				if rng.IntN(3) == 0 {
					o = &valgen.Opts{Budget: 12, MaxLen: 1, MaxDepth: 1}
				}
				v := valgen.New[T](rng, o)
				var err error
				if out, err = json.Marshal(v); err != nil {
					out = nil
				}
			})
			return
		},
	}
}

// jsonValidated registers json.Unmarshal into T followed, when decoding succeeds, by the validation of the
// decoded object against a fixed state in which both v1 and v2 transactions are allowed: an object that a JSON
// API hands to validation is as untrusted as one from the wire.
func jsonValidated[T any](name string, validate func(v *T)) tEntry {
	e := jsonOf[T](name)
	e.Name = name + "/json+validate"
	e.Covers = nil
	e.Call = func(in []byte) error {
		v := new(T)
		if err := json.Unmarshal(in, v); err != nil {
			return err
		}
		validate(v)
		return nil
	}
	return e
}

var (
	jvOnce  sync.Once
	jvState consensus.State
)

// jsonValState is the state after the genesis block of a network in which v2 is allowed from the start and v1 is
// still allowed.
func jsonValState() consensus.State {
	jvOnce.Do(func() {
		n := &consensus.Network{Name: "c10-json", InitialCoinbase: types.Siacoins(300000), MinimumCoinbase: types.Siacoins(30000),
			InitialTarget: types.BlockID{0xFF}, BlockInterval: 10 * time.Minute, MaturityDelay: 3}
		n.HardforkOak.GenesisTimestamp = time.Unix(1700000000, 0).UTC()
		n.HardforkASIC.OakTime = 10000 * time.Second
		n.HardforkASIC.OakTarget = n.InitialTarget
		n.HardforkASIC.NonceFactor = 1009
		n.HardforkV2.RequireHeight = 1000
		n.HardforkV2.FinalCutHeight = 2000
		g := types.Block{Timestamp: n.HardforkOak.GenesisTimestamp, Transactions: []types.Transaction{{
			SiacoinOutputs: []types.SiacoinOutput{{Value: types.Siacoins(1000), Address: types.AnyoneCanSpend().Address()}},
			SiafundOutputs: []types.SiafundOutput{{Value: 10000, Address: types.AnyoneCanSpend().Address()}},
		}}}
		jvState, _ = consensus.ApplyBlock(n.GenesisState(), g, consensus.V1BlockSupplement{Transactions: make([]consensus.V1TransactionSupplement, 1)}, time.Time{})
	})
	return jvState
}

func jsonValidateV1(t *types.Transaction) {
	consensus.ValidateTransaction(consensus.NewMidState(jsonValState()), *t, consensus.V1TransactionSupplement{})
}

func jsonValidateV2(t *types.V2Transaction) {
	consensus.ValidateV2Transaction(consensus.NewMidState(jsonValState()), *t)
}

func jsonValidateBlock(b *types.Block) {
	cs := jsonValState()
	consensus.ValidateOrphan(cs, *b)
	// the same block placed on the tip (parent, time and, when there is a V2 part, height are the sender's choice)
	pb := *b
	pb.ParentID, pb.Timestamp = cs.Index.ID, cs.PrevTimestamps[0].Add(time.Second)
	if pb.V2 != nil {
		v2 := *pb.V2
		v2.Height = cs.Index.Height + 1
		pb.V2 = &v2
	}
	bs := consensus.V1BlockSupplement{Transactions: make([]consensus.V1TransactionSupplement, len(pb.Transactions))}
	consensus.ValidateOrphan(cs, pb)
	consensus.ValidateBlock(cs, pb, bs)
	ms := consensus.NewMidState(cs)
	for i := range b.Transactions {
		consensus.ValidateTransaction(ms, b.Transactions[i], consensus.V1TransactionSupplement{})
	}
	for _, t := range b.V2Transactions() {
		consensus.ValidateV2Transaction(ms, t)
	}
}

func parseOf(name string, call func(s string) error, valid func(rng *rand.Rand) string) tEntry {
	return tEntry{Name: name, Covers: []string{name}, Kind: "parse",
		Call:  func(in []byte) error { return call(string(in)) },
		Valid: func(rng *rand.Rand) []byte { return []byte(valid(rng)) }}
}

// chain-derived valid JSON of the update types (their fields are unexported).
var (
	updOnce sync.Once
	auJSON  [][]byte
	ruJSON  [][]byte
)

func updateJSONs() {
	updOnce.Do(func() {
		safely(func() {
			rng := rand.New(rand.NewPCG(10, 10))
			net := chaingen.GenNet(rng, "compressed", 77)
			c := chaingen.NewChain(net, rng)
			c.OnApply = func(ev chaingen.ApplyEvent) {
				if js, err := json.Marshal(ev.AU); err == nil && len(auJSON) < 40 {
					auJSON = append(auJSON, js)
				}
			}
			c.OnRevert = func(ev chaingen.RevertEvent) {
				if js, err := json.Marshal(ev.RU); err == nil && len(ruJSON) < 40 {
					ruJSON = append(ruJSON, js)
				}
			}
			for i := 0; i < 12; i++ {
				c.Grow(5, chaingen.Plan{MaxTxns: 4})
				if c.Height() > 2 {
					c.RevertTip()
					c.RevertTip()
				}
			}
		})
	})
}

var (
	tregOnce sync.Once
	treg     []tEntry
)

func textRegistry() []tEntry {
	tregOnce.Do(func() {
		T := "types."
		treg = []tEntry{
			// --- types: text
			textOf[types.Currency](T + "Currency"),
			textOf[types.Hash256](T + "Hash256"),
			textOf[types.ChainIndex](T + "ChainIndex"),
			textOf[types.Specifier](T + "Specifier"),
			textOf[types.UnlockKey](T + "UnlockKey"),
			textOf[types.Address](T + "Address"),
			textOf[types.BlockID](T + "BlockID"),
			textOf[types.PublicKey](T + "PublicKey"),
			textOf[types.TransactionID](T + "TransactionID"),
			textOf[types.AttestationID](T + "AttestationID"),
			textOf[types.SiacoinOutputID](T + "SiacoinOutputID"),
			textOf[types.SiafundOutputID](T + "SiafundOutputID"),
			textOf[types.FileContractID](T + "FileContractID"),
			textOf[types.Signature](T + "Signature"),
			// --- types: Parse*
			parseOf(T+"ParseCurrency", func(s string) error { _, err := types.ParseCurrency(s); return err },
				func(rng *rand.Rand) string {
					c := valgen.Currency(rng)
					switch rng.IntN(3) {
					case 0:
						return c.String()
					case 1:
						return c.ExactString()
					}
					return c.String() + " "
				}),
			parseOf(T+"ParseChainIndex", func(s string) error { _, err := types.ParseChainIndex(s); return err },
				func(rng *rand.Rand) string {
					s, _ := valgen.New[types.ChainIndex](rng, nil).MarshalText()
					return string(s)
				}),
			parseOf(T+"ParseAddress", func(s string) error { _, err := types.ParseAddress(s); return err },
				func(rng *rand.Rand) string { return valgen.New[types.Address](rng, nil).String() }),
			parseOf(T+"ParseSpendPolicy", func(s string) error { _, err := types.ParseSpendPolicy(s); return err },
				func(rng *rand.Rand) (s string) {
					safely(func() { s = valgen.Policy(rng, 3, &valgen.Opts{Budget: 40}).String() })
					return
				}),
			// --- types: JSON
			jsonOf[types.ChainIndex](T+"ChainIndex", T+"ChainIndex.UnmarshalJSON"),
			jsonOf[types.FileContractRevision](T+"FileContractRevision", T+"FileContractRevision.UnmarshalJSON"),
			jsonOf[types.StorageProof](T+"StorageProof", T+"StorageProof.UnmarshalJSON"),
			jsonOf[types.V2StorageProof](T+"V2StorageProof", T+"V2StorageProof.UnmarshalJSON"),
			jsonOf[types.V2FileContractResolution](T+"V2FileContractResolution", T+"V2FileContractResolution.UnmarshalJSON"),
			jsonOf[types.SpendPolicy](T+"SpendPolicy", T+"SpendPolicy.UnmarshalJSON"),
			jsonOf[types.SatisfiedPolicy](T+"SatisfiedPolicy", T+"SatisfiedPolicy.UnmarshalJSON"),
			jsonOf[types.Currency](T + "Currency"),
			jsonOf[types.UnlockConditions](T + "UnlockConditions"),
			jsonOf[types.Transaction](T + "Transaction"),
			jsonOf[types.V2Transaction](T + "V2Transaction"),
			jsonOf[types.V2FileContract](T + "V2FileContract"),
			jsonOf[types.FileContract](T + "FileContract"),
			jsonOf[types.SiacoinElement](T + "SiacoinElement"),
			jsonOf[types.SiafundElement](T + "SiafundElement"),
			jsonOf[types.FileContractElement](T + "FileContractElement"),
			jsonOf[types.V2FileContractElement](T + "V2FileContractElement"),
			jsonOf[types.ChainIndexElement](T + "ChainIndexElement"),
			jsonOf[types.AttestationElement](T + "AttestationElement"),
			jsonOf[types.Block](T + "Block"),
			jsonValidated[types.Transaction](T+"Transaction", jsonValidateV1),
			jsonValidated[types.V2Transaction](T+"V2Transaction", jsonValidateV2),
			jsonValidated[types.Block](T+"Block", jsonValidateBlock),
			jsonOf[types.BlockHeader](T + "BlockHeader"),
			// --- consensus
			textOf[consensus.Work]("consensus.Work"),
			jsonOf[consensus.Work]("consensus.Work", "consensus.Work.UnmarshalJSON"),
			jsonOf[consensus.ElementAccumulator]("consensus.ElementAccumulator", "consensus.ElementAccumulator.UnmarshalJSON"),
			jsonOf[consensus.V2FileContractElementDiff]("consensus.V2FileContractElementDiff", "consensus.V2FileContractElementDiff.UnmarshalJSON"),
			jsonOf[consensus.FileContractElementDiff]("consensus.FileContractElementDiff"),
			jsonOf[consensus.SiacoinElementDiff]("consensus.SiacoinElementDiff"),
			jsonOf[consensus.SiafundElementDiff]("consensus.SiafundElementDiff"),
			jsonOf[consensus.State]("consensus.State"),
			jsonOf[consensus.Network]("consensus.Network"),
			jsonOf[consensus.V1BlockSupplement]("consensus.V1BlockSupplement"),
			{Name: "consensus.ApplyUpdate/json", Covers: []string{"consensus.ApplyUpdate.UnmarshalJSON", "consensus.elementLeaf.UnmarshalJSON" /* unexported: reached through updatedLeaves */}, Kind: "json",
				Call: func(in []byte) error { return json.Unmarshal(in, new(consensus.ApplyUpdate)) },
				Valid: func(rng *rand.Rand) []byte {
					updateJSONs()
					if len(auJSON) == 0 {
						return nil
					}
					return auJSON[rng.IntN(len(auJSON))]
				}},
			{Name: "consensus.RevertUpdate/json", Covers: []string{"consensus.RevertUpdate.UnmarshalJSON"}, Kind: "json",
				Call: func(in []byte) error { return json.Unmarshal(in, new(consensus.RevertUpdate)) },
				Valid: func(rng *rand.Rand) []byte {
					updateJSONs()
					if len(ruJSON) == 0 {
						return nil
					}
					return ruJSON[rng.IntN(len(ruJSON))]
				}},
			// --- rhp/v2
			jsonOf[rhp2.HostSettings]("rhp/v2.HostSettings"),
			jsonOf[rhp2.ContractRevision]("rhp/v2.ContractRevision"),
			// --- rhp/v3
			textOf[rhp3.Account]("rhp/v3.Account"),
			jsonOf[rhp3.SettingsID]("rhp/v3.SettingsID", "rhp/v3.SettingsID.UnmarshalJSON"),
			jsonOf[rhp3.HostPriceTable]("rhp/v3.HostPriceTable"),
			jsonOf[rhp3.RegistryEntry]("rhp/v3.RegistryEntry"),
			// --- rhp/v4
			textOf[rhp4.Account]("rhp/v4.Account"),
			textOf[rhp4.ProtocolVersion]("rhp/v4.ProtocolVersion"),
			jsonOf[rhp4.ProtocolVersion]("rhp/v4.ProtocolVersion", "rhp/v4.ProtocolVersion.UnmarshalJSON"),
			jsonOf[rhp4.HostSettings]("rhp/v4.HostSettings"),
			jsonOf[rhp4.HostPrices]("rhp/v4.HostPrices"),
			jsonOf[rhp4.AccountToken]("rhp/v4.AccountToken"),
			jsonOf[rhp4.Usage]("rhp/v4.Usage"),
			jsonOf[rhp4.RPCFormContractParams]("rhp/v4.RPCFormContractParams"),
		}
		seen := map[string]bool{}
		for _, e := range treg {
			if seen[e.Name] {
				panic("text registry: duplicate " + e.Name)
			}
			seen[e.Name] = true
		}
	})
	return treg
}

func textByName(name string) (tEntry, bool) {
	for _, e := range textRegistry() {
		if e.Name == name {
			return e, true
		}
	}
	return tEntry{}, false
}

var reParse = regexp.MustCompile(`^Parse[A-Z]`)

// declaredTextFuncs parses every non-test Go file of the repository (run
// time, go/parser) and returns "dir.Type.UnmarshalJSON", "dir.Type.UnmarshalText"
// and "dir.ParseX" for every such declaration in a non-main, non-internal package.
func declaredTextFuncs(repo string) ([]string, error) {
	found := map[string]bool{}
	fset := token.NewFileSet()
	err := filepath.Walk(repo, func(path string, info os.FileInfo, err error) error {
		if err != nil {
			return err
		}
		if info.IsDir() {
			n := info.Name()
			if path != repo && (strings.HasPrefix(n, ".") || n == "testdata" || n == "internal" || n == "vendor") {
				return filepath.SkipDir
			}
			return nil
		}
		if !strings.HasSuffix(path, ".go") || strings.HasSuffix(path, "_test.go") {
			return nil
		}
		f, err := parser.ParseFile(fset, path, nil, parser.SkipObjectResolution)
		if err != nil {
			return err
		}
		if f.Name.Name == "main" {
			return nil
		}
		rel, _ := filepath.Rel(repo, filepath.Dir(path))
		rel = filepath.ToSlash(rel)
		for _, d := range f.Decls {
			fd, ok := d.(*ast.FuncDecl)
			if !ok {
				continue
			}
			name := fd.Name.Name
			if fd.Recv == nil {
				if reParse.MatchString(name) {
					found[rel+"."+name] = true
				}
				continue
			}
			if name != "UnmarshalJSON" && name != "UnmarshalText" {
				continue
			}
			if len(fd.Recv.List) != 1 {
				continue
			}
			rt := fd.Recv.List[0].Type
			if s, ok := rt.(*ast.StarExpr); ok {
				rt = s.X
			}
			if ix, ok := rt.(*ast.IndexExpr); ok {
				rt = ix.X
			}
			if id, ok := rt.(*ast.Ident); ok {
				found[rel+"."+id.Name+"."+name] = true
			}
		}
		return nil
	})
	var out []string
	for k := range found {
		out = append(out, k)
	}
	sort.Strings(out)
	return out, err
}

// textMissing is the completeness self-check of the text registry.
func textMissing(repo string) (missing, stale []string, err error) {
	decl, err := declaredTextFuncs(repo)
	if err != nil {
		return nil, nil, err
	}
	if len(decl) == 0 {
		return nil, nil, fmt.Errorf("no UnmarshalJSON/UnmarshalText/Parse* declaration found under %s", repo)
	}
	declared := map[string]bool{}
	for _, d := range decl {
		declared[d] = true
	}
	covered := map[string]bool{}
	for _, e := range textRegistry() {
		for _, c := range e.Covers {
			covered[c] = true
		}
	}
	for _, d := range decl {
		if !covered[d] {
			missing = append(missing, d)
		}
	}
	for c := range covered {
		if !declared[c] {
			stale = append(stale, c)
		}
	}
	sort.Strings(stale)
	return missing, stale, nil
}

var _ = reflect.TypeOf
var _ = time.Now
