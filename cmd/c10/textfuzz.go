package main

import (
	"bytes"
	"encoding/json"
	"fmt"
	"math/rand/v2"
	"slices"
	"strings"
)

type textLevel struct {
	light     bool
	valids    int
	flips     int
	jsonNodes int // JSON tree nodes attacked per valid document
	nests     []int
	randoms   int
	bigDigits int
	embedded  bool   // reduced generator for strings inside JSON documents
	directExp string // exponent used in hostile strings fed directly to a text entry point
	nodeExp   string // exponent used in hostile strings placed inside JSON documents
}

func textLevelOf(b *recB, light bool) textLevel {
	switch {
	case light:
		return textLevel{light: true, valids: 1, flips: 16, jsonNodes: 4, nests: []int{100, 10001}, randoms: 2, bigDigits: 20000, nodeExp: "10000", directExp: "100000"}
	case b.Quick():
		return textLevel{valids: 4, flips: 160, jsonNodes: 28, nests: []int{31, 100, 9999, 10001, 100000}, randoms: 10, bigDigits: 100000, nodeExp: "100000", directExp: "1000000"}
	default:
		return textLevel{valids: 20, flips: 1000, jsonNodes: 500, nests: []int{31, 100, 9999, 10001, 100000, 1000000, 4000000}, randoms: 100, bigDigits: 1000000, nodeExp: "1000000", directExp: "1000000"}
	}
}

func runText(b *recB, m *mon, seg segSpec) {
	lv := textLevelOf(b, seg.Light)
	for _, name := range seg.Entries {
		e, ok := textByName(name)
		if !ok {
			b.Inconclusive("text entry point not in the registry: " + name)
			continue
		}
		rng := b.SubRng("text/" + name)
		t := &target{name: name, kind: "text", call: e.Call}
		if e.Kind == "json" {
			t.perByte = 4096
		}
		f := m.feeder(t)
		fuzzTextEntry(b, f, e, rng, lv)
		f.flush()
		v, a := f.outcomes["valid"], 0
		for _, o := range f.outcomes {
			a += o[0] + o[1] + o[2]
		}
		if v != nil && v[0] > 0 {
			b.Count("text_valid_accepted", v[0])
		}
		if v != nil && v[1] > 0 {
			b.Count("own_text_output_rejected(observed; judged by C20)", v[1])
		}
		if m.skip == 0 && !m.abandon[name] && (v == nil || v[0] == 0) {
			b.Inconclusive("no own valid output of " + name + " was accepted: attacks derived from valid outputs are weak")
		}
		if a > 0 && seg.Own {
			b.Count("decode_entry_points", 1)
			b.Count("decode_entry_points_match", 1)
			b.SetAdd("entry_points_text_json", name)
		}
		b.checkpoint()
		for cls, o := range f.outcomes {
			b.Count("text_class:"+cls+":value", o[0])
			b.Count("text_class:"+cls+":error", o[1])
			b.Count("text_class:"+cls+":panic", o[2])
		}
	}
}

type tatk struct {
	class, sub string
	data       []byte
}

func isDigitish(c byte) bool { return (c >= '0' && c <= '9') || c == '.' }
func isHex(c byte) bool {
	return (c >= '0' && c <= '9') || (c >= 'a' && c <= 'f') || (c >= 'A' && c <= 'F')
}

// runs returns the maximal runs [i,j) of bytes satisfying pred with length >= minLen.
func runs(s []byte, pred func(byte) bool, minLen int) [][2]int {
	var out [][2]int
	for i := 0; i < len(s); {
		if !pred(s[i]) {
			i++
			continue
		}
		j := i
		for j < len(s) && pred(s[j]) {
			j++
		}
		if j-i >= minLen {
			out = append(out, [2]int{i, j})
		}
		i = j
	}
	return out
}

func splice(s []byte, i, j int, repl string) []byte {
	out := make([]byte, 0, len(s)-(j-i)+len(repl))
	out = append(out, s[:i]...)
	out = append(out, repl...)
	return append(out, s[j:]...)
}

func hostileNumbers(bigDigits int, exp string) [][3]string {
	return [][3]string{
		{"exponent", "1e" + exp, "1e" + exp},
		{"exponent", "1e-" + exp, "1e-" + exp},
		{"exponent", "1e10000", "1e10000"},
		{"exponent", "1E400", "1E400"},
		{"exponent", "0.1e2", "0.1e2"},
		{"exponent", "1e18446744073709551616", "1e18446744073709551616"},
		{"exponent", "1p1000000", "1p1000000"},
		{"digits", "long-integer", strings.Repeat("9", bigDigits)},
		{"digits", "long-fraction", "0." + strings.Repeat("0", bigDigits) + "1"},
		{"digits", "long-leading-zeros", strings.Repeat("0", bigDigits) + "1"},
		{"numeric", "negative", "-1"},
		{"numeric", "negative-zero", "-0"},
		{"numeric", "plus", "+1"},
		{"numeric", "2^64", "18446744073709551616"},
		{"numeric", "2^64-1", "18446744073709551615"},
		{"numeric", "2^63", "9223372036854775808"},
		{"numeric", "2^128", "340282366920938463463374607431768211456"},
		{"numeric", "2^128-1", "340282366920938463463374607431768211455"},
		{"numeric", "2^256", "115792089237316195423570985008687907853269984665640564039457584007913129639936"},
		{"numeric", "fraction", "1.5"},
		{"numeric", "ratio", "1/3"},
		{"numeric", "ratio-zero", "1/0"},
		{"numeric", "dots", "1..2"},
		{"numeric", "hexnum", "0x10"},
		{"numeric", "underscore", "1_000"},
		{"numeric", "inf", "Inf"},
		{"numeric", "nan", "NaN"},
		{"numeric", "256", "256"},
		{"numeric", "empty", ""},
	}
}

// textAttacks derives hostile strings from one valid output.
func textAttacks(orig []byte, rng *rand.Rand, lv textLevel, exp string, emit func(tatk)) {
	n := len(orig)
	// numeric tokens
	for _, r := range runs(orig, isDigitish, 1) {
		for _, h := range hostileNumbers(lv.bigDigits, exp) {
			emit(tatk{h[0], h[1], splice(orig, r[0], r[1], h[2])})
		}
	}
	// prefixes
	for k := 0; k < n && k < 200; k++ {
		if lv.embedded && k%7 != 3 {
			continue
		}
		emit(tatk{"prefix", sizeClass(k), orig[:k]})
	}
	// byte edits
	special := []byte(":,()[]\"' -+.eE/x0\x00\xff{}\\\n")
	for i := 0; i < lv.flips && n > 0; i++ {
		p := i % n
		if n > lv.flips {
			p = rng.IntN(n)
		}
		d := cp(orig)
		switch i % 4 {
		case 0:
			d[p] = special[rng.IntN(len(special))]
			emit(tatk{"edit", "special", d})
		case 1:
			d[p] ^= 1 << uint(rng.IntN(8))
			emit(tatk{"edit", "bit", d})
		case 2:
			emit(tatk{"edit", "delete", append(d[:p:p], orig[p+1:]...)})
		default:
			emit(tatk{"edit", "insert", splice(orig, p, p, string(special[rng.IntN(len(special))]))})
		}
	}
	// hex tokens
	for _, r := range runs(orig, isHex, 8) {
		tok := string(orig[r[0]:r[1]])
		for _, h := range [][2]string{
			{"overlong-hex", tok + "00"}, {"overlong-hex", tok + strings.Repeat("ab", 32)}, {"overlong-hex", tok + tok}, {"overlong-hex", tok + strings.Repeat("0", 1000)},
			{"overlong-hex", strings.Repeat("f", 1<<16)}, {"odd-hex", tok + "0"}, {"odd-hex", tok[:len(tok)-1]}, {"short-hex", tok[:len(tok)-2]}, {"short-hex", tok[:len(tok)/2]}, {"short-hex", ""},
			{"nonhex", tok[:len(tok)-1] + "g"}, {"nonhex", "0x" + tok}, {"nonhex", strings.ToUpper(tok)},
		} {
			emit(tatk{h[0], sizeClass(len(h[1])), splice(orig, r[0], r[1], h[1])})
		}
	}
	if lv.embedded {
		return
	}
	// duplication and separators
	emit(tatk{"dup", "twice", append(cp(orig), orig...)})
	for _, sep := range []string{"::", ":", ",", " ", "(", ")", "[", "]"} {
		emit(tatk{"dup", "sep", append(append(cp(orig), sep...), orig...)})
		emit(tatk{"dup", "sep-only", []byte(sep)})
		emit(tatk{"dup", "sep-lead", append([]byte(sep), orig...)})
	}
	// deep nests
	for _, pat := range []string{"thresh(1,[", "thresh(255,[", "(", "[", "uc(0,[", "\"", "{", "[{\"a\":"} {
		ds := lv.nests
		if pat == "thresh(1,[" && !lv.light && !lv.embedded && len(ds) > 0 && slices.Max(ds) < 1000000 {
			// deep enough to exhaust a goroutine stack if the policy parser recursed without a bound
			ds = append(append([]int(nil), ds...), 1000000)
		}
		for _, d := range ds {
			if d > 100000 && pat != "thresh(1,[" && pat != "[" {
				continue
			}
			s := strings.Repeat(pat, d)
			emit(tatk{"nest", fmt.Sprintf("%q/%d", pat, d), []byte(s)})
			emit(tatk{"nest", fmt.Sprintf("%q/%d+orig", pat, d), append([]byte(s), orig...)})
		}
	}
	// deep nests that are well-formed all the way down (an open-only nest is refused by a JSON syntax check before any
	// type-specific decoder runs)
	for _, pat := range [][3]string{
		{`{"type":"thresh","policy":{"n":1,"of":[`, `{"type":"above","policy":1}`, `]}}`},
		{`[`, `1`, `]`}, {`{"a":`, `1`, `}`}, {`thresh(1,[`, `above(1)`, `])`},
	} {
		seen := map[int]bool{}
		for _, d := range append([]int{1500}, lv.nests...) {
			if d > 3000 {
				d = 3000 // encoding/json itself stops at 10000 levels
			}
			if seen[d] {
				continue
			}
			seen[d] = true
			s := strings.Repeat(pat[0], d) + pat[1] + strings.Repeat(pat[2], d)
			emit(tatk{"closed-nest", fmt.Sprintf("%q/%d", pat[0], d), []byte(s)})
		}
	}
	// bulk
	for _, c := range []byte{'a', '0', ' ', ',', 0} {
		if lv.light {
			break
		}
		emit(tatk{"bulk", fmt.Sprintf("%q", c), bytes.Repeat([]byte{c}, 1<<18)})
	}
	// random
	for _, ln := range []int{0, 1, 2, 8, 33, 64, 65, 128, 1000} {
		for i := 0; i < lv.randoms; i++ {
			d := make([]byte, ln)
			for j := range d {
				d[j] = byte(rng.IntN(256))
			}
			emit(tatk{"random", sizeClass(ln), d})
			for j := range d {
				d2 := "0123456789abcdef:,.()[]e SCH\"{}"
				d[j] = d2[rng.IntN(len(d2))]
			}
			emit(tatk{"random", "printable/" + sizeClass(ln), cp(d)})
		}
	}
}

func fuzzTextEntry(b *recB, f *feeder, e tEntry, rng *rand.Rand, lv textLevel) {
	var valids [][]byte
	seen := map[string]bool{}
	for i := 0; i < lv.valids*3 && len(valids) < lv.valids; i++ {
		v := e.Valid(rng)
		if v == nil || seen[string(v)] {
			continue
		}
		seen[string(v)] = true
		valids = append(valids, v)
	}
	if len(valids) == 0 {
		b.Count("text_entries_without_generated_valid_output", 1)
		if e.Kind == "json" {
			valids = append(valids, []byte("{}"))
		} else {
			valids = append(valids, []byte("0"))
		}
	}
	for _, v := range valids {
		f.add("valid", e.Kind, v)
	}
	f.flush() // calibrate

	for vi, v := range valids {
		if e.Kind == "json" && vi >= 2 && lv.valids <= 4 {
			break
		}
		if e.Kind == "json" {
			jsonAttacks(v, rng, lv, func(a tatk) { f.add(a.class, a.sub, a.data) })
			// the text attacks on the document as a whole (reduced)
			if vi == 0 {
				l2 := lv
				l2.flips /= 2
				textAttacks(v, rng, l2, lv.nodeExp, func(a tatk) {
					if a.class == "exponent" || a.class == "digits" || a.class == "numeric" || a.class == "overlong-hex" || a.class == "odd-hex" || a.class == "short-hex" || a.class == "nonhex" {
						if rng.IntN(4) != 0 {
							return // these are applied per node by jsonAttacks
						}
					}
					f.add(a.class, a.sub, a.data)
				})
			}
			continue
		}
		if vi > 0 {
			l2 := lv
			l2.nests = nil
			l2.randoms = 1
			textAttacks(v, rng, l2, lv.directExp, func(a tatk) {
				if a.class == "bulk" {
					return
				}
				f.add(a.class, a.sub, a.data)
			})
			continue
		}
		textAttacks(v, rng, lv, lv.directExp, func(a tatk) { f.add(a.class, a.sub, a.data) })
		if lv.bigDigits < 1000000 && !lv.light {
			// one number of a million digits per entry point at every tier (the other long numbers scale with the tier)
			if rs := runs(v, isDigitish, 1); len(rs) > 0 {
				f.add("digits", "long-integer-10^6", splice(v, rs[0][0], rs[0][1], strings.Repeat("9", 1000000)))
			}
		}
	}
	// cross-seeding: the own valid outputs of the OTHER text formats of the repository
	// (e.g. a currency with a unit for Currency.UnmarshalText, whose own output is a bare integer)
	if e.Kind != "json" && !lv.light {
		l2 := lv
		l2.flips = 8
		l2.embedded = true
		l2.bigDigits = 5000
		for _, o := range textRegistry() {
			if o.Kind == "json" || o.Name == e.Name {
				continue
			}
			cv := o.Valid(rng)
			if cv == nil {
				continue
			}
			f.add("cross-valid", o.Name, cv)
			textAttacks(cv, rng, l2, lv.directExp, func(a tatk) { f.add(a.class, "cross/"+a.sub, a.data) })
		}
	}
}

// ---------------------------------------------------------------------------
// structure-aware JSON attacks

type jnode struct {
	kind string // object | array | string | number | bool | null
}

// countNodes numbers the nodes of a decoded JSON tree in DFS pre-order.
func countNodes(v any) int {
	n := 1
	switch x := v.(type) {
	case map[string]any:
		for _, k := range sortedKeys(x) {
			n += countNodes(x[k])
		}
	case []any:
		for _, e := range x {
			n += countNodes(e)
		}
	}
	return n
}

func sortedKeys(m map[string]any) []string {
	ks := make([]string, 0, len(m))
	for k := range m {
		ks = append(ks, k)
	}
	// insertion sort (small maps)
	for i := 1; i < len(ks); i++ {
		for j := i; j > 0 && ks[j] < ks[j-1]; j-- {
			ks[j], ks[j-1] = ks[j-1], ks[j]
		}
	}
	return ks
}

// rewrite copies v with node number target (DFS pre-order, *idx is the running
// counter) replaced by f(node).
func rewrite(v any, target int, idx *int, f func(any) any) any {
	me := *idx
	*idx++
	if me == target {
		// skip numbering of the subtree
		*idx += countNodes(v) - 1
		return f(v)
	}
	switch x := v.(type) {
	case map[string]any:
		out := make(map[string]any, len(x))
		for _, k := range sortedKeys(x) {
			out[k] = rewrite(x[k], target, idx, f)
		}
		return out
	case []any:
		out := make([]any, len(x))
		for i, e := range x {
			out[i] = rewrite(e, target, idx, f)
		}
		return out
	}
	return v
}

func nodeAt(v any, target int, idx *int) (any, bool) {
	me := *idx
	*idx++
	if me == target {
		return v, true
	}
	switch x := v.(type) {
	case map[string]any:
		for _, k := range sortedKeys(x) {
			if r, ok := nodeAt(x[k], target, idx); ok {
				return r, true
			}
		}
	case []any:
		for _, e := range x {
			if r, ok := nodeAt(e, target, idx); ok {
				return r, true
			}
		}
	}
	return nil, false
}

func mapLike(m map[string]any) bool {
	for k := range m {
		if k == "" {
			return false
		}
		for i := 0; i < len(k); i++ {
			if (k[i] < '0' || k[i] > '9') && !(i == 0 && k[i] == '-') {
				return false
			}
		}
	}
	return true
}

type rawJSON string

func (r rawJSON) MarshalJSON() ([]byte, error) { return []byte(r), nil }

func jsonAttacks(doc []byte, rng *rand.Rand, lv textLevel, emit func(tatk)) {
	dec := json.NewDecoder(bytes.NewReader(doc))
	dec.UseNumber()
	var root any
	if err := dec.Decode(&root); err != nil {
		return
	}
	total := countNodes(root)
	targets := make([]int, 0, total)
	for i := 0; i < total; i++ {
		targets = append(targets, i)
	}
	if total > lv.jsonNodes {
		rng.Shuffle(len(targets), func(i, j int) { targets[i], targets[j] = targets[j], targets[i] })
		targets = targets[:lv.jsonNodes]
		targets = append(targets, 0)
		// map-like objects (empty, or all keys numeric) are always attacked: their keys are indices
		in := map[int]bool{}
		for _, t := range targets {
			in[t] = true
		}
		extra := 0
		for i := 0; i < total && extra < 24; i++ {
			if in[i] {
				continue
			}
			idx := 0
			if nd, ok := nodeAt(root, i, &idx); ok {
				if m, ok := nd.(map[string]any); ok && mapLike(m) {
					targets = append(targets, i)
					extra++
				}
			}
		}
	}
	out := func(class, sub string, target int, f func(any) any) {
		idx := 0
		nv := rewrite(root, target, &idx, f)
		raw, err := json.Marshal(nv)
		if err != nil {
			return
		}
		emit(tatk{class, sub, raw})
	}
	wrong := []struct {
		sub string
		v   any
	}{{"null", nil}, {"true", true}, {"0", json.Number("0")}, {"empty-string", ""}, {"string", "x"}, {"empty-array", []any{}}, {"empty-object", map[string]any{}},
		{"nested-array", []any{[]any{}}}, {"array-of-object", []any{map[string]any{}}}, {"object-of-object", map[string]any{"a": map[string]any{}}}, {"array-of-null", []any{nil, nil}}}
	hostileKeys := []string{"100", "-1", "64", "63", "65", "4294967296", "9223372036854775807", "9223372036854775808", "18446744073709551615", "18446744073709551616", "-9223372036854775808", "0x10", " 1", "1e2", "", "01"}
	keyVals := []struct {
		sub string
		v   any
	}{{"[]", []any{}}, {"[{}]", []any{map[string]any{}}}, {"{}", map[string]any{}}, {"null", nil}, {"[hash]", []any{strings.Repeat("00", 32)}}}
	hostileNums := []string{"-1", "0", "1", "255", "256", "65535", "65536", "4294967295", "4294967296", "9223372036854775807", "9223372036854775808", "18446744073709551615", "18446744073709551616",
		"1e400", "1e19", "1.5", "-0", "1e-400", "1E2", strings.Repeat("9", 5000), "0." + strings.Repeat("0", 5000) + "1", "340282366920938463463374607431768211456"}

	// omission (not sampled): every object emptied and every key of every object dropped, so that each required
	// field is missing once
	omit := 64
	if lv.light {
		omit = 8
	} else if lv.jsonNodes >= 500 {
		omit = 1000
	}
	for i, nobj := 0, 0; i < total && nobj < omit; i++ {
		idx := 0
		nd, ok := nodeAt(root, i, &idx)
		m, isObj := nd.(map[string]any)
		if !ok || !isObj {
			continue
		}
		nobj++
		if len(m) > 0 {
			out("jsonomit", "object-emptied", i, func(any) any { return map[string]any{} })
		}
		for _, k := range sortedKeys(m) {
			k := k
			out("jsonomit", "key-dropped", i, func(n any) any {
				o := map[string]any{}
				for kk, vv := range n.(map[string]any) {
					if kk != k {
						o[kk] = vv
					}
				}
				return o
			})
		}
	}
	for ti, tg := range targets {
		idx := 0
		node, ok := nodeAt(root, tg, &idx)
		if !ok {
			continue
		}
		kind := "null"
		switch node.(type) {
		case map[string]any:
			kind = "object"
		case []any:
			kind = "array"
		case string:
			kind = "string"
		case json.Number:
			kind = "number"
		case bool:
			kind = "bool"
		}
		// wrong types
		for _, w := range wrong {
			w := w
			out("jsontype", kind+"->"+w.sub, tg, func(any) any { return w.v })
		}
		// deep nesting in place of the node
		for _, d := range lv.nests {
			if d > 100000 || (d > 1000 && ti >= 3) {
				continue
			}
			d := d
			out("jsondeep", fmt.Sprintf("array/%d", d), tg, func(any) any {
				return rawJSON(strings.Repeat("[", d) + strings.Repeat("]", d))
			})
			out("jsondeep", fmt.Sprintf("object/%d", d), tg, func(any) any {
				return rawJSON(strings.Repeat(`{"a":`, d) + "null" + strings.Repeat("}", d))
			})
		}
		switch x := node.(type) {
		case map[string]any:
			// huge / negative / out-of-range map keys and indices
			for ki, k := range hostileKeys {
				for vi, kv := range keyVals {
					if vi > 0 && ki >= 4 {
						continue
					}
					k, kv := k, kv
					out("jsonkey", "add/"+k+"/"+kv.sub, tg, func(n any) any {
						m := map[string]any{}
						for kk, vv := range n.(map[string]any) {
							m[kk] = vv
						}
						m[k] = kv.v
						return m
					})
				}
			}
			// rename existing keys to hostile ones
			for _, ek := range sortedKeys(x) {
				for _, k := range hostileKeys[:6] {
					ek, k := ek, k
					out("jsonkey", "rename/"+k, tg, func(n any) any {
						m := map[string]any{}
						for kk, vv := range n.(map[string]any) {
							if kk == ek {
								m[k] = vv
							} else {
								m[kk] = vv
							}
						}
						return m
					})
				}
				if len(x) > 12 {
					break
				}
			}
		case []any:
			reps := []int{100, 10000}
			if lv.light {
				reps = []int{100}
			}
			for _, rep := range reps {
				rep := rep
				out("jsonarray", fmt.Sprintf("repeat/%d", rep), tg, func(n any) any {
					a := n.([]any)
					var el any = map[string]any{}
					if len(a) > 0 {
						el = a[0]
					}
					o := make([]any, rep)
					for i := range o {
						o[i] = el
					}
					return o
				})
				out("jsonarray", fmt.Sprintf("empty-objects/%d", rep), tg, func(any) any {
					return rawJSON("[" + strings.Repeat("{},", rep-1) + "{}]")
				})
			}
			out("jsonarray", "mixed", tg, func(n any) any {
				return append(append([]any{}, n.([]any)...), nil, "x", json.Number("1"), []any{}, map[string]any{})
			})
		case string:
			l2 := lv
			l2.flips = 6
			l2.embedded = true
			l2.bigDigits = 5000
			textAttacks([]byte(x), rng, l2, lv.nodeExp, func(a tatk) {
				s := string(a.data)
				out("jsonstr-"+a.class, a.sub, tg, func(any) any { return s })
			})
			for _, s := range []string{"1e" + lv.nodeExp + " SC", "1e-" + lv.nodeExp + " SC", "1e" + lv.nodeExp, "-1", "0", "340282366920938463463374607431768211456", strings.Repeat("f", 200), "ed25519:" + strings.Repeat("a", 130), "1::" + strings.Repeat("b", 130),
				"addr:" + strings.Repeat("c", 200), "v1.2.3junk", "v256.0.0", "\u0000", strings.Repeat("a", 1<<16)} {
				s := s
				cls := "jsonstr-hostile"
				if strings.HasPrefix(s, "1e") {
					cls = "exponent"
				}
				out(cls, capStr(s, 16), tg, func(any) any { return s })
			}
		case json.Number:
			for _, h := range hostileNums {
				h := h
				out("jsonnum", capStr(h, 24), tg, func(any) any { return rawJSON(h) })
			}
			out("jsonnum", "as-string", tg, func(n any) any { return string(n.(json.Number)) })
		case bool:
			out("jsonbool", "number", tg, func(any) any { return json.Number("2") })
		}
	}
	// duplicate keys / trailing data / BOM at document level
	emit(tatk{"jsondoc", "trailing", append(cp(doc), []byte(" {}")...)})
	emit(tatk{"jsondoc", "bom", append([]byte("\xef\xbb\xbf"), doc...)})
	if len(doc) > 2 && doc[0] == '{' {
		emit(tatk{"jsondoc", "dupkeys", append(append(cp(doc[:len(doc)-1]), ','), doc[1:]...)})
	}
}
