package main

import (
	"bytes"
	"encoding/hex"
	"encoding/json"
	"fmt"
	"math"
	"math/rand/v2"
	"reflect"
	"runtime"
	"runtime/debug"
	"strings"
	"time"

	"go.sia.tech/core/consensus"
	"go.sia.tech/core/gateway"
	"go.sia.tech/core/types"
	"verif/internal/chaingen"
	"verif/internal/harness"
)

// ---------------------------------------------------------------------------
// Structure-aware validation fuzzing on accepted blocks.

var (
	curMax   = types.NewCurrency(math.MaxUint64, math.MaxUint64)
	cur2p64  = types.NewCurrency(0, 1)
	cur64m1  = types.NewCurrency(math.MaxUint64, 0)
	cur2p127 = types.NewCurrency(0, 1<<63)
)

type valLevel struct {
	blocks   int
	perBlock int // cap of generic variants per accepted block (directed ones are always run)
	maxTxns  int
}

func valLevelOf(b *recB, light bool) valLevel {
	switch {
	case light:
		return valLevel{blocks: 40, perBlock: 20, maxTxns: 4}
	case b.Quick():
		return valLevel{blocks: 165, perBlock: 70, maxTxns: 5}
	default:
		return valLevel{blocks: 300, perBlock: 600, maxTxns: 6}
	}
}

type valmon struct {
	b    *recB
	m    *mon
	c    *chaingen.Chain
	net  *chaingen.Net
	seg  segSpec
	lv   valLevel
	vrng *rand.Rand
	cal  calib
	dest types.Address
}

// mut is one hostile edit of a cloned block.
type mut struct {
	op, field, val string
	f              func(blk *types.Block) bool
	noResign       bool
	raw            bool // block-level edit: do not re-seal
	directed       bool
}

func era(n *consensus.Network, h uint64) string {
	e := chaingen.Era(n, h)
	if h >= n.HardforkV2.AllowHeight && h < n.HardforkV2.EphemeralOutputHeight {
		e += "+legacy-ephemeral"
	}
	return e
}

func runVal(b *recB, m *mon, seg segSpec) {
	lv := valLevelOf(b, seg.Light)
	rng := b.SubRng("val/" + seg.Name)
	v := &valmon{b: b, m: m, seg: seg, lv: lv, vrng: b.SubRng("valvar/" + seg.Name)}
	v.net = chaingen.GenNet(rng, seg.Family, seg.NetIdx)
	if v.guard("chain-genesis", nil, func() { v.c = chaingen.NewChain(v.net, rng) }) {
		return
	}
	c := v.c
	v.dest = c.W.StdV1(c.W.Keys[0]).Addr
	c.OnAccepted = v.onAccepted
	c.OnStoreApplied = func(ev chaingen.ApplyEvent) {
		// accepted => applicable and revertible (the chain generator applied it; revert it here too)
		b.Journal(fmt.Sprintf("apply|revert-accepted-block ord=%d h=%d", m.ord, ev.Next.Index.Height))
		v.guard("revert-accepted-block", func() any { return v.blockWitness(ev.Prev, ev.Block, ev.Supp) }, func() {
			consensus.RevertBlock(ev.Prev, ev.Block, ev.Supp)
		})
		b.Eval(1)
		b.Count("blocks_applied_and_reverted", 1)
		b.SetAdd("eras", era(v.net.N, ev.Next.Index.Height))
		b.Distinct("applied", era(v.net.N, ev.Next.Index.Height), len(ev.Block.Transactions) > 0, ev.Block.V2 != nil, fmt.Sprint(ev.Kinds))
	}
	if seg.NetIdx%4 == 0 {
		v.legacySupply()
	}
	died := false
	hostileUCDone := false
	for done := 0; done < lv.blocks && !died; {
		if !hostileUCDone && c.Height() > 3 {
			v.guard("hostile-unlock-conditions", nil, func() { hostileUCDone = v.hostileUnlockConditions() })
		}
		died = v.guard("apply-accepted-block", nil, func() {
			done += c.Grow(1+rng.IntN(8), chaingen.Plan{MaxTxns: lv.maxTxns})
			if c.Height() > 3 && rng.IntN(6) == 0 {
				k := min(1+rng.IntN(3), int(c.Height())-1)
				for r := 0; r < k; r++ {
					c.RevertTip()
					b.Count("chain_reverts", 1)
				}
			}
		})
		if c.Stats["gen_rejected"] > lv.blocks {
			break
		}
	}
	for k, n := range c.Stats {
		if strings.HasPrefix(k, "gen_rejected:") {
			b.Count("generator_library_disagreement(not judged):"+k[13:], n)
		}
	}
	b.MaxOf("max_chain_height", int64(c.Height()))
	b.Sample(map[string]any{"segment": seg.Name, "network": v.net.Name, "height": c.Height()})
}

// hostileUnlockConditions: an output is first paid to the hash of unlock conditions whose ed25519 keys have every wrong
// length (empty, 16, 31, 33, 40 bytes) beside one good key; then it is spent with a signature naming each key index
// in turn - by a v1 transaction and, where v2 is allowed, through the legacy unlock-conditions policy. Only such a
// two-step history reaches the code that handles the key bytes: the unlock hash must match a funded output first.
func (v *valmon) hostileUnlockConditions() (done bool) {
	c := v.c
	cs := c.Tip()
	h := cs.Index.Height + 1
	n := c.Net.N
	if h+3 >= n.HardforkV2.RequireHeight {
		return true
	}
	var src *types.SiacoinElement
	var lock *chaingen.Lock
	for _, id := range c.S.OrderedSC() {
		el := c.S.SCEs[id]
		l := c.W.Locks[el.SiacoinOutput.Address]
		if l != nil && l.UC != nil && l.Kind != "uc-unknown-alg" && l.SpendableV1(h) && el.MaturityHeight <= h && el.SiacoinOutput.Value.Cmp(types.Siacoins(2)) > 0 {
			ec := el.Copy()
			src, lock = &ec, l
			break
		}
	}
	if src == nil {
		return false
	}
	good := c.W.Keys[2]
	pk := good.PublicKey()
	ed := func(k []byte) types.UnlockKey { return types.UnlockKey{Algorithm: types.SpecifierEd25519, Key: k} }
	uc := types.UnlockConditions{SignaturesRequired: 1, PublicKeys: []types.UnlockKey{ed(nil), ed(pk[:16]), ed(pk[:31]), ed(append(append([]byte(nil), pk[:]...), 0)), ed(append(append([]byte(nil), pk[:]...), 1, 2, 3, 4, 5, 6, 7, 8)), pk.UnlockKey()}}
	pay := c.NewV1Spend(cs, src.ID, src.SiacoinOutput.Value, lock, uc.UnlockHash())
	blk, bs, err := c.BlockWith([]types.Transaction{pay}, nil)
	if err != nil || c.Offer(blk, bs, nil) != nil {
		return false
	}
	cs = c.Tip()
	id := pay.SiacoinOutputID(0)
	for idx := range uc.PublicKeys {
		txn := types.Transaction{
			SiacoinInputs:  []types.SiacoinInput{{ParentID: id, UnlockConditions: uc}},
			SiacoinOutputs: []types.SiacoinOutput{{Value: src.SiacoinOutput.Value, Address: types.VoidAddress}},
			Signatures:     []types.TransactionSignature{{ParentID: types.Hash256(id), PublicKeyIndex: uint64(idx), CoveredFields: types.CoveredFields{WholeTransaction: true}}},
		}
		sig := good.SignHash(cs.WholeSigHash(txn, types.Hash256(id), uint64(idx), 0, nil))
		txn.Signatures[0].Signature = sig[:]
		for _, sl := range []int{64, 0, 10, 65} { // and signatures of every wrong length
			t2 := chaingen.CloneV1(txn)
			if sl < 64 {
				t2.Signatures[0].Signature = t2.Signatures[0].Signature[:sl]
			} else if sl > 64 {
				t2.Signatures[0].Signature = append(t2.Signatures[0].Signature, 9)
			}
			b2, _, err := c.EmptyBlock()
			if err != nil {
				return true
			}
			b2.Transactions = []types.Transaction{t2}
			v.b.Eval(1)
			v.b.Count("hostile_unlock_condition_spends", 1)
			v.guard(fmt.Sprintf("v1-signature-naming-an-ed25519-key-of-%d-bytes", len(uc.PublicKeys[idx].Key)), nil, func() { c.TryVariant(&b2) })
		}
		if h+1 >= n.HardforkV2.AllowHeight {
			if el, ok := c.S.SCEs[id]; ok {
				pol := types.SpendPolicy{Type: types.PolicyTypeUnlockConditions(uc)}
				t2 := types.V2Transaction{SiacoinInputs: []types.V2SiacoinInput{{Parent: el.Copy(), SatisfiedPolicy: types.SatisfiedPolicy{Policy: pol}}}, SiacoinOutputs: []types.SiacoinOutput{{Value: el.SiacoinOutput.Value, Address: types.VoidAddress}}}
				t2.SiacoinInputs[0].SatisfiedPolicy.Signatures = []types.Signature{good.SignHash(cs.InputSigHash(t2))}
				b2, _, err := c.EmptyBlock()
				if err == nil {
					if b2.V2 == nil {
						b2.V2 = &types.V2BlockData{}
					}
					b2.V2.Transactions = []types.V2Transaction{t2}
					v.b.Count("hostile_unlock_condition_spends", 1)
					v.guard("v2-unlock-conditions-policy-with-malformed-ed25519-keys", nil, func() { c.TryVariant(&b2) })
				}
			}
		}
	}
	return true
}

// guard is the crash monitor for the validation workload: panic => violation
// keyed by the innermost core frame and the operator.
func (v *valmon) guard(op string, wit func() any, f func()) (panicked bool) {
	return v.guardKey(op, true, wit, f)
}

// guardKey: directed operators (constructions aimed at one sum / one rule) name
// the finding; the generic field operators are grouped by panic kind so that one
// defect reached through many fields is one finding.
func (v *valmon) guardKey(op string, directed bool, wit func() any, f func()) (panicked bool) {
	defer func() {
		if r := recover(); r != nil {
			panicked = true
			st := string(debug.Stack())
			fr := coreFrame(st)
			msg := fmt.Sprint(r)
			w := map[string]any{"operator": op, "panic": capStr(msg, 400), "stack": harness.TrimStack(st), "segment": v.seg.Name, "network_family": v.seg.Family}
			if wit != nil {
				func() {
					defer func() { recover() }()
					w["case"] = wit()
				}()
			}
			suffix := op
			if !directed {
				suffix = panicKind(msg)
			}
			v.b.Violate(fmt.Sprintf("C10/panic/%s/%s", fr, suffix), fmt.Sprintf("panic in %s under operator %s: %s", fr, op, capStr(msg, 200)), w)
		}
	}()
	f()
	return false
}

func encHex(fn func(e *types.Encoder)) (s string) {
	defer func() {
		if r := recover(); r != nil {
			s = "(not encodable)"
		}
	}()
	var buf bytes.Buffer
	e := types.NewEncoder(&buf)
	fn(e)
	e.Flush()
	if buf.Len() > 60000 {
		return hex.EncodeToString(buf.Bytes()[:60000]) + "...(truncated)"
	}
	return hex.EncodeToString(buf.Bytes())
}

func (v *valmon) blockWitness(cs consensus.State, blk types.Block, bs consensus.V1BlockSupplement) map[string]any {
	w := map[string]any{
		"height":         cs.Index.Height + 1,
		"era":            era(v.net.N, cs.Index.Height+1),
		"state_hex":      encHex(cs.EncodeTo),
		"supplement_hex": encHex(bs.EncodeTo),
		"parent_id":      blk.ParentID.String(),
		"nonce":          blk.Nonce,
		"timestamp":      blk.Timestamp.Unix(),
	}
	if js, err := json.Marshal(v.net.N); err == nil {
		w["network_json"] = json.RawMessage(js)
	}
	var v1s, v2s []string
	for i := range blk.Transactions {
		v1s = append(v1s, encHex(blk.Transactions[i].EncodeTo))
	}
	for _, t := range blk.V2Transactions() {
		t := t
		v2s = append(v2s, encHex(t.EncodeTo))
	}
	w["v1_transactions_hex"], w["v2_transactions_hex"] = v1s, v2s
	if js, err := json.Marshal(blk.MinerPayouts); err == nil {
		w["miner_payouts"] = json.RawMessage(js)
	}
	if blk.V2 != nil {
		w["v2_height"] = blk.V2.Height
		w["v2_commitment"] = blk.V2.Commitment.String()
	}
	return w
}

// ---------------------------------------------------------------------------
// reflection: leaves of a transaction

type leaf struct {
	path string
	kind string // currency | u64 | state | hashes | satisfied | uc | covered | bytes | byteslice | nilptr
	v    reflect.Value
}

var (
	tCurrency  = reflect.TypeOf(types.Currency{})
	tState     = reflect.TypeOf(types.StateElement{})
	tHashes    = reflect.TypeOf([]types.Hash256(nil))
	tSatisfied = reflect.TypeOf(types.SatisfiedPolicy{})
	tPolicy    = reflect.TypeOf(types.SpendPolicy{})
	tUC        = reflect.TypeOf(types.UnlockConditions{})
	tCovered   = reflect.TypeOf(types.CoveredFields{})
	tTime      = reflect.TypeOf(time.Time{})
)

func walkLeaves(v reflect.Value, path string, out *[]leaf) {
	t := v.Type()
	switch t {
	case tCurrency:
		*out = append(*out, leaf{path, "currency", v})
		return
	case tState:
		*out = append(*out, leaf{path, "state", v})
		return
	case tHashes:
		*out = append(*out, leaf{path, "hashes", v})
		return
	case tSatisfied:
		*out = append(*out, leaf{path, "satisfied", v})
		return
	case tPolicy, tTime:
		return
	case tCovered:
		*out = append(*out, leaf{path, "covered", v})
		return
	case tUC:
		*out = append(*out, leaf{path, "uc", v})
		// and descend for Timelock / SignaturesRequired
	}
	switch t.Kind() {
	case reflect.Struct:
		for i := 0; i < t.NumField(); i++ {
			if t.Field(i).IsExported() {
				walkLeaves(v.Field(i), path+"."+t.Field(i).Name, out)
			}
		}
	case reflect.Ptr:
		if v.IsNil() {
			*out = append(*out, leaf{path, "nilptr", v})
		} else {
			walkLeaves(v.Elem(), path, out)
		}
	case reflect.Interface:
		if !v.IsNil() && v.Elem().Kind() == reflect.Ptr && !v.Elem().IsNil() {
			walkLeaves(v.Elem().Elem(), path+"<"+v.Elem().Type().Elem().Name()+">", out)
		}
	case reflect.Slice:
		if t.Elem().Kind() == reflect.Uint8 {
			*out = append(*out, leaf{path, "byteslice", v})
			return
		}
		for i := 0; i < v.Len(); i++ {
			walkLeaves(v.Index(i), fmt.Sprintf("%s[%d]", path, i), out)
		}
	case reflect.Array:
		if t.Elem().Kind() == reflect.Uint8 {
			*out = append(*out, leaf{path, "bytes", v})
		}
	case reflect.Uint64:
		*out = append(*out, leaf{path, "u64", v})
	}
}

func leavesOf(txn any) []leaf {
	var out []leaf
	walkLeaves(reflect.ValueOf(txn).Elem(), "", &out)
	return out
}

func fieldClass(p string) string {
	var sb strings.Builder
	in := false
	for i := 0; i < len(p); i++ {
		switch {
		case p[i] == '[':
			in = true
			sb.WriteString("[]")
		case p[i] == ']':
			in = false
		case !in:
			sb.WriteByte(p[i])
		}
	}
	return sb.String()
}

func fillerHash(i int) (h types.Hash256) {
	h[0], h[1], h[2], h[31] = byte(i), byte(i>>8), 0xC1, 0x0F
	return
}

func resizeProof(old []types.Hash256, n int) []types.Hash256 {
	out := make([]types.Hash256, n)
	for i := range out {
		if i < len(old) {
			out[i] = old[i]
		} else {
			out[i] = fillerHash(i)
		}
	}
	return out
}

func nestPolicy(p types.SpendPolicy, depth int) types.SpendPolicy {
	for i := 0; i < depth; i++ {
		p = types.PolicyThreshold(1, []types.SpendPolicy{p})
	}
	return p
}

func widePolicy(n uint8, width int, child types.SpendPolicy) types.SpendPolicy {
	of := make([]types.SpendPolicy, width)
	for i := range of {
		of[i] = child
	}
	return types.PolicyThreshold(n, of)
}

// ---------------------------------------------------------------------------
// operators

type txnRef struct {
	v2  bool
	idx int
}

func (r txnRef) get(blk *types.Block) any {
	if r.v2 {
		if blk.V2 == nil || r.idx >= len(blk.V2.Transactions) {
			return nil
		}
		return &blk.V2.Transactions[r.idx]
	}
	if r.idx >= len(blk.Transactions) {
		return nil
	}
	return &blk.Transactions[r.idx]
}

func (r txnRef) String() string {
	if r.v2 {
		return fmt.Sprintf("v2[%d]", r.idx)
	}
	return fmt.Sprintf("v1[%d]", r.idx)
}

func (v *valmon) genericMuts(cs consensus.State, tmpl *types.Block, r txnRef) []mut {
	txn := r.get(tmpl)
	if txn == nil {
		return nil
	}
	lv := leavesOf(txn)
	var muts []mut
	ver := "v1"
	if r.v2 {
		ver = "v2"
	}
	at := func(k int, fn func(l leaf)) func(blk *types.Block) bool {
		return func(blk *types.Block) bool {
			t := r.get(blk)
			if t == nil {
				return false
			}
			ls := leavesOf(t)
			if k >= len(ls) || ls[k].kind != lv[k].kind {
				return false
			}
			fn(ls[k])
			return true
		}
	}
	add := func(op string, k int, val string, fn func(l leaf), noResign bool) {
		muts = append(muts, mut{op: op, field: ver + fieldClass(lv[k].path), val: val, f: at(k, fn), noResign: noResign})
	}
	setCur := func(c types.Currency) func(l leaf) {
		return func(l leaf) { l.v.Set(reflect.ValueOf(c)) }
	}

	// all currency values of the transaction
	var curIdx []int
	var curVals []types.Currency
	for k, l := range lv {
		if l.kind == "currency" {
			curIdx = append(curIdx, k)
			curVals = append(curVals, l.v.Interface().(types.Currency))
		}
	}
	n := cs.Elements.NumLeaves
	for k, l := range lv {
		k := k
		switch l.kind {
		case "currency":
			me := l.v.Interface().(types.Currency)
			for _, cv := range []struct {
				s string
				c types.Currency
			}{{"0", types.ZeroCurrency}, {"1", types.NewCurrency64(1)}, {"2^64-1", cur64m1}, {"2^64", cur2p64}, {"2^127", cur2p127}, {"2^128-1", curMax}} {
				add("currency-single", k, cv.s, setCur(cv.c), false)
			}
			seen := map[types.Currency]bool{types.ZeroCurrency: true}
			cnt := 0
			for _, o := range curVals {
				if !seen[o] && cnt < 5 {
					seen[o] = true
					cnt++
					add("currency-single", k, "2^128-1-other", setCur(curMax.Sub(o)), false)
				}
			}
			// compensated: 2^128-1 minus the sum of every other non-parent currency value
			var sum types.Currency
			of := false
			for j, kk := range curIdx {
				if kk == k || strings.Contains(lv[kk].path, ".Parent.") {
					continue
				}
				var o bool
				sum, o = sum.AddWithOverflow(curVals[j])
				of = of || o
			}
			if !of {
				add("currency-compensated", k, "2^128-1-sum(others)", setCur(curMax.Sub(sum)), false)
				if !sum.IsZero() {
					add("currency-compensated", k, "2^128-sum(others)", setCur(curMax.Sub(sum).Add(types.NewCurrency64(1))), false)
				}
			}
			_ = me
		case "u64":
			cur := l.v.Uint()
			if strings.HasSuffix(l.path, "SiafundOutput.Value") || (strings.Contains(l.path, "SiafundOutputs[") && strings.HasSuffix(l.path, ".Value")) {
				for _, x := range []uint64{0, 10000, 10001, math.MaxUint64} {
					x := x
					add("siafund-value", k, fmt.Sprint(x), func(l leaf) { l.v.SetUint(x) }, false)
				}
				continue
			}
			for _, xv := range []struct {
				s string
				x uint64
			}{{"0", 0}, {"1", 1}, {"2^63", 1 << 63}, {"2^64-1", math.MaxUint64}, {"cur+1", cur + 1}, {"cur-1", cur - 1}} {
				xv := xv
				add("uint64-extreme", k, xv.s, func(l leaf) { l.v.SetUint(xv.x) }, false)
			}
		case "state":
			se := l.v.Interface().(types.StateElement)
			for _, li := range []struct {
				s string
				x uint64
			}{{"orig", se.LeafIndex}, {"0", 0}, {"n-1", n - 1}, {"n", n}, {"2^63", 1 << 63}, {"unassigned", types.UnassignedLeafIndex}} {
				for _, pl := range []int{-1, 0, 63, 64, 65, 1000} {
					if li.s == "orig" && pl == -1 {
						continue
					}
					li, pl := li, pl
					ps := "orig"
					if pl >= 0 {
						ps = fmt.Sprint(pl)
					}
					add("leaf-index-proof", k, "leaf="+li.s+"/proof="+ps, func(l leaf) {
						p := l.v.Addr().Interface().(*types.StateElement)
						np := types.StateElement{LeafIndex: li.x, MerkleProof: p.MerkleProof}
						if pl >= 0 {
							np.MerkleProof = resizeProof(p.MerkleProof, pl)
						}
						*p = np
					}, false)
				}
			}
		case "hashes":
			for _, pl := range []int{0, 63, 64, 65, 1000} {
				pl := pl
				add("proof-length", k, fmt.Sprint(pl), func(l leaf) {
					l.v.Set(reflect.ValueOf(resizeProof(l.v.Interface().([]types.Hash256), pl)))
				}, false)
			}
		case "satisfied":
			sp := l.v.Interface().(types.SatisfiedPolicy)
			for _, d := range []int{31, 32, 33, 34, 40} {
				d := d
				add("policy-depth", k, fmt.Sprint(d), func(l leaf) {
					p := l.v.Addr().Interface().(*types.SatisfiedPolicy)
					p.Policy = nestPolicy(sp.Policy, d)
				}, true)
			}
			for _, w := range []struct {
				s     string
				n     uint8
				width int
			}{{"1-of-255", 1, 255}, {"255-of-255", 255, 255}, {"0-of-255", 0, 255}, {"1-of-256", 1, 256}, {"1-of-0", 1, 0}} {
				w := w
				add("policy-width", k, w.s, func(l leaf) {
					p := l.v.Addr().Interface().(*types.SatisfiedPolicy)
					p.Policy = widePolicy(w.n, w.width, types.PolicyAbove(0))
				}, true)
			}
			add("policy-width", k, "5-levels-of-255", func(l leaf) {
				p := l.v.Addr().Interface().(*types.SatisfiedPolicy)
				q := types.PolicyAbove(0)
				for i := 0; i < 5; i++ {
					of := make([]types.SpendPolicy, 255)
					for j := range of {
						of[j] = types.PolicyAbove(uint64(j))
					}
					of[0] = q
					q = types.PolicyThreshold(1, of)
				}
				p.Policy = q
			}, true)
			for _, cnt := range []int{0, 1000} {
				cnt := cnt
				add("policy-witnesses", k, fmt.Sprintf("%d-signatures", cnt), func(l leaf) {
					p := l.v.Addr().Interface().(*types.SatisfiedPolicy)
					p.Signatures = make([]types.Signature, cnt)
				}, true)
				add("policy-witnesses", k, fmt.Sprintf("%d-preimages", cnt), func(l leaf) {
					p := l.v.Addr().Interface().(*types.SatisfiedPolicy)
					p.Preimages = make([][32]byte, cnt)
				}, true)
			}
		case "uc":
			for _, cnt := range []int{0, 256, 1000} {
				cnt := cnt
				add("unlock-keys", k, fmt.Sprintf("%d-keys", cnt), func(l leaf) {
					p := l.v.Addr().Interface().(*types.UnlockConditions)
					var first types.UnlockKey
					if len(p.PublicKeys) > 0 {
						first = p.PublicKeys[0]
					}
					p.PublicKeys = make([]types.UnlockKey, cnt)
					for i := range p.PublicKeys {
						p.PublicKeys[i] = first
					}
				}, true)
			}
			for _, kl := range []int{0, 31, 33, 1000} {
				kl := kl
				add("unlock-keys", k, fmt.Sprintf("key-len-%d", kl), func(l leaf) {
					p := l.v.Addr().Interface().(*types.UnlockConditions)
					if len(p.PublicKeys) > 0 {
						p.PublicKeys[0].Key = make([]byte, kl)
					}
				}, true)
			}
		case "covered":
			cf := l.v.Interface().(types.CoveredFields)
			_ = cf
			tt, _ := txn.(*types.Transaction)
			if tt == nil {
				continue
			}
			lens := map[string]int{"SiacoinInputs": len(tt.SiacoinInputs), "SiacoinOutputs": len(tt.SiacoinOutputs), "FileContracts": len(tt.FileContracts),
				"FileContractRevisions": len(tt.FileContractRevisions), "StorageProofs": len(tt.StorageProofs), "SiafundInputs": len(tt.SiafundInputs),
				"SiafundOutputs": len(tt.SiafundOutputs), "MinerFees": len(tt.MinerFees), "ArbitraryData": len(tt.ArbitraryData), "Signatures": len(tt.Signatures)}
			for fname, ln := range lens {
				for _, whole := range []bool{false, true} {
					for _, xv := range []struct {
						s  string
						xs []uint64
					}{{"len", []uint64{uint64(ln)}}, {"len+1", []uint64{uint64(ln) + 1}}, {"2^63", []uint64{1 << 63}}, {"2^64-1", []uint64{math.MaxUint64}}, {"dup-0-0", []uint64{0, 0}}, {"desc-1-0", []uint64{1, 0}}} {
						fname, whole, xv := fname, whole, xv
						add("covered-fields-index", k, fmt.Sprintf("%s=%s/whole=%v", fname, xv.s, whole), func(l leaf) {
							p := l.v.Addr().Interface().(*types.CoveredFields)
							p.WholeTransaction = whole
							reflect.ValueOf(p).Elem().FieldByName(fname).Set(reflect.ValueOf(append([]uint64(nil), xv.xs...)))
						}, true)
					}
				}
			}
		case "bytes":
			if strings.HasSuffix(l.path, "ParentID") || strings.HasSuffix(l.path, ".Parent.ID") {
				add("parent-missing", k, "random-id", func(l leaf) {
					for i := 0; i < l.v.Len() && i < 32; i++ {
						l.v.Index(i).SetUint(uint64(0xA0 + i))
					}
				}, false)
				add("parent-missing", k, "zero-id", func(l leaf) { l.v.Set(reflect.Zero(l.v.Type())) }, false)
				// swapped: the ID of another parent (possibly of another kind) in this transaction
				cnt := 0
				for k2, l2 := range lv {
					if k2 != k && l2.kind == "bytes" && l2.v.Len() == 32 && cnt < 3 && (strings.HasSuffix(l2.path, "ParentID") || strings.HasSuffix(l2.path, ".Parent.ID")) {
						cnt++
						var id [32]byte
						reflect.Copy(reflect.ValueOf(&id).Elem(), l2.v)
						add("parent-swapped", k, "id-of:"+fieldClass(l2.path), func(l leaf) {
							for i := 0; i < 32 && i < l.v.Len(); i++ {
								l.v.Index(i).SetUint(uint64(id[i]))
							}
						}, false)
					}
				}
			} else {
				add("bytes-flip", k, "bit", func(l leaf) {
					e := l.v.Index(l.v.Len() / 2)
					e.SetUint(e.Uint() ^ 0x10)
				}, strings.Contains(l.path, "Signature"))
			}
		case "byteslice":
			for _, ln := range []int{0, 1, 63, 64, 65, 1000} {
				ln := ln
				add("byteslice-length", k, fmt.Sprint(ln), func(l leaf) { l.v.SetBytes(make([]byte, ln)) }, true)
			}
			if strings.Contains(l.path, "ArbitraryData") {
				for _, ln := range []int{0, 1, 63, 64, 65, 200} {
					ln := ln
					add("foundation-update-garbage", k, fmt.Sprint(ln), func(l leaf) {
						d := append([]byte(nil), types.SpecifierFoundation[:]...)
						for i := 0; i < ln; i++ {
							d = append(d, byte(i*7+1))
						}
						l.v.SetBytes(d)
					}, false)
				}
			}
		case "nilptr":
			add("nil-pointer-set", k, "zero-value", func(l leaf) { l.v.Set(reflect.New(l.v.Type().Elem())) }, false)
		}
	}
	// currency pairs
	type pr struct{ a, b int }
	var pairs []pr
	for i := 0; i < len(curIdx); i++ {
		for j := i + 1; j < len(curIdx); j++ {
			pairs = append(pairs, pr{curIdx[i], curIdx[j]})
		}
	}
	if len(pairs) > 45 {
		v.vrng.Shuffle(len(pairs), func(i, j int) { pairs[i], pairs[j] = pairs[j], pairs[i] })
		pairs = pairs[:45]
	}
	for _, p := range pairs {
		p := p
		for _, pv := range []struct {
			s    string
			x, y types.Currency
		}{{"2^127+2^127", cur2p127, cur2p127}, {"2^128-1+1", curMax, types.NewCurrency64(1)}, {"1+2^128-1", types.NewCurrency64(1), curMax}} {
			pv := pv
			muts = append(muts, mut{op: "currency-pair", field: ver + fieldClass(lv[p.a].path) + "&" + fieldClass(lv[p.b].path), val: pv.s, f: func(blk *types.Block) bool {
				t := r.get(blk)
				if t == nil {
					return false
				}
				ls := leavesOf(t)
				if p.b >= len(ls) || ls[p.a].kind != "currency" || ls[p.b].kind != "currency" {
					return false
				}
				ls[p.a].v.Set(reflect.ValueOf(pv.x))
				ls[p.b].v.Set(reflect.ValueOf(pv.y))
				return true
			}})
		}
	}
	// top-level slices: duplicated / missing / swapped elements
	tv := reflect.ValueOf(txn).Elem()
	for i := 0; i < tv.NumField(); i++ {
		fv := tv.Field(i)
		if fv.Kind() != reflect.Slice || fv.Type().Elem().Kind() == reflect.Uint8 || fv.Len() == 0 {
			continue
		}
		fname := tv.Type().Field(i).Name
		fi := i
		muts = append(muts, mut{op: "element-duplicated", field: ver + "." + fname, val: "first", f: func(blk *types.Block) bool {
			t := r.get(blk)
			if t == nil {
				return false
			}
			f := reflect.ValueOf(t).Elem().Field(fi)
			if f.Len() == 0 {
				return false
			}
			f.Set(reflect.Append(f, f.Index(0)))
			return true
		}})
		muts = append(muts, mut{op: "element-missing", field: ver + "." + fname, val: "first", f: func(blk *types.Block) bool {
			t := r.get(blk)
			if t == nil {
				return false
			}
			f := reflect.ValueOf(t).Elem().Field(fi)
			if f.Len() == 0 {
				return false
			}
			f.Set(f.Slice(1, f.Len()))
			return true
		}})
		if fv.Len() > 1 {
			muts = append(muts, mut{op: "element-swapped", field: ver + "." + fname, val: "0<->1", f: func(blk *types.Block) bool {
				t := r.get(blk)
				if t == nil {
					return false
				}
				f := reflect.ValueOf(t).Elem().Field(fi)
				if f.Len() < 2 {
					return false
				}
				a := reflect.New(f.Type().Elem()).Elem()
				a.Set(f.Index(0))
				f.Index(0).Set(f.Index(1))
				f.Index(1).Set(a)
				return true
			}})
		}
	}
	// v1 signature indices
	if tt, ok := txn.(*types.Transaction); ok {
		for si := range tt.Signatures {
			si := si
			nk := uint64(0)
			for _, in := range tt.SiacoinInputs {
				if types.Hash256(in.ParentID) == tt.Signatures[si].ParentID {
					nk = uint64(len(in.UnlockConditions.PublicKeys))
				}
			}
			for _, xv := range []struct {
				s string
				x uint64
			}{{"len", nk}, {"len+1", nk + 1}, {"2^63", 1 << 63}, {"2^64-1", math.MaxUint64}} {
				xv := xv
				muts = append(muts, mut{op: "signature-key-index", field: "v1.Signatures[].PublicKeyIndex", val: xv.s, noResign: true, f: func(blk *types.Block) bool {
					t, _ := r.get(blk).(*types.Transaction)
					if t == nil || si >= len(t.Signatures) {
						return false
					}
					t.Signatures[si].PublicKeyIndex = xv.x
					return true
				}})
			}
		}
	}
	// v2 resolution types
	if tt, ok := txn.(*types.V2Transaction); ok {
		for ri := range tt.FileContractResolutions {
			ri := ri
			for _, rv := range []struct {
				s string
				f func(parent types.V2FileContractElement) types.V2FileContractResolutionType
			}{
				{"expiration", func(types.V2FileContractElement) types.V2FileContractResolutionType {
					return &types.V2FileContractExpiration{}
				}},
				{"storage-proof-zero", func(types.V2FileContractElement) types.V2FileContractResolutionType { return &types.V2StorageProof{} }},
				{"storage-proof-64-hashes", func(types.V2FileContractElement) types.V2FileContractResolutionType {
					return &types.V2StorageProof{Proof: resizeProof(nil, 64), ProofIndex: types.ChainIndexElement{StateElement: types.StateElement{LeafIndex: 0, MerkleProof: resizeProof(nil, 64)}}}
				}},
				{"renewal-zero", func(types.V2FileContractElement) types.V2FileContractResolutionType {
					return &types.V2FileContractRenewal{}
				}},
				{"renewal-of-parent", func(p types.V2FileContractElement) types.V2FileContractResolutionType {
					return &types.V2FileContractRenewal{NewContract: p.V2FileContract, FinalRenterOutput: p.V2FileContract.RenterOutput, FinalHostOutput: p.V2FileContract.HostOutput}
				}},
			} {
				rv := rv
				muts = append(muts, mut{op: "resolution-type", field: "v2.FileContractResolutions[].Resolution", val: rv.s, f: func(blk *types.Block) bool {
					t, _ := r.get(blk).(*types.V2Transaction)
					if t == nil || ri >= len(t.FileContractResolutions) {
						return false
					}
					t.FileContractResolutions[ri].Resolution = rv.f(t.FileContractResolutions[ri].Parent)
					return true
				}})
			}
		}
	}
	return muts
}

// directedMuts are the constructions aimed at sums that the overflow
// pre-checks do not cover, at the legacy ephemeral window and at deep policies
// that are actually reachable by Verify.
func (v *valmon) directedMuts(cs consensus.State, orig *types.Block) []mut {
	var muts []mut
	n := v.net.N
	h := cs.Index.Height + 1
	v2ok := h >= n.HardforkV2.AllowHeight
	v1ok := h < n.HardforkV2.RequireHeight
	dest := v.dest
	ensureV2 := func(blk *types.Block) {
		if blk.V2 == nil {
			blk.V2 = &types.V2BlockData{}
		}
	}
	anyone := types.PolicyAbove(0)

	if v1ok {
		for _, tv := range []struct {
			s   string
			txn types.Transaction
		}{
			{"output-2^127+fee-2^127", types.Transaction{SiacoinOutputs: []types.SiacoinOutput{{Value: cur2p127, Address: dest}}, MinerFees: []types.Currency{cur2p127}}},
			{"fee-2^127+fee-2^127", types.Transaction{MinerFees: []types.Currency{cur2p127, cur2p127}}},
			{"payout-2^127+fee-2^127", types.Transaction{FileContracts: []types.FileContract{{Payout: cur2p127, WindowStart: h + 5, WindowEnd: h + 10}}, MinerFees: []types.Currency{cur2p127}}},
			{"output-2^128-1+fee-1", types.Transaction{SiacoinOutputs: []types.SiacoinOutput{{Value: curMax, Address: dest}}, MinerFees: []types.Currency{types.NewCurrency64(1)}}},
			{"fee-2^128-1", types.Transaction{MinerFees: []types.Currency{curMax}}},
		} {
			tv := tv
			muts = append(muts, mut{op: "v1-output-plus-fee-overflow", field: "v1.appended-transaction-without-inputs", val: tv.s, directed: true, noResign: true, f: func(blk *types.Block) bool {
				blk.Transactions = append(blk.Transactions, chaingen.CloneV1(tv.txn))
				return true
			}})
		}
	}
	if v1ok {
		// a funded transaction turned into a contract whose proof-output sets each come within the tax of 2^128: no
		// single group of values overflows, the valid set plus the tax does
		for _, tv := range []struct {
			s    string
			each types.Currency
		}{{"valid=missed=2^128-1-5000", curMax.Sub(types.NewCurrency64(5000))}, {"valid=missed=2^128-1", curMax}, {"valid=missed=2^127", cur2p127}} {
			tv := tv
			muts = append(muts, mut{op: "v1-contract-proof-outputs-plus-tax-overflow", field: "v1.transaction-turned-into-a-contract", val: tv.s, directed: true, noResign: true, f: func(blk *types.Block) bool {
				for i := range blk.Transactions {
					t := &blk.Transactions[i]
					if len(t.SiacoinInputs) == 0 || len(t.FileContracts)+len(t.FileContractRevisions)+len(t.StorageProofs)+len(t.SiafundInputs) > 0 {
						continue
					}
					var sum types.Currency
					ok := true
					for _, in := range t.SiacoinInputs {
						el, have := v.c.S.SCEs[in.ParentID]
						ok = ok && have
						sum = sum.Add(el.SiacoinOutput.Value)
					}
					if !ok || sum.IsZero() {
						continue
					}
					t.SiacoinOutputs, t.MinerFees, t.ArbitraryData = nil, nil, nil
					t.FileContracts = []types.FileContract{{Payout: sum, WindowStart: h + 5, WindowEnd: h + 10,
						ValidProofOutputs: []types.SiacoinOutput{{Value: tv.each, Address: dest}}, MissedProofOutputs: []types.SiacoinOutput{{Value: tv.each, Address: dest}}}}
					blk.Transactions = blk.Transactions[:i+1]
					return true
				}
				return false
			}})
		}
	}
	if !v1ok {
		// past the require height a block still decodes with v1 transactions in it; callers hand over either an
		// empty supplement or one entry per transaction (validateAll offers both)
		for _, tv := range []struct {
			s   string
			txn types.Transaction
		}{
			{"arbitrary-data-only", types.Transaction{ArbitraryData: [][]byte{[]byte("v1 after the require height")}}},
			{"fee-only", types.Transaction{MinerFees: []types.Currency{types.NewCurrency64(1)}}},
			{"siacoin-input-of-unknown-parent", types.Transaction{SiacoinInputs: []types.SiacoinInput{{ParentID: types.SiacoinOutputID{1}}}, SiacoinOutputs: []types.SiacoinOutput{{Value: types.NewCurrency64(1), Address: dest}}}},
			{"storage-proof-of-unknown-contract", types.Transaction{StorageProofs: []types.StorageProof{{ParentID: types.FileContractID{2}}}}},
		} {
			tv := tv
			muts = append(muts, mut{op: "v1-transaction-after-require-height", field: "v1.appended-transaction", val: tv.s, directed: true, noResign: true, f: func(blk *types.Block) bool {
				blk.Transactions = append(blk.Transactions, chaingen.CloneV1(tv.txn))
				return true
			}})
		}
	}
	if v1ok && len(orig.Transactions) > 0 {
		// IDs of every element an earlier v1 transaction of the block touches, by kind; a later transaction
		// then names such an ID as a parent of ANOTHER kind
		ids := map[string][]types.Hash256{}
		addID := func(kind string, id types.Hash256) { ids[kind] = append(ids[kind], id) }
		for i := range orig.Transactions {
			t := &orig.Transactions[i]
			for _, in := range t.SiacoinInputs {
				addID("siacoin", types.Hash256(in.ParentID))
			}
			for k := range t.SiacoinOutputs {
				addID("siacoin", types.Hash256(t.SiacoinOutputID(k)))
			}
			for _, in := range t.SiafundInputs {
				addID("siafund", types.Hash256(in.ParentID))
				addID("siacoin", types.Hash256(in.ParentID.ClaimOutputID()))
			}
			for k := range t.SiafundOutputs {
				addID("siafund", types.Hash256(t.SiafundOutputID(k)))
			}
			for k := range t.FileContracts {
				addID("contract", types.Hash256(t.FileContractID(k)))
			}
			for _, r := range t.FileContractRevisions {
				addID("contract", types.Hash256(r.ParentID))
			}
			for _, sp := range t.StorageProofs {
				addID("contract", types.Hash256(sp.ParentID))
			}
		}
		refs := []struct {
			kind string
			mk   func(id types.Hash256) types.Transaction
		}{
			{"siacoin", func(id types.Hash256) types.Transaction {
				return types.Transaction{SiacoinInputs: []types.SiacoinInput{{ParentID: types.SiacoinOutputID(id)}}, SiacoinOutputs: []types.SiacoinOutput{{Value: types.NewCurrency64(1), Address: dest}}}
			}},
			{"siafund", func(id types.Hash256) types.Transaction {
				return types.Transaction{SiafundInputs: []types.SiafundInput{{ParentID: types.SiafundOutputID(id)}}, SiafundOutputs: []types.SiafundOutput{{Value: 1, Address: dest}}}
			}},
			{"contract", func(id types.Hash256) types.Transaction {
				return types.Transaction{FileContractRevisions: []types.FileContractRevision{{ParentID: types.FileContractID(id), FileContract: types.FileContract{RevisionNumber: 1, WindowStart: h + 5, WindowEnd: h + 10}}}}
			}},
			{"contract-proof", func(id types.Hash256) types.Transaction {
				return types.Transaction{StorageProofs: []types.StorageProof{{ParentID: types.FileContractID(id)}}}
			}},
		}
		for _, ref := range refs {
			for _, idKind := range []string{"siacoin", "siafund", "contract"} {
				if strings.HasPrefix(ref.kind, idKind) || len(ids[idKind]) == 0 {
					continue
				}
				l := ids[idKind]
				pick := map[string]types.Hash256{"first": l[0], "last": l[len(l)-1]}
				for which, id := range pick {
					ref, id := ref, id
					muts = append(muts, mut{op: "cross-kind-parent-id", field: "v1.appended-transaction." + ref.kind + "-parent", val: which + "-" + idKind + "-id-of-the-block", directed: true, noResign: true, f: func(blk *types.Block) bool {
						blk.Transactions = append(blk.Transactions, ref.mk(id))
						return true
					}})
				}
			}
		}
	}
	if !v2ok {
		return muts
	}
	// v2: an in-block ("ephemeral") siacoin / siafund parent whose ID is that of an element of ANOTHER kind created
	// earlier in the block. MidState keeps one id->index map for all kinds, so the index found may point past the
	// end of the siacoin / siafund diff list: the v2 part of the block is replaced by an attestation-only transaction
	// (no siacoin element at all) followed by the spend.
	for _, nAtt := range []int{1, 3} {
		for _, kind := range []string{"siacoin", "siafund"} {
			nAtt, kind := nAtt, kind
			muts = append(muts, mut{op: "cross-kind-parent-id", field: "v2.appended-transaction.ephemeral-" + kind + "-parent", val: fmt.Sprintf("id-of-attestation-%d-of-%d-of-the-block", nAtt-1, nAtt), directed: true, noResign: true, f: func(blk *types.Block) bool {
				key := v.c.W.Keys[0]
				var a types.V2Transaction
				for k := 0; k < nAtt; k++ {
					a.Attestations = append(a.Attestations, types.Attestation{PublicKey: key.PublicKey(), Key: fmt.Sprintf("k%d", k), Value: []byte{byte(k)}})
				}
				v.c.SignV2(cs, &a, nil)
				id := a.AttestationID(a.ID(), nAtt-1)
				var sp types.V2Transaction
				if kind == "siacoin" {
					sp = types.V2Transaction{SiacoinInputs: []types.V2SiacoinInput{{Parent: types.SiacoinElement{ID: types.SiacoinOutputID(id), StateElement: types.StateElement{LeafIndex: types.UnassignedLeafIndex}, SiacoinOutput: types.SiacoinOutput{Value: types.NewCurrency64(1), Address: types.AnyoneCanSpend().Address()}}, SatisfiedPolicy: types.SatisfiedPolicy{Policy: types.AnyoneCanSpend()}}}, MinerFee: types.NewCurrency64(1)}
				} else {
					sp = types.V2Transaction{SiafundInputs: []types.V2SiafundInput{{Parent: types.SiafundElement{ID: types.SiafundOutputID(id), StateElement: types.StateElement{LeafIndex: types.UnassignedLeafIndex}, SiafundOutput: types.SiafundOutput{Value: 1, Address: types.AnyoneCanSpend().Address()}}, SatisfiedPolicy: types.SatisfiedPolicy{Policy: types.AnyoneCanSpend()}}}, SiafundOutputs: []types.SiafundOutput{{Value: 1, Address: dest}}}
				}
				blk.Transactions = nil
				if blk.V2 == nil {
					blk.V2 = &types.V2BlockData{}
				}
				blk.V2.Transactions = []types.V2Transaction{a, sp}
				return true
			}})
		}
	}
	for j := range orig.V2Transactions() {
		j := j
		t := &orig.V2.Transactions[j]
		if len(t.SiacoinInputs) > 0 {
			// a renewal whose rollover is as large as the overflow pre-check allows
			for _, rv := range []struct {
				s     string
				r, hh types.Currency
			}{{"renter=2^128-1", curMax, types.ZeroCurrency}, {"host=2^128-1", types.ZeroCurrency, curMax}, {"renter=2^127/host=2^127-1", cur2p127, cur2p127.Sub(types.NewCurrency64(1))}} {
				rv := rv
				muts = append(muts, mut{op: "renewal-rollover-overflow", field: "v2.inputs+renewal-rollover(outputs-stripped)", val: rv.s, directed: true, f: func(blk *types.Block) bool {
					tt := &blk.V2.Transactions[j]
					var parent types.V2FileContractElement
					found := false
					for _, res := range tt.FileContractResolutions {
						parent, found = res.Parent.Copy(), true
						break
					}
					if !found {
						for _, id := range v.c.S.OrderedV2FC() {
							parent, found = v.c.S.V2FCEs[id].Copy(), true
							break
						}
					}
					if !found {
						parent = types.V2FileContractElement{ID: types.FileContractID{1}, StateElement: types.StateElement{LeafIndex: 0}}
					}
					*tt = types.V2Transaction{SiacoinInputs: tt.SiacoinInputs,
						FileContractResolutions: []types.V2FileContractResolution{{Parent: parent, Resolution: &types.V2FileContractRenewal{RenterRollover: rv.r, HostRollover: rv.hh}}}}
					return true
				}})
			}
			// the same on the unstripped transaction: rollover = 2^128-1 minus everything the pre-check sums
			for ri, res := range t.FileContractResolutions {
				if _, ok := res.Resolution.(*types.V2FileContractRenewal); !ok {
					continue
				}
				ri := ri
				for _, host := range []bool{false, true} {
					host := host
					muts = append(muts, mut{op: "renewal-rollover-overflow", field: "v2.renewal-rollover(compensated)", val: fmt.Sprintf("host=%v", host), directed: true, f: func(blk *types.Block) bool {
						tt := &blk.V2.Transactions[j]
						ren := tt.FileContractResolutions[ri].Resolution.(*types.V2FileContractRenewal)
						ren.RenterRollover, ren.HostRollover = types.ZeroCurrency, types.ZeroCurrency
						var sum types.Currency
						of := false
						addc := func(c types.Currency) {
							var o bool
							sum, o = sum.AddWithOverflow(c)
							of = of || o
						}
						addfc := func(fc types.V2FileContract) {
							addc(fc.RenterOutput.Value)
							addc(fc.HostOutput.Value)
							addc(fc.MissedHostValue)
							addc(fc.TotalCollateral)
							addc(cs.V2FileContractTax(fc))
						}
						for _, o := range tt.SiacoinOutputs {
							addc(o.Value)
						}
						for _, fc := range tt.FileContracts {
							addfc(fc)
						}
						for _, rr := range tt.FileContractRevisions {
							addfc(rr.Revision)
						}
						for _, rr := range tt.FileContractResolutions {
							if r2, ok := rr.Resolution.(*types.V2FileContractRenewal); ok {
								addfc(r2.NewContract)
								addc(r2.FinalRenterOutput.Value)
								addc(r2.FinalHostOutput.Value)
								addc(r2.RenterRollover)
								addc(r2.HostRollover)
							}
						}
						addc(tt.MinerFee)
						if of {
							return false
						}
						if host {
							ren.HostRollover = curMax.Sub(sum)
						} else {
							ren.RenterRollover = curMax.Sub(sum)
						}
						return true
					}})
				}
			}
		}
		// ephemeral inputs claiming 2^128-1 (the claimed value is not checked below EphemeralOutputHeight)
		for ii, in := range t.SiacoinInputs {
			if in.Parent.StateElement.LeafIndex != types.UnassignedLeafIndex {
				continue
			}
			ii := ii
			muts = append(muts, mut{op: "ephemeral-claim-overflow", field: "v2.SiacoinInputs[].Parent.SiacoinOutput.Value(ephemeral)", val: "2^128-1", directed: true, f: func(blk *types.Block) bool {
				tt := &blk.V2.Transactions[j]
				tt.SiacoinInputs[ii].Parent.SiacoinOutput.Value = curMax
				return true
			}})
		}
		for ii, in := range t.SiafundInputs {
			if in.Parent.StateElement.LeafIndex != types.UnassignedLeafIndex {
				continue
			}
			ii := ii
			muts = append(muts, mut{op: "ephemeral-siafund-claim-start", field: "v2.SiafundInputs[].Parent.ClaimStart(ephemeral)", val: "2^128-1", directed: true, f: func(blk *types.Block) bool {
				blk.V2.Transactions[j].SiafundInputs[ii].Parent.ClaimStart = curMax
				return true
			}})
		}
		if len(t.SiafundOutputs) > 0 {
			// pay siafunds to an anyone-can-spend address, then spend that ephemeral output with a claim start
			// above the current tax revenue (not checked below EphemeralOutputHeight)
			for _, cs0 := range []struct {
				s string
				c types.Currency
			}{{"2^128-1", curMax}, {"2^127", cur2p127}} {
				cs0 := cs0
				muts = append(muts, mut{op: "ephemeral-siafund-claim-start", field: "v2.appended-spend-of-ephemeral-siafund-output", val: cs0.s, directed: true, f: func(blk *types.Block) bool {
					tt := &blk.V2.Transactions[j]
					if referencedLater(blk, j) {
						return false
					}
					o0 := tt.SiafundOutputs[0]
					tt.SiafundOutputs[0].Address = anyone.Address()
					v.c.SignV2(cs, tt, nil)
					id := tt.ID()
					spend := types.V2Transaction{SiafundInputs: []types.V2SiafundInput{{Parent: types.SiafundElement{ID: tt.SiafundOutputID(id, 0), StateElement: types.StateElement{LeafIndex: types.UnassignedLeafIndex},
						SiafundOutput: types.SiafundOutput{Value: o0.Value, Address: anyone.Address()}, ClaimStart: cs0.c}, ClaimAddress: dest, SatisfiedPolicy: types.SatisfiedPolicy{Policy: anyone}}},
						SiafundOutputs: []types.SiafundOutput{{Value: o0.Value, Address: dest}}}
					blk.V2.Transactions = append(blk.V2.Transactions, spend)
					return true
				}})
			}
		}
		if len(t.SiafundOutputs) > 0 {
			// the same ephemeral siafund output spent with a claimed VALUE far above the siafund count (the claim is
			// revenue/count*value), alone and as a pair whose values wrap around to the sum of the outputs
			for _, pair := range []bool{false, true} {
				pair := pair
				val := "2^63"
				if pair {
					val = "2^63+2^63"
				}
				muts = append(muts, mut{op: "ephemeral-siafund-value", field: "v2.appended-spend-of-ephemeral-siafund-output", val: val, directed: true, f: func(blk *types.Block) bool {
					tt := &blk.V2.Transactions[j]
					if referencedLater(blk, j) {
						return false
					}
					o0 := tt.SiafundOutputs[0]
					if pair && o0.Value < 2 {
						return false
					}
					tt.SiafundOutputs[0].Address = anyone.Address()
					if pair {
						tt.SiafundOutputs[0].Value = o0.Value - 1
						tt.SiafundOutputs = append(tt.SiafundOutputs, types.SiafundOutput{Value: 1, Address: anyone.Address()})
					}
					v.c.SignV2(cs, tt, nil)
					id := tt.ID()
					mk := func(i int) types.V2SiafundInput {
						return types.V2SiafundInput{Parent: types.SiafundElement{ID: tt.SiafundOutputID(id, i), StateElement: types.StateElement{LeafIndex: types.UnassignedLeafIndex},
							SiafundOutput: types.SiafundOutput{Value: 1 << 63, Address: anyone.Address()}}, ClaimAddress: dest, SatisfiedPolicy: types.SatisfiedPolicy{Policy: anyone}}
					}
					spend := types.V2Transaction{SiafundInputs: []types.V2SiafundInput{mk(0)}, SiafundOutputs: []types.SiafundOutput{{Value: 1 << 63, Address: dest}}}
					if pair {
						spend = types.V2Transaction{SiafundInputs: []types.V2SiafundInput{mk(0), mk(len(tt.SiafundOutputs) - 1)}, ArbitraryData: []byte{1}}
					}
					blk.V2.Transactions = append(blk.V2.Transactions, spend)
					return true
				}})
			}
		}
		if len(t.SiacoinOutputs) > 0 {
			// pay to anyone-can-spend outputs, then spend them in a later transaction of the block, claiming 2^128-1 each
			for _, cl := range []struct {
				s    string
				a, b types.Currency
			}{{"2^128-1+2^128-1", curMax, curMax}, {"2^127+2^127", cur2p127, cur2p127}, {"2^128-1+1", curMax, types.NewCurrency64(1)}} {
				cl := cl
				muts = append(muts, mut{op: "ephemeral-claim-overflow", field: "v2.appended-spend-of-two-ephemeral-outputs", val: cl.s, directed: true, f: func(blk *types.Block) bool {
					tt := &blk.V2.Transactions[j]
					if referencedLater(blk, j) {
						return false
					}
					o0 := tt.SiacoinOutputs[0]
					if o0.Value.Cmp(types.NewCurrency64(2)) < 0 {
						return false
					}
					tt.SiacoinOutputs[0] = types.SiacoinOutput{Value: o0.Value.Sub(types.NewCurrency64(1)), Address: anyone.Address()}
					tt.SiacoinOutputs = append(tt.SiacoinOutputs, types.SiacoinOutput{Value: types.NewCurrency64(1), Address: anyone.Address()})
					v.c.SignV2(cs, tt, nil)
					id := tt.ID()
					last := len(tt.SiacoinOutputs) - 1
					mk := func(i int, claim types.Currency) types.V2SiacoinInput {
						return types.V2SiacoinInput{Parent: types.SiacoinElement{ID: tt.SiacoinOutputID(id, i), StateElement: types.StateElement{LeafIndex: types.UnassignedLeafIndex},
							SiacoinOutput: types.SiacoinOutput{Value: claim, Address: anyone.Address()}}, SatisfiedPolicy: types.SatisfiedPolicy{Policy: anyone}}
					}
					spend := types.V2Transaction{SiacoinInputs: []types.V2SiacoinInput{mk(0, cl.a), mk(last, cl.b)}, SiacoinOutputs: []types.SiacoinOutput{{Value: o0.Value, Address: dest}}}
					blk.V2.Transactions = append(blk.V2.Transactions, spend)
					return true
				}})
			}
			// pay to a deep / wide policy, then spend it: Verify really walks the policy
			for _, pv := range []struct {
				s string
				p types.SpendPolicy
			}{
				{"depth-1", nestPolicy(anyone, 1)}, {"depth-31", nestPolicy(anyone, 31)}, {"depth-32", nestPolicy(anyone, 32)}, {"depth-33", nestPolicy(anyone, 33)}, {"depth-40", nestPolicy(anyone, 40)},
				{"depth-1000", nestPolicy(anyone, 1000)},
				{"1-of-255", widePolicy(1, 255, anyone)}, {"255-of-255", widePolicy(255, 255, anyone)}, {"0-of-255", widePolicy(0, 255, anyone)}, {"1-of-256", widePolicy(1, 256, anyone)},
				{"depth-30-of-255", func() types.SpendPolicy {
					p := anyone
					for i := 0; i < 30; i++ {
						of := make([]types.SpendPolicy, 255)
						for k := range of {
							of[k] = types.SpendPolicy{Type: types.PolicyTypeOpaque{}}
						}
						of[0] = p
						p = types.PolicyThreshold(1, of)
					}
					return p
				}()},
			} {
				pv := pv
				muts = append(muts, mut{op: "deep-policy-spend", field: "v2.appended-spend-of-output-locked-by-policy", val: pv.s, directed: true, noResign: true, f: func(blk *types.Block) bool {
					tt := &blk.V2.Transactions[j]
					if referencedLater(blk, j) {
						return false
					}
					addr := pv.p.Address()
					o0 := tt.SiacoinOutputs[0]
					if o0.Value.IsZero() {
						return false
					}
					tt.SiacoinOutputs[0].Address = addr
					v.c.SignV2(cs, tt, nil)
					id := tt.ID()
					spend := types.V2Transaction{SiacoinInputs: []types.V2SiacoinInput{{Parent: types.SiacoinElement{ID: tt.SiacoinOutputID(id, 0), StateElement: types.StateElement{LeafIndex: types.UnassignedLeafIndex},
						SiacoinOutput: types.SiacoinOutput{Value: o0.Value, Address: addr}}, SatisfiedPolicy: types.SatisfiedPolicy{Policy: pv.p}}},
						SiacoinOutputs: []types.SiacoinOutput{{Value: o0.Value, Address: dest}}}
					blk.V2.Transactions = append(blk.V2.Transactions, spend)
					return true
				}})
			}
		}
	}
	// v2 transactions that need no parent at all
	for _, tv := range []struct {
		s   string
		txn types.V2Transaction
	}{
		{"fee-2^128-1", types.V2Transaction{MinerFee: curMax}},
		{"output-2^127+fee-2^127", types.V2Transaction{SiacoinOutputs: []types.SiacoinOutput{{Value: cur2p127, Address: dest}}, MinerFee: cur2p127}},
		{"renewal-rollover-2^128-1-without-inputs", types.V2Transaction{FileContractResolutions: []types.V2FileContractResolution{{Parent: types.V2FileContractElement{ID: types.FileContractID{2}}, Resolution: &types.V2FileContractRenewal{RenterRollover: curMax}}}}},
		{"contract-2^127+2^127", types.V2Transaction{FileContracts: []types.V2FileContract{{RenterOutput: types.SiacoinOutput{Value: cur2p127}, HostOutput: types.SiacoinOutput{Value: cur2p127}}}}},
		{"contract-2^127+2^127-1", types.V2Transaction{FileContracts: []types.V2FileContract{{RenterOutput: types.SiacoinOutput{Value: cur2p127}, HostOutput: types.SiacoinOutput{Value: cur2p127.Sub(types.NewCurrency64(1))}}}}},
		{"contract-collateral-2^128-1", types.V2Transaction{FileContracts: []types.V2FileContract{{TotalCollateral: curMax, MissedHostValue: curMax}}}},
	} {
		tv := tv
		muts = append(muts, mut{op: "v2-parentless-extreme", field: "v2.appended-transaction-without-inputs", val: tv.s, directed: true, noResign: true, f: func(blk *types.Block) bool {
			ensureV2(blk)
			blk.V2.Transactions = append(blk.V2.Transactions, chaingen.CloneV2(tv.txn))
			return true
		}})
	}
	return muts
}

// referencedLater reports whether an output of v2 transaction j is spent by a
// later transaction of the block (its ID must then stay unchanged).
func referencedLater(blk *types.Block, j int) bool {
	t := &blk.V2.Transactions[j]
	id := t.ID()
	ids := map[[32]byte]bool{}
	for i := range t.SiacoinOutputs {
		ids[t.SiacoinOutputID(id, i)] = true
	}
	for i := range t.SiafundOutputs {
		ids[t.SiafundOutputID(id, i)] = true
	}
	for i := range t.FileContracts {
		ids[t.V2FileContractID(id, i)] = true
	}
	for k := j + 1; k < len(blk.V2.Transactions); k++ {
		for _, in := range blk.V2.Transactions[k].SiacoinInputs {
			if ids[in.Parent.ID] {
				return true
			}
		}
		for _, in := range blk.V2.Transactions[k].SiafundInputs {
			if ids[in.Parent.ID] {
				return true
			}
		}
		for _, r := range blk.V2.Transactions[k].FileContractRevisions {
			if ids[r.Parent.ID] {
				return true
			}
		}
		for _, r := range blk.V2.Transactions[k].FileContractResolutions {
			if ids[r.Parent.ID] {
				return true
			}
		}
	}
	return false
}

func (v *valmon) blockMuts(cs consensus.State, orig *types.Block) []mut {
	var muts []mut
	add := func(field, val string, f func(blk *types.Block) bool) {
		muts = append(muts, mut{op: "block-field", field: field, val: val, raw: true, noResign: true, directed: true, f: f})
	}
	add("MinerPayouts", "none", func(blk *types.Block) bool { blk.MinerPayouts = nil; return true })
	add("MinerPayouts", "zero-value", func(blk *types.Block) bool {
		blk.MinerPayouts = []types.SiacoinOutput{{Value: types.ZeroCurrency}}
		return true
	})
	add("MinerPayouts", "2^128-1+2^128-1", func(blk *types.Block) bool {
		blk.MinerPayouts = []types.SiacoinOutput{{Value: curMax}, {Value: curMax}}
		return true
	})
	add("MinerPayouts", "1000-payouts", func(blk *types.Block) bool {
		blk.MinerPayouts = make([]types.SiacoinOutput, 1000)
		for i := range blk.MinerPayouts {
			blk.MinerPayouts[i].Value = types.NewCurrency64(1)
		}
		return true
	})
	add("Timestamp", "max-int64", func(blk *types.Block) bool { blk.Timestamp = time.Unix(math.MaxInt64, 0); return true })
	add("Timestamp", "min-int64", func(blk *types.Block) bool { blk.Timestamp = time.Unix(math.MinInt64, 0); return true })
	add("Timestamp", "0", func(blk *types.Block) bool { blk.Timestamp = time.Unix(0, 0); return true })
	add("Nonce", "2^64-1", func(blk *types.Block) bool { blk.Nonce = math.MaxUint64; return true })
	add("ParentID", "zero", func(blk *types.Block) bool { blk.ParentID = types.BlockID{}; return true })
	if orig.V2 != nil {
		add("V2.Height", "0", func(blk *types.Block) bool { blk.V2.Height = 0; return true })
		add("V2.Height", "2^64-1", func(blk *types.Block) bool { blk.V2.Height = math.MaxUint64; return true })
		add("V2", "nil", func(blk *types.Block) bool { blk.V2 = nil; return true })
		add("V2.Commitment", "zero", func(blk *types.Block) bool { blk.V2.Commitment = types.Hash256{}; return true })
	} else {
		add("V2", "empty-v2-data", func(blk *types.Block) bool { blk.V2 = &types.V2BlockData{}; return true })
		add("V2", "v2-data-height-2^64-1", func(blk *types.Block) bool { blk.V2 = &types.V2BlockData{Height: math.MaxUint64}; return true })
	}
	return muts
}

// ---------------------------------------------------------------------------
// evaluation

func roundTripV1(t types.Transaction) (out types.Transaction, err error, panicked bool) {
	defer func() {
		if r := recover(); r != nil {
			panicked = true
		}
	}()
	var buf bytes.Buffer
	e := types.NewEncoder(&buf)
	t.EncodeTo(e)
	e.Flush()
	d := types.NewBufDecoder(buf.Bytes())
	out.DecodeFrom(d)
	return out, d.Err(), false
}

func roundTripV2(t types.V2Transaction) (out types.V2Transaction, n int, err error, panicked bool) {
	defer func() {
		if r := recover(); r != nil {
			panicked = true
		}
	}()
	var buf bytes.Buffer
	e := types.NewEncoder(&buf)
	t.EncodeTo(e)
	e.Flush()
	d := types.NewBufDecoder(buf.Bytes())
	out.DecodeFrom(d)
	return out, buf.Len(), d.Err(), false
}

func (v *valmon) onAccepted(cs consensus.State, orig types.Block, bs consensus.V1BlockSupplement, kinds []string) {
	b := v.b
	h := cs.Index.Height + 1
	er := era(v.net.N, h)

	// calibrate the CPU bound on the accepted block itself (and measure it like a variant)
	{
		sz := 200
		for i := range orig.Transactions {
			sz += len(encBytes(orig.Transactions[i].EncodeTo))
		}
		for _, t := range orig.V2Transactions() {
			t := t
			sz += len(encBytes(t.EncodeTo))
		}
		c0 := threadCPU()
		err := consensus.ValidateBlock(cs, orig, bs)
		v.cal.cpuNs += threadCPU() - c0
		v.cal.bytes += int64(sz)
		if err == nil {
			b.Count("positive_control_original_block_accepted_again", 1)
		}
	}

	if v.seg.Parts > 1 && int(h%uint64(v.seg.Parts)) != v.seg.Part {
		return
	}
	tmpl := chaingen.CloneBlock(orig)
	var directed, generic []mut
	directed = append(directed, v.directedMuts(cs, &tmpl)...)
	directed = append(directed, v.blockMuts(cs, &tmpl)...)
	for i := range tmpl.Transactions {
		generic = append(generic, v.genericMuts(cs, &tmpl, txnRef{false, i})...)
	}
	for j := range tmpl.V2Transactions() {
		generic = append(generic, v.genericMuts(cs, &tmpl, txnRef{true, j})...)
	}
	if len(generic) > v.lv.perBlock {
		// keep a sample that is stratified by operator
		v.vrng.Shuffle(len(generic), func(i, j int) { generic[i], generic[j] = generic[j], generic[i] })
		// ... and by field: first one variant of every (operator, field class), then a random fill
		perField := map[string]int{}
		var keep, rest []mut
		for _, mt := range generic {
			if k := mt.op + "|" + mt.field; perField[k] < 1 && len(keep) < 2*v.lv.perBlock {
				perField[k]++
				keep = append(keep, mt)
			} else {
				rest = append(rest, mt)
			}
		}
		for len(keep) < v.lv.perBlock && len(rest) > 0 {
			keep = append(keep, rest[0])
			rest = rest[1:]
		}
		generic = keep
	}
	for _, mt := range append(directed, generic...) {
		v.evaluate(cs, orig, mt, h, er)
	}
}

func encBytes(fn func(e *types.Encoder)) (out []byte) {
	defer func() {
		if r := recover(); r != nil {
			out = nil
		}
	}()
	var buf bytes.Buffer
	e := types.NewEncoder(&buf)
	fn(e)
	e.Flush()
	return buf.Bytes()
}

type valOutcome struct {
	err      error
	accepted bool
	panicked bool
}

func (v *valmon) evaluate(cs consensus.State, orig types.Block, mt mut, h uint64, er string) {
	b, m := v.b, v.m
	m.ord++
	if m.ord <= m.skip {
		return
	}
	if m.abandon["validate|"+mt.op] {
		b.Count("cases_not_run_after_repeated_process_fatal_inputs", 1)
		return
	}
	b.tick()
	blk := chaingen.CloneBlock(orig)
	applied := false
	if !safely(func() { applied = mt.f(&blk) }) || !applied {
		b.Count("variants_not_applicable", 1)
		return
	}
	if !mt.noResign {
		ok := safely(func() {
			for i := range blk.Transactions {
				v.c.SignV1(cs, &blk.Transactions[i], nil)
			}
			for j := range blk.V2Transactions() {
				v.c.SignV2(cs, &blk.V2.Transactions[j], nil)
			}
		})
		if !ok {
			b.Count("variants_resign_failed(own signer; variant kept unsigned)", 1)
		}
	}
	// only wire-representable objects are judged: every transaction goes through its codec
	size := 200
	for i := range blk.Transactions {
		out, err, p := roundTripV1(blk.Transactions[i])
		if p {
			b.Count("variants_not_encodable(not judged)", 1)
			return
		}
		if err != nil {
			b.Count("variants_refused_by_decoder(not validated)", 1)
			b.Distinct("variant-undecodable", mt.op, mt.field, mt.val)
			return
		}
		blk.Transactions[i] = out
		size += len(encBytes(out.EncodeTo))
	}
	for j := range blk.V2Transactions() {
		out, n, err, p := roundTripV2(blk.V2.Transactions[j])
		if p {
			b.Count("variants_not_encodable(not judged)", 1)
			return
		}
		if err != nil {
			b.Count("variants_refused_by_decoder(not validated)", 1)
			b.Distinct("variant-undecodable", mt.op, mt.field, mt.val)
			return
		}
		blk.V2.Transactions[j] = out
		size += n
	}

	if m.journaled > 3000 {
		b.JournalReset()
		m.journaled = 0
	}
	m.journaled++
	b.Journal(fmt.Sprintf("validate|%s ord=%d h=%d era=%s field=%s val=%s", mt.op, m.ord, h, er, mt.field, mt.val))
	wit := func() any {
		w := v.blockWitness(cs, blk, v.c.SupplementFor(blk))
		w["operator"], w["field"], w["value"] = mt.op, mt.field, mt.val
		return w
	}

	var out valOutcome
	run := func() {
		out = valOutcome{}
		out.panicked = v.guardKey(mt.op, mt.directed && !mt.raw, wit, func() { out = v.validateAll(cs, &blk, mt) })
	}
	var m0, m1 runtime.MemStats
	runtime.ReadMemStats(&m0)
	c0 := threadCPU()
	run()
	cpu := threadCPU() - c0
	runtime.ReadMemStats(&m1)
	alloc := m1.TotalAlloc - m0.TotalAlloc

	b.Eval(1)
	b.Count("validation_variants", 1)
	b.Count("alloc_batches_measured", 1)
	b.Count("cpu_calls_measured", 1)
	b.SetAdd("operators", mt.op)
	cls := "panic"
	switch {
	case out.panicked:
		b.Count("variants_panicked", 1)
	case out.accepted:
		cls = "accepted"
		b.Count("variants_accepted_then_applied_and_reverted", 1)
		b.SetAdd("operators_with_accepted_variants", mt.op+" "+mt.field+"="+mt.val)
	default:
		cls = chaingen.NormErr(out.err)
		b.Count("variants_rejected", 1)
		b.SetAdd("rejection_classes", capStr(cls, 90))
	}
	b.Distinct("variant", mt.op, mt.field, mt.val, er, capStr(cls, 60))

	if !out.panicked && alloc > allocBound(size) {
		runtime.GC()
		runtime.ReadMemStats(&m0)
		run()
		runtime.ReadMemStats(&m1)
		a2 := m1.TotalAlloc - m0.TotalAlloc
		b.Count("alloc_solo_measurements", 1)
		if a2 > allocBound(size) {
			site := topAllocSite(run)
			if site == "" {
				site = "consensus.ValidateBlock"
			}
			w := wit().(map[string]any)
			w["allocated_bytes_solo"], w["bound_bytes"], w["encoded_size"] = a2, allocBound(size), size
			b.Violate(fmt.Sprintf("C10/alloc/%s/%s", site, mt.op), fmt.Sprintf("validating a %d-byte variant (%s %s=%s) allocated %d bytes (bound %d), measured alone", size, mt.op, mt.field, mt.val, a2, allocBound(size)), w)
		}
	}
	c := 2000.0
	if v.cal.bytes > 0 {
		c = math.Max(float64(v.cal.cpuNs)/float64(v.cal.bytes), 1)
	}
	bd := int64(math.Max(float64(cpuFloorNs), cpuMargin*c*float64(size)))
	if cpu <= bd {
		v.cal.cpuNs += cpu
		v.cal.bytes += int64(size)
	}
	if !out.panicked && cpu > bd {
		runtime.GC()
		c0 = threadCPU()
		run()
		if cpu2 := threadCPU() - c0; cpu2 > bd {
			w := wit().(map[string]any)
			w["cpu_ns_first"], w["cpu_ns_solo"], w["bound_ns"] = cpu, cpu2, bd
			b.Violate("C10/cpu/consensus.ValidateBlock/"+mt.op, fmt.Sprintf("validating a %d-byte variant (%s %s=%s) used %.1f ms thread CPU (bound %.1f ms)", size, mt.op, mt.field, mt.val, float64(cpu2)/1e6, float64(bd)/1e6), w)
		} else {
			b.Inconclusive("thread-CPU bound exceeded once but not confirmed by the solo re-run (validation)")
		}
	}
}

// validateAll runs every validation entry point on the variant, as a node would:
// transaction level (the loop of ValidateBlock on a fresh MidState, so that it
// does not depend on sealing), then block level (re-sealed), then — if the
// variant is accepted — apply and revert.
func (v *valmon) validateAll(cs consensus.State, blk *types.Block, mt mut) (out valOutcome) {
	c := v.c
	supp := c.SupplementFor(*blk)
	// relay level: a v2 block travels as an outline, which the receiver decodes and completes before validating
	if blk.V2 != nil && len(blk.MinerPayouts) == 1 {
		// the sender's side (outlining and encoding a block it would not have accepted) is not judged
		var buf bytes.Buffer
		sent := safely(func() {
			e := types.NewEncoder(&buf)
			o := gateway.OutlineBlock(*blk, nil, nil)
			gateway.VerifEncodeOutline(&o, e)
			e.Flush()
		})
		if sent {
			var got gateway.V2BlockOutline
			d := types.NewBufDecoder(buf.Bytes())
			gateway.VerifDecodeOutline(&got, d)
			if d.Err() == nil {
				rb, missing := got.Complete(cs, nil, nil)
				if len(missing) == 0 {
					consensus.ValidateOrphan(cs, rb)
				}
				v.b.Count("variant_blocks_relayed_as_outline_and_completed", 1)
			}
		}
	}
	// transaction level
	func() {
		ms := consensus.NewMidState(cs)
		for i, txn := range blk.Transactions {
			if i >= len(supp.Transactions) {
				return
			}
			if err := consensus.ValidateTransaction(ms, txn, supp.Transactions[i]); err != nil {
				out.err = fmt.Errorf("transaction %d: %w", i, err)
				return
			}
			ms.ApplyTransaction(txn, supp.Transactions[i])
		}
		for j, txn := range blk.V2Transactions() {
			if err := consensus.ValidateV2Transaction(ms, txn); err != nil {
				out.err = fmt.Errorf("v2 transaction %d: %w", j, err)
				return
			}
			ms.ApplyV2Transaction(txn)
		}
	}()
	txErr := out.err
	// block level
	var err error
	if mt.raw {
		consensus.ValidateHeader(cs, blk.Header())
		consensus.ValidateOrphan(cs, *blk)
		err = consensus.ValidateBlock(cs, *blk, supp)
	} else {
		var vbs consensus.V1BlockSupplement
		err, vbs = c.TryVariant(blk)
		if chaingen.IsSealFailure(err) {
			v.b.Count("variants_not_sealable(validated unsealed)", 1)
			consensus.ValidateOrphan(cs, *blk)
			err = consensus.ValidateBlock(cs, *blk, supp)
		} else {
			supp = vbs
		}
	}
	if cs.Index.Height+1 >= c.Net.N.HardforkV2.RequireHeight && len(blk.Transactions) > 0 {
		// the other supplement shapes a caller may hold at this height
		consensus.ValidateBlock(cs, *blk, consensus.V1BlockSupplement{})
		consensus.ValidateBlock(cs, *blk, consensus.V1BlockSupplement{Transactions: make([]consensus.V1TransactionSupplement, len(blk.Transactions))})
		v.b.Count("post_require_blocks_with_v1_transactions_validated_with_empty_supplement", 1)
	}
	if err == nil {
		// accepted => applicable and revertible
		out.accepted = true
		consensus.ApplyBlock(cs, *blk, supp, c.AncestorTimestamp(cs.Index.Height))
		consensus.RevertBlock(cs, *blk, supp)
		v.b.Count("blocks_applied_and_reverted", 1)
		if txErr != nil {
			v.b.Count("tx_level_rejected_but_block_accepted(observed)", 1)
		}
		out.err = nil
		return
	}
	out.err = err
	return
}
