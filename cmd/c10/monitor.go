package main

import (
	"encoding/hex"
	"fmt"
	"os"
	"regexp"
	"runtime"
	"runtime/debug"
	"strings"
	"syscall"

	"verif/internal/harness"
)

// ---------------------------------------------------------------------------
// The three oracles for input-driven entry points.
//
//   crash:  recover() around every call (panic => violation keyed by the
//           innermost core frame and the panic kind); every case is journalled
//           before the call, so a process-fatal error is attributed by the
//           supervisor.
//   alloc:  runtime.MemStats.TotalAlloc delta around a window of calls made by
//           this single goroutine; bound 1 MiB + 1024 * sum(len(input)); a
//           window over the bound is bisected and the single suspect is
//           re-measured alone; the verdict is the solo measurement. The key
//           names the innermost core frame of the dominant allocation site
//           (heap profile of one more solo run).
//   cpu:    per-call thread CPU time (getrusage(RUSAGE_THREAD), goroutine
//           locked to its thread); bound = max(250 ms, 10^4 * c * (len+64))
//           with c the per-byte cost measured in the same run on the inputs of the
//           same entry point that stayed within the bound (valid inputs first); confirmed by a solo re-run, otherwise
//           inconclusive.

const (
	allocSlack   = 1 << 20
	allocPerByte = 1024
	cpuFloorNs   = 250_000_000
	cpuMargin    = 10_000
)

type tcase struct {
	data   []byte
	class  string // attack class (part of finding keys)
	sub    string // finer structural class (Distinct only)
	ord    int64
	soloed bool
	cpu    int64 // thread CPU of the first run
}

type target struct {
	name    string
	kind    string // "bin" | "text"
	perByte int    // allocation allowance per input byte (0 = allocPerByte)
	call    func(in []byte) error
}

type calib struct{ cpuNs, bytes int64 }

type mon struct {
	b         *recB
	skip      int64
	ord       int64
	cal       map[string]*calib
	journaled int
	abandon   map[string]bool // entry points / operators whose remaining cases are not executed (too many process-fatal inputs)
	confirmed map[string]bool // entry|class|sub with a confirmed alloc/cpu violation: further identical attacks are skipped
}

func newMon(b *recB, skip int64) *mon {
	return &mon{b: b, skip: skip, cal: map[string]*calib{}, confirmed: map[string]bool{}, abandon: map[string]bool{}}
}

func threadCPU() int64 {
	var ru syscall.Rusage
	if err := syscall.Getrusage(1 /* RUSAGE_THREAD */, &ru); err != nil {
		return 0
	}
	return (int64(ru.Utime.Sec)+int64(ru.Stime.Sec))*1e9 + (int64(ru.Utime.Usec)+int64(ru.Stime.Usec))*1e3
}

func allocBound(n int) uint64 { return uint64(allocSlack + allocPerByte*n) }

// bound is the allocation bound of one entry point. JSON documents get 4096 bytes per input byte:
// encoding/json itself turns "[{},{},...]" (3 bytes per element) into a slice of the element type grown
// by doubling, which for the largest element structs of the repository (V2FileContractRevision, ~850
// bytes) is a LINEAR amplification of about 1200x (measured), above the 1024 of the design, which had
// assumed 200x. Offenders are 10^5x and more.
func (t *target) bound(n int) uint64 {
	if t.perByte > 0 {
		return uint64(allocSlack + t.perByte*n)
	}
	return allocBound(n)
}

func (m *mon) cpuBound(t *target, n int) int64 {
	c := 50.0
	if cal := m.cal[t.name]; cal != nil && cal.bytes > 0 {
		c = float64(cal.cpuNs) / float64(cal.bytes)
	}
	if c < 1 {
		c = 1
	}
	bd := int64(cpuMargin * c * float64(n+64))
	if bd < cpuFloorNs {
		bd = cpuFloorNs
	}
	return bd
}

// coreFrame is the innermost go.sia.tech/core frame of a stack that is not one
// of the Currency arithmetic helpers (whose panics are the caller's doing).
func coreFrame(stack string) string {
	fallback := ""
	for _, ln := range strings.Split(stack, "\n") {
		ln = strings.TrimSpace(ln)
		if !strings.HasPrefix(ln, "go.sia.tech/core/") {
			continue
		}
		if i := strings.LastIndex(ln, "("); i > 0 {
			ln = ln[:i]
		}
		ln = strings.TrimPrefix(ln, "go.sia.tech/core/")
		for {
			j := strings.LastIndex(ln, ".func")
			if j < 0 {
				break
			}
			ln = ln[:j]
		}
		if j := strings.Index(ln, "[...]"); j >= 0 {
			ln = ln[:j]
		}
		if strings.HasPrefix(ln, "types.Currency.") {
			if fallback == "" {
				fallback = ln
			}
			continue
		}
		return ln
	}
	if fallback != "" {
		return fallback
	}
	return "unknown"
}

func panicKind(msg string) string {
	switch {
	case strings.Contains(msg, "makeslice"):
		return "makeslice"
	case strings.Contains(msg, "slice bounds out of range"):
		return "slice-bounds"
	case strings.Contains(msg, "index out of range"):
		return "index-out-of-range"
	case strings.Contains(msg, "nil pointer") || strings.Contains(msg, "nil map"):
		return "nil-deref"
	case strings.Contains(msg, "underflow"):
		return "underflow"
	case strings.Contains(msg, "overflow"):
		return "overflow"
	case strings.Contains(msg, "divide by zero") || strings.Contains(msg, "division by zero"):
		return "divide-by-zero"
	case strings.Contains(msg, "out of memory"):
		return "out-of-memory"
	case strings.Contains(msg, "interface conversion") || strings.Contains(msg, "type assertion"):
		return "type-assertion"
	}
	return "other"
}

func hexCap(b []byte, n int) string {
	if len(b) > n {
		return hex.EncodeToString(b[:n]) + fmt.Sprintf("...(+%d bytes)", len(b)-n)
	}
	return hex.EncodeToString(b)
}

func witnessOf(t *target, c *tcase) map[string]any {
	w := map[string]any{"entry_point": t.name, "class": c.class, "sub": c.sub, "len": len(c.data), "input_hex": hexCap(c.data, 128<<10)}
	if t.kind == "text" {
		w["input_text"] = capStr(string(c.data), 600)
	}
	return w
}

// guard runs one call; outcome 0 = value, 1 = error, 2 = panic (violation).
func (m *mon) guard(t *target, c *tcase) (out uint8) {
	defer func() {
		if r := recover(); r != nil {
			out = 2
			st := string(debug.Stack())
			fr := coreFrame(st)
			if fr == "unknown" {
				fr = t.name
			}
			msg := fmt.Sprint(r)
			w := witnessOf(t, c)
			w["panic"] = capStr(msg, 400)
			w["stack"] = harness.TrimStack(st)
			m.b.Violate(fmt.Sprintf("C10/panic/%s/%s", fr, panicKind(msg)), fmt.Sprintf("%s panicked on a %d-byte %s input: %s", t.name, len(c.data), c.class, capStr(msg, 200)), w)
		}
	}()
	if err := t.call(c.data); err != nil {
		return 1
	}
	return 0
}

func journalRec(t *target, c *tcase) string {
	return fmt.Sprintf("%s|%s ord=%d sub=%s len=%d hex=%s", t.name, c.class, c.ord, c.sub, len(c.data), hexCap(c.data, 300))
}

// feeder buffers cases into measurement windows.
type feeder struct {
	m   *mon
	t   *target
	win []tcase
	tot int
	// statistics per class
	outcomes map[string]*[3]int
}

func (m *mon) feeder(t *target) *feeder {
	return &feeder{m: m, t: t, outcomes: map[string]*[3]int{}}
}

func (f *feeder) add(class, sub string, data []byte) {
	f.m.ord++
	if f.m.ord <= f.m.skip {
		return
	}
	if f.m.abandon[f.t.name] {
		f.m.b.Count("cases_not_run_after_repeated_process_fatal_inputs", 1)
		return
	}
	if len(f.m.confirmed) > 0 && f.m.confirmed[skipSig(f.t, class, sub, data)] {
		f.m.b.Count("cases_skipped_after_confirmed_violation_of_same_entry_class_sub", 1)
		return
	}
	// windows are small in bytes (an input of 16 KiB or more is measured alone), and a window is
	// bisected as soon as its allocation exceeds the bound of its SHORTEST input (see window), so that
	// the allowance of long harmless neighbours cannot mask an offender
	if len(data) >= windowBytes {
		f.flush()
	}
	f.win = append(f.win, tcase{data: data, class: class, sub: sub, ord: f.m.ord})
	f.tot += len(data)
	if len(f.win) >= 64 || f.tot >= windowBytes {
		f.flush()
	}
}

func (f *feeder) flush() {
	if len(f.win) == 0 {
		return
	}
	f.m.window(f, f.win)
	f.win = f.win[:0]
	f.tot = 0
}

var reExpToken = regexp.MustCompile(`(^|[^0-9a-zA-Z])[0-9.]+[eEpP][+-]?[0-9]{3,}([^0-9a-zA-Z]|$)`)

// category is the content-derived attack category used in allocation / CPU
// finding keys and for skipping identical attacks after a confirmed violation:
// a text input that contains a number token with a large exponent is an
// "exponent" attack whichever generator produced it.
func category(t *target, c *tcase) string {
	if t.kind == "bin" {
		return "wire" // whichever mutation produced the bytes: the finding is the decoder's allocation site
	}
	if len(c.data) < 1<<16 && reExpToken.Match(c.data) {
		return "exponent"
	}
	return c.class
}

func skipSig(t *target, class, sub string, data []byte) string {
	if t.kind == "text" && len(data) < 1<<16 && reExpToken.Match(data) {
		return t.name + "|exponent"
	}
	return t.name + "|" + class + "|" + sub
}

var debugSlow = os.Getenv("C10_DEBUG") != ""

const windowBytes = 16 << 10

const slowCallNs = 100_000_000 // a call this slow ends its window early (see window)

func (m *mon) window(f *feeder, cs []tcase) {
	t := f.t
	b := m.b
	recs := make([]string, len(cs))
	cpu := make([]int64, len(cs))
	out := make([]uint8, len(cs))
	for i := range cs {
		recs[i] = journalRec(t, &cs[i])
	}
	if m.journaled > 4000 {
		b.JournalReset()
		m.journaled = 0
	}

	var m0, m1 runtime.MemStats
	done := 0
	runtime.ReadMemStats(&m0)
	for i := range cs {
		b.Journal(recs[i])
		c0 := threadCPU()
		out[i] = m.guard(t, &cs[i])
		cpu[i] = threadCPU() - c0
		cs[i].cpu = cpu[i]
		done = i + 1
		if debugSlow && cpu[i] > slowCallNs/5 {
			fmt.Fprintf(os.Stderr, "slow call %s %s/%s %.0f ms: %q\n", t.name, cs[i].class, cs[i].sub, float64(cpu[i])/1e6, capStr(string(cs[i].data), 80))
		}
		if cpu[i] > slowCallNs {
			break // judge this one first, so that identical attacks that follow can be skipped
		}
	}
	runtime.ReadMemStats(&m1)
	alloc := m1.TotalAlloc - m0.TotalAlloc
	rest := cs[done:]
	cs = cs[:done]
	m.journaled += done
	b.tick()
	b.Eval(len(cs))
	b.Count("alloc_batches_measured", 1)
	b.Count("cpu_calls_measured", len(cs))
	if t.kind == "bin" {
		b.Count("decode_inputs", len(cs))
	} else {
		b.Count("json_text_inputs", len(cs))
	}
	b.MaxOf("max_window_alloc_bytes", int64(alloc))
	for i := range cs {
		c := &cs[i]
		b.Distinct(t.name, c.class, c.sub, out[i])
		o := f.outcomes[c.class]
		if o == nil {
			o = new([3]int)
			f.outcomes[c.class] = o
		}
		o[out[i]]++
		b.MaxOf("max_call_cpu_ns", cpu[i])
		// calibration of the per-byte cost: the valid inputs first (they are fed first), then every call
		// that stayed within the bound (getrusage has microsecond resolution: only sums over many calls
		// are meaningful, and hostile-but-harmless inputs are legitimately slower per byte than valid ones)
		if c.class == "valid" || cpu[i] <= m.cpuBound(t, len(c.data)) {
			cal := m.cal[t.name]
			if cal == nil {
				cal = &calib{}
				m.cal[t.name] = cal
			}
			cal.cpuNs += cpu[i]
			cal.bytes += int64(len(c.data) + 64)
		}
	}
	// CPU suspects first: the solo run judges both monitors for that case
	for i := range cs {
		if bd := m.cpuBound(t, len(cs[i].data)); cpu[i] > bd && !cs[i].soloed {
			m.solo(t, &cs[i], cpu[i])
		}
	}
	if len(cs) > 0 && alloc > t.bound(minLen(cs)) {
		b.Count("alloc_windows_over_bound_bisected", 1)
		remaining := m.unjudged(t, cs)
		switch {
		case len(remaining) == len(cs):
			m.bisect(t, remaining) // the window measurement stands
		case len(remaining) > 0:
			if m.quiet(t, remaining) > t.bound(minLen(remaining)) {
				m.bisect(t, remaining)
			}
		}
	}
	if len(rest) > 0 {
		keep := make([]tcase, 0, len(rest))
		for _, c := range rest {
			if m.confirmed[skipSig(t, c.class, c.sub, c.data)] {
				b.Count("cases_skipped_after_confirmed_violation_of_same_entry_class_sub", 1)
				continue
			}
			keep = append(keep, c)
		}
		if len(keep) > 0 {
			m.window(f, keep)
		}
	}
}

// minLen is the length of the shortest input of a window: if any single input of the window is over
// ITS bound (1 MiB + 1024*len), the window total is over allocBound(minLen), so triggering on that
// never misses an offender.
func minLen(cs []tcase) int {
	n := len(cs[0].data)
	for i := range cs {
		if len(cs[i].data) < n {
			n = len(cs[i].data)
		}
	}
	return n
}

// quiet re-runs cases (already executed once without a process death) and
// returns the TotalAlloc delta.
func (m *mon) quiet(t *target, cs []tcase) uint64 {
	var m0, m1 runtime.MemStats
	runtime.ReadMemStats(&m0)
	for i := range cs {
		quietCall(t, cs[i].data)
	}
	runtime.ReadMemStats(&m1)
	return m1.TotalAlloc - m0.TotalAlloc
}

func quietCall(t *target, in []byte) {
	defer func() { recover() }()
	t.call(in)
}

// unjudged drops the cases that were already judged alone or that repeat an
// attack with a confirmed violation.
func (m *mon) unjudged(t *target, cs []tcase) []tcase {
	out := make([]tcase, 0, len(cs))
	for _, c := range cs {
		if !c.soloed && !m.confirmed[skipSig(t, c.class, c.sub, c.data)] {
			out = append(out, c)
		}
	}
	return out
}

func (m *mon) bisect(t *target, cs []tcase) {
	if len(cs) == 1 {
		m.solo(t, &cs[0], -1)
		return
	}
	h := len(cs) / 2
	for _, half := range [][]tcase{cs[:h], cs[h:]} {
		half = m.unjudged(t, half)
		if len(half) == 0 {
			continue
		}
		if a := m.quiet(t, half); a > t.bound(minLen(half)) {
			m.bisect(t, half)
		}
	}
}

// solo re-runs ONE suspect alone (after a GC, heap profile sampled every 4 KiB) and
// takes the verdict of both the allocation and the CPU monitor from that run.
// firstCPU is the CPU time of the first run (-1 if the suspicion is about
// allocation only).
func (m *mon) solo(t *target, c *tcase, firstCPU int64) {
	c.soloed = true
	allocOnly := firstCPU < 0
	if c.cpu > 0 {
		firstCPU = c.cpu
	}
	old := runtime.MemProfileRate
	runtime.MemProfileRate = 4096
	runtime.GC()
	runtime.GC()
	before := profSnapshot()
	var m0, m1 runtime.MemStats
	runtime.ReadMemStats(&m0)
	c0 := threadCPU()
	quietCall(t, c.data)
	cpu := threadCPU() - c0
	runtime.ReadMemStats(&m1)
	runtime.MemProfileRate = old
	a := m1.TotalAlloc - m0.TotalAlloc
	abd := t.bound(len(c.data))
	cbd := m.cpuBound(t, len(c.data))
	m.b.Count("solo_measurements", 1)
	site := ""
	if a > abd {
		runtime.GC()
		runtime.GC()
		site = topDelta(before, profSnapshot())
		if site == "" {
			site = t.name
		}
		w := witnessOf(t, c)
		w["allocated_bytes_solo"], w["bound_bytes"], w["allocation_site"] = a, abd, site
		m.b.MaxOf("max_solo_alloc_over_bound_bytes", int64(a))
		key := fmt.Sprintf("C10/alloc/%s/%s", site, category(t, c))
		if strings.HasPrefix(site, "types.(*Decoder).") {
			// a generic decoder primitive: the entry point says which message limit let it allocate
			key += "/entry=" + t.name
		}
		m.b.Violate(key,
			fmt.Sprintf("%s allocated %d bytes for a %d-byte %s input (bound %d), measured alone", t.name, a, len(c.data), c.class, abd), w)
		m.confirmed[skipSig(t, c.class, c.sub, c.data)] = true
	} else if allocOnly {
		m.b.Count("alloc_suspects_cleared_by_solo_measurement", 1)
	}
	if firstCPU > cbd {
		if cpu <= cbd {
			m.b.Inconclusive("thread-CPU bound exceeded once but not confirmed by the solo re-run (" + t.name + ")")
			return
		}
		if site == "" {
			site = t.name
		}
		w := witnessOf(t, c)
		w["cpu_ns_first"], w["cpu_ns_solo"], w["bound_ns"] = firstCPU, cpu, cbd
		if cal := m.cal[t.name]; cal != nil && cal.bytes > 0 {
			w["calibrated_ns_per_byte"] = float64(cal.cpuNs) / float64(cal.bytes)
		}
		m.b.Violate(fmt.Sprintf("C10/cpu/%s/%s", site, category(t, c)),
			fmt.Sprintf("%s used %.1f ms of thread CPU on a %d-byte %s input (bound %.1f ms = 10^4 x calibrated per-byte cost), confirmed alone: %.1f ms", t.name, float64(firstCPU)/1e6, len(c.data), c.class, float64(cbd)/1e6, float64(cpu)/1e6), w)
		m.confirmed[skipSig(t, c.class, c.sub, c.data)] = true
	}
}

func profSnapshot() map[[32]uintptr]int64 {
	n, _ := runtime.MemProfile(nil, true)
	for {
		recs := make([]runtime.MemProfileRecord, n+100)
		var ok bool
		n, ok = runtime.MemProfile(recs, true)
		if !ok {
			continue
		}
		out := make(map[[32]uintptr]int64, n)
		for _, r := range recs[:n] {
			out[r.Stack0] += r.AllocBytes
		}
		return out
	}
}

// topDelta names the innermost core frame of the allocation site with the
// largest growth between two heap-profile snapshots.
func topDelta(before, after map[[32]uintptr]int64) string {
	var best [32]uintptr
	var bestD int64
	for k, v := range after {
		if d := v - before[k]; d > bestD {
			best, bestD = k, d
		}
	}
	if bestD == 0 {
		return ""
	}
	n := 0
	for n < len(best) && best[n] != 0 {
		n++
	}
	frames := runtime.CallersFrames(best[:n])
	first := ""
	for {
		fr, more := frames.Next()
		if strings.HasPrefix(fr.Function, "go.sia.tech/core/") {
			fn := strings.TrimPrefix(fr.Function, "go.sia.tech/core/")
			for {
				j := strings.LastIndex(fn, ".func")
				if j < 0 {
					break
				}
				fn = fn[:j]
			}
			if j := strings.Index(fn, "[...]"); j >= 0 {
				fn = fn[:j]
			}
			if first == "" {
				first = fn
			}
			// the innermost EXPORTED function or method: stable when the dominant allocation moves between a
			// function and its unexported helpers
			name := fn[strings.LastIndex(fn, ".")+1:]
			if name != "" && name[0] >= 'A' && name[0] <= 'Z' {
				return fn
			}
		}
		if !more {
			break
		}
	}
	return first
}

// topAllocSite profiles one run of f (used by the validation workload).
func topAllocSite(f func()) string {
	old := runtime.MemProfileRate
	runtime.MemProfileRate = 4096
	defer func() { runtime.MemProfileRate = old }()
	runtime.GC()
	runtime.GC()
	before := profSnapshot()
	f()
	runtime.GC()
	runtime.GC()
	return topDelta(before, profSnapshot())
}
