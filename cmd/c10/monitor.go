package main

import (
	"encoding/hex"
	"fmt"
	"runtime"
	"runtime/debug"
	"strings"
	"syscall"

	"verif/internal/harness"
)

// ---------------------------------------------------------------------------
// The three oracles for input-driven entry points.
//
//   crash:  recover() around every call (panic => violation keyed by the
//           innermost core frame and the panic kind); every case is journalled
//           before the call, so a process-fatal error is attributed by the
//           supervisor.
//   alloc:  runtime.MemStats.TotalAlloc delta around a window of calls made by
//           this single goroutine; bound 1 MiB + 1024 * sum(len(input)); a
//           window over the bound is bisected and the single suspect is
//           re-measured alone; the verdict is the solo measurement. The key
//           names the innermost core frame of the dominant allocation site
//           (heap profile of one more solo run).
//   cpu:    per-call thread CPU time (getrusage(RUSAGE_THREAD), goroutine
//           locked to its thread); bound = max(20 ms, 10^4 * c * (len+64))
//           with c the per-byte cost measured on the valid inputs of the same
//           entry point in the same run; confirmed by a solo re-run, otherwise
//           inconclusive.

const (
	allocSlack   = 1 << 20
	allocPerByte = 1024
	cpuFloorNs   = 20_000_000
	cpuMargin    = 10_000
)

type tcase struct {
	data  []byte
	class string // attack class (part of finding keys)
	sub   string // finer structural class (Distinct only)
	ord   int64
}

type target struct {
	name string
	kind string // "bin" | "text"
	call func(in []byte) error
}

type calib struct{ cpuNs, bytes int64 }

type mon struct {
	b         *harness.B
	skip      int64
	ord       int64
	cal       map[string]*calib
	siteCache map[string]string
	profiles  int
	journaled int
}

func newMon(b *harness.B, skip int64) *mon {
	return &mon{b: b, skip: skip, cal: map[string]*calib{}, siteCache: map[string]string{}}
}

func threadCPU() int64 {
	var ru syscall.Rusage
	if err := syscall.Getrusage(1 /* RUSAGE_THREAD */, &ru); err != nil {
		return 0
	}
	return (ru.Utime.Sec+ru.Stime.Sec)*1e9 + (ru.Utime.Usec+ru.Stime.Usec)*1e3
}

func allocBound(n int) uint64 { return uint64(allocSlack + allocPerByte*n) }

func (m *mon) cpuBound(t *target, n int) int64 {
	c := 50.0
	if cal := m.cal[t.name]; cal != nil && cal.bytes > 0 {
		c = float64(cal.cpuNs) / float64(cal.bytes)
	}
	if c < 1 {
		c = 1
	}
	bd := int64(cpuMargin * c * float64(n+64))
	if bd < cpuFloorNs {
		bd = cpuFloorNs
	}
	return bd
}

func panicKind(msg string) string {
	switch {
	case strings.Contains(msg, "makeslice"):
		return "makeslice"
	case strings.Contains(msg, "slice bounds out of range"):
		return "slice-bounds"
	case strings.Contains(msg, "index out of range"):
		return "index-out-of-range"
	case strings.Contains(msg, "nil pointer") || strings.Contains(msg, "nil map"):
		return "nil-deref"
	case strings.Contains(msg, "overflow") || strings.Contains(msg, "underflow"):
		return "overflow"
	case strings.Contains(msg, "divide by zero") || strings.Contains(msg, "division by zero"):
		return "divide-by-zero"
	case strings.Contains(msg, "out of memory"):
		return "out-of-memory"
	case strings.Contains(msg, "interface conversion") || strings.Contains(msg, "type assertion"):
		return "type-assertion"
	}
	return "other"
}

func hexCap(b []byte, n int) string {
	if len(b) > n {
		return hex.EncodeToString(b[:n]) + fmt.Sprintf("...(+%d bytes)", len(b)-n)
	}
	return hex.EncodeToString(b)
}

func witnessOf(t *target, c *tcase) map[string]any {
	w := map[string]any{"entry_point": t.name, "class": c.class, "sub": c.sub, "len": len(c.data), "input_hex": hexCap(c.data, 4096)}
	if t.kind == "text" {
		w["input_text"] = capStr(string(c.data), 600)
	}
	return w
}

// guard runs one call; outcome 0 = value, 1 = error, 2 = panic (violation).
func (m *mon) guard(t *target, c *tcase) (out uint8) {
	defer func() {
		if r := recover(); r != nil {
			out = 2
			st := string(debug.Stack())
			fr := harness.FirstCoreFrame(st)
			if fr == "unknown" {
				fr = t.name
			}
			msg := fmt.Sprint(r)
			w := witnessOf(t, c)
			w["panic"] = capStr(msg, 400)
			w["stack"] = harness.TrimStack(st)
			m.b.Violate(fmt.Sprintf("C10/panic/%s/%s", fr, panicKind(msg)), fmt.Sprintf("%s panicked on a %d-byte %s input: %s", t.name, len(c.data), c.class, capStr(msg, 200)), w)
		}
	}()
	if err := t.call(c.data); err != nil {
		return 1
	}
	return 0
}

func journalRec(t *target, c *tcase) string {
	return fmt.Sprintf("%s|%s ord=%d sub=%s len=%d hex=%s", t.name, c.class, c.ord, c.sub, len(c.data), hexCap(c.data, 300))
}

// feeder buffers cases into measurement windows.
type feeder struct {
	m   *mon
	t   *target
	win []tcase
	tot int
	// statistics per class
	outcomes map[string]*[3]int
}

func (m *mon) feeder(t *target) *feeder {
	return &feeder{m: m, t: t, outcomes: map[string]*[3]int{}}
}

func (f *feeder) add(class, sub string, data []byte) {
	f.m.ord++
	if f.m.ord <= f.m.skip {
		return
	}
	f.win = append(f.win, tcase{data: data, class: class, sub: sub, ord: f.m.ord})
	f.tot += len(data)
	if len(f.win) >= 64 || f.tot >= 2<<20 {
		f.flush()
	}
}

func (f *feeder) flush() {
	if len(f.win) == 0 {
		return
	}
	f.m.window(f, f.win)
	f.win = f.win[:0]
	f.tot = 0
}

func (m *mon) window(f *feeder, cs []tcase) {
	t := f.t
	b := m.b
	recs := make([]string, len(cs))
	cpu := make([]int64, len(cs))
	out := make([]uint8, len(cs))
	total := 0
	for i := range cs {
		recs[i] = journalRec(t, &cs[i])
		total += len(cs[i].data)
	}
	if m.journaled > 4000 {
		b.JournalReset()
		m.journaled = 0
	}
	m.journaled += len(cs)

	var m0, m1 runtime.MemStats
	runtime.ReadMemStats(&m0)
	for i := range cs {
		b.Journal(recs[i])
		c0 := threadCPU()
		out[i] = m.guard(t, &cs[i])
		cpu[i] = threadCPU() - c0
	}
	runtime.ReadMemStats(&m1)
	alloc := m1.TotalAlloc - m0.TotalAlloc

	b.Eval(len(cs))
	b.Count("alloc_batches_measured", 1)
	b.Count("cpu_calls_measured", len(cs))
	if t.kind == "bin" {
		b.Count("decode_inputs", len(cs))
	} else {
		b.Count("json_text_inputs", len(cs))
	}
	b.MaxOf("max_window_alloc_bytes", int64(alloc))
	for i := range cs {
		c := &cs[i]
		b.Distinct(t.name, c.class, c.sub, out[i])
		o := f.outcomes[c.class]
		if o == nil {
			o = new([3]int)
			f.outcomes[c.class] = o
		}
		o[out[i]]++
		b.MaxOf("max_call_cpu_ns", cpu[i])
		if c.class == "valid" {
			cal := m.cal[t.name]
			if cal == nil {
				cal = &calib{}
				m.cal[t.name] = cal
			}
			cal.cpuNs += cpu[i]
			cal.bytes += int64(len(c.data) + 64)
		}
	}
	if alloc > allocBound(total) {
		b.Count("alloc_windows_over_bound_bisected", 1)
		m.bisect(t, cs)
	}
	for i := range cs {
		if bd := m.cpuBound(t, len(cs[i].data)); cpu[i] > bd {
			m.confirmCPU(t, &cs[i], cpu[i])
		}
	}
}

// quiet re-runs cases (already executed once without a process death) and
// returns the TotalAlloc delta.
func (m *mon) quiet(t *target, cs []tcase) uint64 {
	var m0, m1 runtime.MemStats
	runtime.ReadMemStats(&m0)
	for i := range cs {
		quietCall(t, cs[i].data)
	}
	runtime.ReadMemStats(&m1)
	return m1.TotalAlloc - m0.TotalAlloc
}

func quietCall(t *target, in []byte) {
	defer func() { recover() }()
	t.call(in)
}

func (m *mon) bisect(t *target, cs []tcase) {
	if len(cs) == 1 {
		m.solo(t, &cs[0])
		return
	}
	h := len(cs) / 2
	for _, half := range [][]tcase{cs[:h], cs[h:]} {
		n := 0
		for i := range half {
			n += len(half[i].data)
		}
		if a := m.quiet(t, half); a > allocBound(n) {
			m.bisect(t, half)
		}
	}
}

func (m *mon) solo(t *target, c *tcase) {
	runtime.GC()
	a := m.quiet(t, []tcase{*c})
	bd := allocBound(len(c.data))
	m.b.Count("alloc_solo_measurements", 1)
	if a <= bd {
		m.b.Count("alloc_suspects_cleared_by_solo_measurement", 1)
		return
	}
	site := m.allocSite(t, c)
	w := witnessOf(t, c)
	w["allocated_bytes_solo"] = a
	w["bound_bytes"] = bd
	w["allocation_site"] = site
	m.b.MaxOf("max_solo_alloc_over_bound_bytes", int64(a))
	m.b.Violate(fmt.Sprintf("C10/alloc/%s/%s", site, c.class),
		fmt.Sprintf("%s allocated %d bytes for a %d-byte %s input (bound 1 MiB + 1024*len = %d), measured alone", t.name, a, len(c.data), c.class, bd), w)
}

// allocSite names the innermost core frame of the allocation site that
// dominates one more solo run (heap profile at rate 1).
func (m *mon) allocSite(t *target, c *tcase) string {
	ck := t.name + "|" + c.class
	if s, ok := m.siteCache[ck]; ok {
		return s
	}
	site := ""
	if m.profiles < 12 {
		m.profiles++
		site = topAllocSite(func() { quietCall(t, c.data) })
	}
	if site == "" {
		site = t.name
	}
	m.siteCache[ck] = site
	return site
}

func profSnapshot() map[[32]uintptr]int64 {
	n, _ := runtime.MemProfile(nil, true)
	for {
		recs := make([]runtime.MemProfileRecord, n+100)
		var ok bool
		n, ok = runtime.MemProfile(recs, true)
		if !ok {
			continue
		}
		out := make(map[[32]uintptr]int64, n)
		for _, r := range recs[:n] {
			out[r.Stack0] += r.AllocBytes
		}
		return out
	}
}

func topAllocSite(f func()) string {
	old := runtime.MemProfileRate
	runtime.MemProfileRate = 1
	defer func() { runtime.MemProfileRate = old }()
	runtime.GC()
	runtime.GC()
	before := profSnapshot()
	f()
	runtime.GC()
	runtime.GC()
	after := profSnapshot()
	var best [32]uintptr
	var bestD int64
	for k, v := range after {
		if d := v - before[k]; d > bestD {
			best, bestD = k, d
		}
	}
	if bestD == 0 {
		return ""
	}
	n := 0
	for n < len(best) && best[n] != 0 {
		n++
	}
	frames := runtime.CallersFrames(best[:n])
	for {
		fr, more := frames.Next()
		if strings.HasPrefix(fr.Function, "go.sia.tech/core/") {
			fn := strings.TrimPrefix(fr.Function, "go.sia.tech/core/")
			for {
				j := strings.LastIndex(fn, ".func")
				if j < 0 {
					break
				}
				fn = fn[:j]
			}
			// generic instantiation suffixes
			if j := strings.Index(fn, "[...]"); j >= 0 {
				fn = fn[:j]
			}
			return fn
		}
		if !more {
			break
		}
	}
	return ""
}

func (m *mon) confirmCPU(t *target, c *tcase, first int64) {
	runtime.GC()
	c0 := threadCPU()
	quietCall(t, c.data)
	second := threadCPU() - c0
	bd := m.cpuBound(t, len(c.data))
	if second <= bd {
		m.b.Inconclusive("thread-CPU bound exceeded once but not confirmed by the solo re-run (" + t.name + ")")
		return
	}
	w := witnessOf(t, c)
	w["cpu_ns_first"], w["cpu_ns_solo"], w["bound_ns"] = first, second, bd
	if cal := m.cal[t.name]; cal != nil && cal.bytes > 0 {
		w["calibrated_ns_per_byte"] = float64(cal.cpuNs) / float64(cal.bytes)
	}
	m.b.Violate(fmt.Sprintf("C10/cpu/%s/%s", t.name, c.class),
		fmt.Sprintf("%s used %.1f ms of thread CPU on a %d-byte %s input (bound %.1f ms = 10^4 x calibrated per-byte cost), confirmed alone: %.1f ms", t.name, float64(first)/1e6, len(c.data), c.class, float64(bd)/1e6, float64(second)/1e6), w)
}
