// C10 — untrusted input can never crash a node: decoding and validation are total.
//
// Three workloads, all observed by the same three oracles (crash monitor,
// allocation-proportionality monitor, thread-CPU monitor; see monitor.go):
//
//  1. decoder fuzzing of every entry point: every wirereg binary codec
//     (binfuzz.go) and every UnmarshalJSON / UnmarshalText / Parse* function
//     plus the JSON forms of the composite types (textreg.go, textfuzz.go);
//  2. structure-aware validation fuzzing: hostile variants of blocks the real
//     ValidateBlock accepted on chaingen histories of every network family,
//     re-signed and re-sealed (valfuzz.go);
//  3. accepted => applicable: every accepted block (original or variant) is
//     applied and reverted under the crash monitor.
//
// Process structure. A harness batch is a SUPERVISOR: it cuts its share of the
// work into segments and runs each segment in a sub-worker process (the same
// binary, started through the harness' own -child protocol with the segment in
// the C10_SEG environment variable). A sub-worker journals every case before
// the call; if it dies (fatal error: out of memory, stack overflow, checkptr,
// SIGSEGV) the supervisor turns the last journal record into a violation and
// restarts the segment just after the fatal case, so one process-fatal defect
// does not hide the rest. A sub-worker killed by the watchdog is INCONCLUSIVE.
package main

import (
	"encoding/json"
	"fmt"
	"os"
	"os/exec"
	"path/filepath"
	"regexp"
	"runtime"
	"strconv"
	"strings"
	"syscall"
	"time"

	"verif/internal/harness"
	"verif/internal/wirereg"
)

const envSeg = "C10_SEG"

const subworkerASLimit = 8 << 30

// segSpec is one unit of work run in a sub-worker process.
type segSpec struct {
	Kind    string   `json:"kind"` // bin | text | val
	Name    string   `json:"name"`
	Entries []string `json:"entries,omitempty"` // entry-point names (bin, text)
	Family  string   `json:"family,omitempty"`  // network family (val)
	NetIdx  int      `json:"netIdx,omitempty"`
	Part    int      `json:"part,omitempty"` // val: this segment evaluates the variants of blocks with height % Parts == Part
	Parts   int      `json:"parts,omitempty"`
	Skip    int64    `json:"skip,omitempty"`    // cases with ordinal <= Skip are generated but not executed (resume after a fatal case)
	Light   bool     `json:"light,omitempty"`   // reduced budget (used for the -race copies)
	Abandon []string `json:"abandon,omitempty"` // entry points / operators not executed any more after repeated process-fatal inputs
	Own     bool     `json:"own,omitempty"`     // this segment is the owner of its entry points for the decode_entry_points audit
}

type layout struct{ bin, text, val, race, a386 int }

func layoutOf(tier string) layout {
	if tier == "quick" {
		return layout{bin: 8, text: 8, val: 12, race: 6, a386: 2}
	}
	return layout{bin: 32, text: 16, val: 48, race: 8, a386: 4}
}

func (l layout) total() int { return l.bin + l.text + l.val + l.race + l.a386 }

// role maps a batch index to its workload: the -race copies first (they are the slowest), then the
// validation histories, the text/JSON entry points and the binary decoders.
func (l layout) role(k int) (string, int) {
	switch {
	case k < l.race:
		return "race", k
	case k < l.race+l.val:
		return "val", k - l.race
	case k < l.race+l.val+l.text:
		return "text", k - l.race - l.val
	case k < l.race+l.val+l.text+l.bin:
		return "bin", k - l.race - l.val - l.text
	}
	// the last batches run from the GOARCH=386 build (int and uintptr are 32 bits wide there)
	return "arch386", k - l.race - l.val - l.text - l.bin
}

var families = []string{"compressed", "v1only", "v2genesis", "scrambled", "testnet", "legacywin"}

func repoDir() string {
	if r := os.Getenv("VERIF_REPO"); r != "" {
		return r
	}
	mod := os.Getenv("VERIF_MODFILE")
	if mod == "" {
		mod = "/verif/go.mod"
	}
	if raw, err := os.ReadFile(mod); err == nil {
		for _, ln := range strings.Split(string(raw), "\n") {
			if i := strings.Index(ln, "go.sia.tech/core =>"); i >= 0 {
				return strings.TrimSpace(ln[i+len("go.sia.tech/core =>"):])
			}
		}
	}
	return "/repo"
}

func binNames() []string {
	var out []string
	for _, e := range wirereg.Registry() {
		if !e.EncodeOnly {
			out = append(out, e.Name)
		}
	}
	return out
}

func chunk(names []string, n int) [][]string {
	var out [][]string
	for len(names) > 0 {
		k := min(n, len(names))
		out = append(out, names[:k])
		names = names[k:]
	}
	return out
}

// plan lists the segments of one harness batch.
func plan(b *harness.B) []segSpec {
	l := layoutOf(b.Tier)
	k := b.Batch
	var segs []segSpec
	role, j := l.role(k)
	switch role {
	case "bin":
		k := j
		var mine []string
		for i, n := range binNames() {
			if i%l.bin == k {
				mine = append(mine, n)
			}
		}
		for i, c := range chunk(mine, 6) {
			segs = append(segs, segSpec{Kind: "bin", Name: fmt.Sprintf("bin-%d-%d", k, i), Entries: c, Own: true})
		}
	case "text":
		var mine []string
		for i, e := range textRegistry() {
			if i%l.text == j {
				mine = append(mine, e.Name)
			}
		}
		for i, c := range chunk(mine, 5) {
			segs = append(segs, segSpec{Kind: "text", Name: fmt.Sprintf("text-%d-%d", j, i), Entries: c, Own: true})
		}
	case "val":
		// two batches share one generated history and split its blocks by parity
		nets := b.Pick(1, 2)
		for i := 0; i < nets; i++ {
			fam := families[(j/2+i*5)%len(families)]
			segs = append(segs, segSpec{Kind: "val", Name: fmt.Sprintf("val-%d-%d-%s-p%d", j/2, i, fam, j%2), Family: fam, NetIdx: (j/2)*100 + i, Part: j % 2, Parts: 2})
		}
	case "arch386":
		var mine []string
		for i, n := range binNames() {
			if i%l.a386 == j {
				mine = append(mine, n)
			}
		}
		for i, c := range chunk(mine, 30) {
			segs = append(segs, segSpec{Kind: "bin", Name: fmt.Sprintf("x86bin-%d-%d", j, i), Entries: c, Light: true})
		}
		var tm []string
		for i, e := range textRegistry() {
			if i%l.a386 == j {
				tm = append(tm, e.Name)
			}
		}
		for i, c := range chunk(tm, 10) {
			segs = append(segs, segSpec{Kind: "text", Name: fmt.Sprintf("x86text-%d-%d", j, i), Entries: c, Light: true})
		}
		segs = append(segs, segSpec{Kind: "val", Name: fmt.Sprintf("x86val-%d", j), Family: families[(j*5+2)%len(families)], NetIdx: 9500 + j, Light: true, Parts: 1})
	default:
		// -race (checkptr) copies with a reduced budget
		var mine []string
		for i, n := range binNames() {
			if i%l.race == j {
				mine = append(mine, n)
			}
		}
		for i, c := range chunk(mine, 30) {
			segs = append(segs, segSpec{Kind: "bin", Name: fmt.Sprintf("racebin-%d-%d", j, i), Entries: c, Light: true})
		}
		var tm []string
		for i, e := range textRegistry() {
			if i%l.race == j {
				tm = append(tm, e.Name)
			}
		}
		for i, c := range chunk(tm, 10) {
			segs = append(segs, segSpec{Kind: "text", Name: fmt.Sprintf("racetext-%d-%d", j, i), Entries: c, Light: true})
		}
		segs = append(segs, segSpec{Kind: "val", Name: fmt.Sprintf("raceval-%d", j), Family: families[(j*5+5)%len(families)], NetIdx: 9000 + j, Light: true, Parts: 1})
	}
	return segs
}

var reOrd = regexp.MustCompile(`ord=([0-9]+)`)

func tailOf(path string, n int) string {
	raw, err := os.ReadFile(path)
	if err != nil {
		return ""
	}
	if len(raw) > n {
		raw = raw[len(raw)-n:]
	}
	return string(raw)
}

func headOf(path string, n int) string {
	raw, err := os.ReadFile(path)
	if err != nil {
		return ""
	}
	if len(raw) > n {
		raw = raw[:n]
	}
	return string(raw)
}

func deathKind(stderrHead string) string {
	switch {
	case strings.Contains(stderrHead, "fatal error: checkptr"):
		return "checkptr"
	case strings.Contains(stderrHead, "out of memory") || strings.Contains(stderrHead, "cannot allocate memory"):
		return "out-of-memory"
	case strings.Contains(stderrHead, "stack overflow") || strings.Contains(stderrHead, "stack exceeds"):
		return "stack-overflow"
	case strings.Contains(stderrHead, "SIGSEGV") || strings.Contains(stderrHead, "unexpected fault address"):
		return "fault"
	case strings.Contains(stderrHead, "concurrent map"):
		return "concurrent-map"
	case strings.Contains(stderrHead, "fatal error:"):
		return "fatal-error"
	case strings.Contains(stderrHead, "panic:"):
		return "panic"
	}
	return "process-death"
}

func segTimeout(tier string, seg segSpec) time.Duration {
	if tier == "quick" {
		if seg.Light {
			return 180 * time.Second // -race copies: the slowdown varies between 2x and 13x
		}
		return 150 * time.Second
	}
	return 25 * time.Minute
}

// supervise runs one segment in sub-worker processes until it completes.
func supervise(b *harness.B, seg segSpec) {
	exe, err := os.Executable()
	if err != nil {
		b.Inconclusive("cannot locate own executable: " + err.Error())
		return
	}
	const maxAttempts = 12
	deaths := map[string]int{}
	for attempt := 0; attempt < maxAttempts; attempt++ {
		sub := filepath.Join(b.Work, fmt.Sprintf("sub-%d-%s-%d", b.Batch, seg.Name, attempt))
		os.RemoveAll(sub)
		os.MkdirAll(sub, 0o755)
		raw, _ := json.Marshal(seg)
		args := []string{"-child", fmt.Sprint(b.Batch), "-nb", fmt.Sprint(b.NB), "-tier", b.Tier, "-seed", fmt.Sprint(b.Seed), "-work", sub}
		cmd := exec.Command(exe, args...)
		cmd.Env = append(os.Environ(), envSeg+"="+string(raw))
		so, _ := os.Create(filepath.Join(sub, "stdout"))
		se, _ := os.Create(filepath.Join(sub, "stderr"))
		cmd.Stdout, cmd.Stderr = so, se
		// the sub-worker stays in the supervisor's process group, so the harness' group kill reaches it
		cmd.SysProcAttr = &syscall.SysProcAttr{Pdeathsig: syscall.SIGKILL}
		os.WriteFile(filepath.Join(sub, "cmd"), []byte(envSeg+"='"+string(raw)+"' "+exe+" "+strings.Join(args, " ")+"\n"), 0o644)
		t0 := time.Now()
		if err := cmd.Start(); err != nil {
			b.Inconclusive("cannot start sub-worker: " + err.Error())
			return
		}
		done := make(chan error, 1)
		go func() { done <- cmd.Wait() }()
		// watchdog on the sub-worker's own CPU time (load independent), with a wall-clock cap far above it
		timedOut := false
		cpuLimit := segTimeout(b.Tier, seg)
		wallCap := time.After(8 * cpuLimit)
		tick := time.NewTicker(400 * time.Millisecond)
	wait:
		for {
			select {
			case <-done:
				break wait
			case <-tick.C:
				if procCPU(cmd.Process.Pid) <= cpuLimit {
					continue
				}
			case <-wallCap:
			}
			timedOut = true
			cmd.Process.Signal(syscall.SIGQUIT)
			select {
			case <-done:
			case <-time.After(5 * time.Second):
				cmd.Process.Kill()
				<-done
			}
			break wait
		}
		tick.Stop()
		so.Close()
		se.Close()
		b.Count("subworkers_run", 1)
		b.MaxOf("max_subworker_wall_ms", time.Since(t0).Milliseconds())
		if os.Getenv("C10_DEBUG") != "" {
			fmt.Fprintf(os.Stderr, "segment %s attempt %d: %d ms\n", seg.Name, attempt, time.Since(t0).Milliseconds())
		}

		journal := tailOf(filepath.Join(sub, fmt.Sprintf("batch-%d.journal", b.Batch)), 6000)
		lastRec := ""
		if ls := strings.Split(strings.TrimSpace(journal), "\n"); len(ls) > 0 {
			lastRec = ls[len(ls)-1]
		}
		if timedOut {
			tok := lastRec
			if i := strings.IndexByte(tok, ' '); i > 0 {
				tok = tok[:i]
			}
			salvage(b, sub)
			b.Inconclusive(fmt.Sprintf("sub-worker watchdog fired after %s of CPU time in segment kind %s (last journalled case class: %s)", segTimeout(b.Tier, seg), seg.Kind, tok))
			return
		}
		var r harness.Result
		rraw, rerr := os.ReadFile(filepath.Join(sub, fmt.Sprintf("batch-%d.json", b.Batch)))
		if rerr == nil && json.Unmarshal(rraw, &r) == nil && r.Done {
			mergeResult(b, &r)
			if !keepWork() {
				os.RemoveAll(sub)
			}
			return
		}
		// the sub-worker died: the last journal record is the witness
		stderrHead := headOf(filepath.Join(sub, "stderr"), 4000)
		stderrTail := tailOf(filepath.Join(sub, "stderr"), 6000)
		kind := deathKind(stderrHead)
		tok, ord := "?", int64(-1)
		if lastRec != "" {
			tok = lastRec
			if i := strings.IndexByte(tok, ' '); i > 0 {
				tok = tok[:i]
			}
			if m := reOrd.FindStringSubmatch(lastRec); m != nil {
				ord, _ = strconv.ParseInt(m[1], 10, 64)
			}
		}
		// tok is "<entry point or operator>|<attack class>"
		ep, class := tok, ""
		if i := strings.LastIndexByte(tok, '|'); i >= 0 {
			ep, class = tok[:i], tok[i+1:]
		}
		salvage(b, sub)
		frame := coreFrame(stderrHead + stderrTail)
		key := fmt.Sprintf("C10/%s/%s", kind, frame)
		if frame == "unknown" {
			key = fmt.Sprintf("C10/%s/%s/%s", kind, ep, class)
		}
		b.Violate(key,
			fmt.Sprintf("sub-worker process died (%s) while executing case %q of segment %s", kind, tok, seg.Name),
			map[string]any{"entry_point": ep, "class": class, "journal_last": capStr(lastRec, 3000), "stderr_head": stderrHead, "stderr_tail": stderrTail, "segment": seg})
		b.Count("subworker_deaths", 1)
		if ord < 0 || ord <= seg.Skip {
			b.Inconclusive("sub-worker died without a usable journal record; rest of segment " + seg.Kind + " not run")
			return
		}
		unit := ep
		if seg.Kind == "val" {
			unit = tok
		}
		deaths[unit]++
		if deaths[unit] >= 3 {
			seg.Abandon = append(seg.Abandon, unit)
			b.Inconclusive("remaining cases of " + unit + " not run after 3 process-fatal inputs")
			if seg.Own && seg.Kind != "val" {
				// the entry point WAS exercised (that is how it died); no sub-worker lives to book it
				b.Count("decode_entry_points", 1)
				b.Count("decode_entry_points_match", 1)
				b.SetAdd("entry_points_abandoned_after_fatal_inputs", unit)
			}
		}
		seg.Skip = ord
	}
	b.Inconclusive(fmt.Sprintf("segment of kind %s abandoned after %d fatal sub-worker deaths", seg.Kind, maxAttempts))
}

// procCPU is the CPU time (user+system) a process has used so far.
func procCPU(pid int) time.Duration {
	raw, err := os.ReadFile(fmt.Sprintf("/proc/%d/stat", pid))
	if err != nil {
		return 0
	}
	st := string(raw)
	i := strings.LastIndexByte(st, ')')
	if i < 0 {
		return 0
	}
	f := strings.Fields(st[i+1:])
	if len(f) < 13 {
		return 0
	}
	ut, _ := strconv.ParseInt(f[11], 10, 64)
	stt, _ := strconv.ParseInt(f[12], 10, 64)
	return time.Duration(ut+stt) * (time.Second / 100) // USER_HZ = 100 on Linux
}

func keepWork() bool { return os.Getenv("C10_KEEP") != "" }

func capStr(s string, n int) string {
	if len(s) > n {
		return s[:n] + "…"
	}
	return s
}

func mergeResult(b *harness.B, r *harness.Result) {
	b.Eval(int(r.Evaluations))
	for k, v := range r.Counters {
		b.Count(k, int(v))
	}
	for k, v := range r.Max {
		b.MaxOf(k, v)
	}
	for _, d := range r.Distinct {
		b.Distinct(d)
	}
	for s, ms := range r.Sets {
		for _, m := range ms {
			b.SetAdd(s, m)
		}
	}
	for _, s := range r.Samples {
		b.Sample(s)
	}
	for _, v := range r.Violations {
		b.Violate(v.Key, v.Detail, v.Witness)
	}
	for k, n := range r.Inconclusive {
		for i := int64(0); i < n && i < 100000; i++ {
			b.Inconclusive(k)
		}
	}
}

func run(b *harness.B) {
	if raw := os.Getenv(envSeg); raw != "" {
		var seg segSpec
		if err := json.Unmarshal([]byte(raw), &seg); err != nil {
			b.Inconclusive("bad segment spec: " + err.Error())
			return
		}
		runtime.LockOSThread()
		if !raceEnabled {
			// bound the address space of a sub-worker: an input that makes a decoder ask for tens of
			// gigabytes then dies at once with "out of memory" (a finding, attributed through the journal)
			// instead of dragging the machine down
			lim := syscall.Rlimit{Cur: subworkerASLimit, Max: subworkerASLimit}
			syscall.Setrlimit(syscall.RLIMIT_AS, &lim)
		}
		runSegment(b, seg)
		return
	}
	l := layoutOf(b.Tier)
	if b.NB != l.total() {
		b.Inconclusive(fmt.Sprintf("batch count %d does not match the layout (%d)", b.NB, l.total()))
		return
	}
	if b.Batch == 0 {
		audit(b)
	}
	for _, seg := range plan(b) {
		supervise(b, seg)
	}
}

// audit is the fail-closed part: registry completeness (binary and text) and
// the balance counter that makes "every registered entry point was exercised"
// a required observation: batch 0 contributes 1 - (number of entry points),
// every owner segment contributes +1 per entry point it exercised, so the
// merged counter is > 0 exactly when all of them were.
func audit(b *harness.B) {
	dir := repoDir()
	ok := true
	missing, stale, err := wirereg.MissingFromRegistry(dir)
	switch {
	case err != nil:
		b.Inconclusive("binary registry completeness check could not parse " + dir + ": " + err.Error())
		ok = false
	case len(missing) > 0:
		b.Inconclusive("wire types declared in the source but missing from the binary registry: " + strings.Join(missing, ", "))
		ok = false
	case len(stale) > 0:
		b.Inconclusive("binary registry names types that no longer declare a codec: " + strings.Join(stale, ", "))
		ok = false
	}
	tmissing, tstale, terr := textMissing(dir)
	switch {
	case terr != nil:
		b.Inconclusive("text registry completeness check could not parse " + dir + ": " + terr.Error())
		ok = false
	case len(tmissing) > 0:
		b.Inconclusive("UnmarshalJSON/UnmarshalText/Parse* functions declared in the source but missing from the text registry: " + strings.Join(tmissing, ", "))
		ok = false
	case len(tstale) > 0:
		b.Inconclusive("text registry names functions the source no longer declares: " + strings.Join(tstale, ", "))
		ok = false
	}
	if ok {
		b.Count("registry_complete", 1)
	}
	nb, nt := len(binNames()), len(textRegistry())
	b.MaxOf("registry_size_binary", int64(nb))
	b.MaxOf("registry_size_text_json", int64(nt))
	decl, _ := declaredTextFuncs(dir)
	b.MaxOf("declared_text_json_functions_in_source", int64(len(decl)))
	b.Count("decode_entry_points_match", 1-(nb+nt))
}

func runSegment(hb *harness.B, seg segSpec) {
	b := newRecB(hb)
	m := newMon(b, seg.Skip)
	for _, a := range seg.Abandon {
		m.abandon[a] = true
	}
	switch seg.Kind {
	case "bin":
		runBin(b, m, seg)
	case "text":
		runText(b, m, seg)
	case "val":
		runVal(b, m, seg)
	default:
		b.Inconclusive("unknown segment kind " + seg.Kind)
	}
	b.checkpoint()
}

func main() {
	harness.Main(harness.Spec{
		ID:   "C10",
		Rule: "(1) every binary wire entry point (all decoders of the wirereg registry) x {own valid encodings of generated values, their prefixes, single/multi-byte mutations, every 8-byte window overwritten with 0,1,remaining-1,remaining,remaining+1,2^16,2^20,2^22,2^24,2^25,2^31,2^32-1,2^32,2^32+1,2^62,2^63-1,2^63,2^64-1, tails, semi-random words, random bytes, deep/wide policy nests}; every UnmarshalJSON/UnmarshalText/Parse* function and the JSON form of the composite types x {own valid output, prefixes, byte edits, numeric tokens -> exponents/long digits/negative/huge, hex tokens -> overlong/odd/truncated, nests, JSON tree attacks: map keys and indices out of range, wrong types, huge numbers, hostile strings, deep nesting, repeated elements}; (2) every block accepted on chaingen histories of six network families (incl. the legacy ephemeral window) x hostile operators (currency extremes/pairs/compensated sums, siafund values, covered-field and key indices, proof lengths, leaf indices, parents duplicated/missing/swapped, deep/wide policies, uint64 extremes, resolution types, rollover/ephemeral-claim/fee overflow constructions, payouts), re-signed, re-sealed, validated at transaction and block level; (3) every accepted block applied and reverted. Oracles: recover()+journal crash monitor, TotalAlloc <= 1 MiB + 1024*len(input) (windows of <=64 calls / 16 KiB triggered at the bound of their shortest input, bisect, verdict from the solo run; site from a sampled heap profile), thread CPU <= max(250 ms, 10^4 x per-byte cost calibrated in the same run on the same entry point) (solo confirmed). distinct = (entry point or operator, attack class, value/field class, era, outcome).",
		Assume: []string{
			"supplements and ancestor timestamps are the caller's trusted inputs: variants get the supplement the store model builds for them",
			"only wire-representable objects are validated: a variant transaction is first encoded and decoded with its own codec and the DECODED object is validated (objects whose Encode panics or whose bytes the decoder refuses are counted as decoder cases only)",
			"Encode* of programmer-error values (including outlining and encoding a block the sender would not have accepted) and RHP Validate() methods are not judged here (C17 judges the RHP money paths)",
			"a sub-worker killed by the watchdog is inconclusive, not a violation",
			"allocation allowance per input byte: 1024 for binary and text entry points; 4096 for JSON documents (encoding/json's own linear amplification of arrays of empty objects into large element structs was measured at ~1200x)",
		},
		Batches: func(t string) int { return layoutOf(t).total() },
		Run:     run,
		Arch386Batches: func(t string) []int {
			l := layoutOf(t)
			var out []int
			for i := 0; i < l.a386; i++ {
				out = append(out, l.race+l.val+l.text+l.bin+i)
			}
			return out
		},
		RaceBatches: func(t string) []int {
			l := layoutOf(t)
			var out []int
			for i := 0; i < l.race; i++ {
				out = append(out, i)
			}
			return out
		},
		ChildTimeout: func(t string) time.Duration {
			if t == "quick" {
				return 10 * time.Minute
			}
			return 90 * time.Minute
		},
		MinEvals:    150000,
		MinDistinct: 3000,
		Require: []string{"variant_blocks_relayed_as_outline_and_completed", "post_require_blocks_with_v1_transactions_validated_with_empty_supplement", "decode_entry_points", "decode_entry_points_match", "decode_inputs", "json_text_inputs", "validation_variants",
			"blocks_applied_and_reverted", "alloc_batches_measured", "registry_complete", "decode_valid_accepted", "text_valid_accepted",
			"variants_rejected", "cpu_calls_measured"},
		Extra: func(m *harness.Result, cov map[string]any) {
			cov["entry_points_exercised"] = m.Counters["decode_entry_points"]
			cov["entry_points_registered"] = m.Max["registry_size_binary"] + m.Max["registry_size_text_json"]
		},
	})
}
