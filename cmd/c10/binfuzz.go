package main

import (
	"encoding/binary"
	"fmt"
	"math/rand/v2"
	"strings"

	"verif/internal/valgen"
	"verif/internal/wirereg"
)

// lenValues are the values written over every 8-byte window of a valid
// encoding; rem is the number of bytes that follow the window.
func lenValues(rem uint64) [][2]any {
	return [][2]any{
		{"0", uint64(0)}, {"1", uint64(1)},
		{"rem-1", rem - 1}, {"rem", rem}, {"rem+1", rem + 1},
		{"2^16", uint64(1) << 16}, {"2^20", uint64(1) << 20}, {"2^22", uint64(1) << 22}, {"2^24", uint64(1) << 24}, {"2^25", uint64(1) << 25},
		{"2^31", uint64(1) << 31}, {"2^32-1", uint64(1)<<32 - 1}, {"2^32", uint64(1) << 32}, {"2^32+1", uint64(1)<<32 + 1},
		{"2^62", uint64(1) << 62}, {"2^63-1", uint64(1)<<63 - 1}, {"2^63", uint64(1) << 63}, {"2^64-1", ^uint64(0)},
	}
}

type binLevel struct {
	light      bool
	gens       int // generated values per entry point
	allOffsets int // encodings up to this length get every window offset
	extraOff   int // sampled offsets beyond the plausible ones for longer encodings
	flips      int
	multis     int
	randoms    int
	prefixes   int
	nestDeep   []int
}

func binLevelOf(b *recB, light bool) binLevel {
	switch {
	case light:
		return binLevel{light: true, gens: 1, allOffsets: 96, extraOff: 16, flips: 48, multis: 16, randoms: 4, prefixes: 64, nestDeep: []int{31, 32, 33, 40, 1000}}
	case b.Quick():
		return binLevel{gens: 3, allOffsets: 420, extraOff: 96, flips: 256, multis: 96, randoms: 8, prefixes: 300, nestDeep: []int{31, 32, 33, 34, 40, 100, 1000, 5000, 20000, 200000}}
	default:
		return binLevel{gens: 40, allOffsets: 3000, extraOff: 600, flips: 1500, multis: 600, randoms: 60, prefixes: 1500, nestDeep: []int{31, 32, 33, 34, 40, 100, 1000, 5000, 20000, 200000, 1000000}}
	}
}

func safeEncode(e wirereg.Entry, v any) (enc []byte, ok bool) {
	defer func() {
		if r := recover(); r != nil {
			ok = false
		}
	}()
	return e.Encode(v), true
}

func runBin(b *recB, m *mon, seg segSpec) {
	lv := binLevelOf(b, seg.Light)
	for _, name := range seg.Entries {
		e, ok := wirereg.ByName(name)
		if !ok || e.EncodeOnly {
			b.Inconclusive("binary entry point not in the registry: " + name)
			continue
		}
		rng := b.SubRng("bin/" + name)
		t := &target{name: name, kind: "bin", call: func(in []byte) error { _, err := e.Decode(in); return err }}
		f := m.feeder(t)
		fuzzBinEntry(b, f, e, rng, lv)
		f.flush()
		v, a := f.outcomes["valid"], 0
		for _, o := range f.outcomes {
			a += o[0] + o[1] + o[2]
		}
		if v != nil && v[0] > 0 {
			b.Count("decode_valid_accepted", v[0])
		}
		if v != nil && v[1] > 0 {
			// a decoder refusing its own encoder's output is C11's subject; noted, not judged here
			b.Count("valid_encodings_rejected(observed; judged by C11)", v[1])
		}
		if m.skip == 0 && !m.abandon[name] && (v == nil || v[0] == 0) {
			b.Inconclusive("no valid encoding of " + name + " was accepted by its decoder: attacks derived from valid encodings are weak")
		}
		if a > 0 && seg.Own {
			b.Count("decode_entry_points", 1)
			b.Count("decode_entry_points_match", 1)
			b.SetAdd("entry_points_binary", name)
		}
		b.checkpoint()
		for cls, o := range f.outcomes {
			b.Count("bin_class:"+cls+":value", o[0])
			b.Count("bin_class:"+cls+":error", o[1])
			b.Count("bin_class:"+cls+":panic", o[2])
		}
	}
}

func cp(b []byte) []byte { return append([]byte(nil), b...) }

func fuzzBinEntry(b *recB, f *feeder, e wirereg.Entry, rng *rand.Rand, lv binLevel) {
	var encs [][]byte
	for i := 0; i < lv.gens; i++ {
		var o *valgen.Opts
		switch i % 3 {
		case 0:
			o = &valgen.Opts{Budget: 10, MaxLen: 1, MaxDepth: 1}
		case 1:
			o = nil
		default:
			o = &valgen.Opts{Budget: 500, MaxLen: 4, MaxDepth: 4}
		}
		var v any
		func() {
			defer func() {
				if r := recover(); r != nil {
					v = nil
				}
			}()
			v = e.Gen(rng, o)
		}()
		if v == nil {
			b.Count("generator_panics(not judged)", 1)
			continue
		}
		enc, ok := safeEncode(e, v)
		if !ok {
			b.Count("generated_values_not_encodable(not judged)", 1)
			continue
		}
		encs = append(encs, enc)
	}
	// the zero value's encoding is always a seed too
	if enc, ok := safeEncode(e, e.New()); ok {
		encs = append(encs, enc)
	}
	for _, enc := range encs {
		f.add("valid", sizeClass(len(enc)), enc)
	}
	f.flush() // calibrate the CPU bound on the valid inputs first

	// length-prefix attacks on every 8-byte window
	lenAttack := func(enc []byte, fatalProne bool) {
		n := len(enc)
		if n >= 8 {
			offs := map[int]bool{}
			if n <= lv.allOffsets {
				for o := 0; o+8 <= n; o++ {
					offs[o] = true
				}
			} else {
				for o := 0; o+8 <= n; o++ {
					if v := binary.LittleEndian.Uint64(enc[o:]); v <= uint64(n) {
						offs[o] = true // plausible length / count / flag field
					}
				}
				if len(offs) > lv.allOffsets {
					// keep a deterministic sample
					keep := map[int]bool{}
					for o := range offs {
						if int((uint64(o)*2654435761)%uint64(len(offs))) < lv.allOffsets {
							keep[o] = true
						}
					}
					offs = keep
				}
				for i := 0; i < lv.extraOff; i++ {
					offs[rng.IntN(n-7)] = true
				}
				for o := 0; o < 64 && o+8 <= n; o++ {
					offs[o] = true
				}
			}
			for o := 0; o+8 <= n; o++ {
				if !offs[o] {
					continue
				}
				cur := binary.LittleEndian.Uint64(enc[o:])
				plaus := "other"
				if cur <= uint64(n) {
					plaus = "plausible"
				}
				if o%8 == 0 {
					plaus += "-aligned"
				}
				for _, lvp := range lenValues(uint64(n - o - 8)) {
					x := lvp[1].(uint64)
					if lv.light && x >= 1<<24 && x <= 1<<40 {
						continue // -race copies: feasible-huge allocations make the race runtime itself crawl
					}
					// feasible-huge counts can kill the process outright (make() of tens of gigabytes): they run last
					if (x >= 1<<31 && x <= 1<<40) != fatalProne {
						continue
					}
					d := cp(enc)
					binary.LittleEndian.PutUint64(d[o:], lvp[1].(uint64))
					f.add("len", lvp[0].(string)+"/"+plaus, d)
				}
			}
		}
	}
	for gi, enc := range encs {
		n := len(enc)
		// prefixes
		if n <= lv.prefixes {
			for k := 0; k < n; k++ {
				f.add("prefix", sizeClass(k), enc[:k])
			}
		} else {
			for k := 0; k < 64; k++ {
				f.add("prefix", sizeClass(k), enc[:k])
				f.add("prefix", "tail", enc[:n-1-k])
			}
			for i := 0; i < lv.prefixes; i++ {
				k := rng.IntN(n)
				f.add("prefix", sizeClass(k), enc[:k])
			}
		}
		lenAttack(enc, false)
		// single-byte mutations
		for i := 0; i < lv.flips && n > 0; i++ {
			p := i
			if n > lv.flips/4 {
				p = rng.IntN(n)
			} else {
				p = (i / 4) % n
			}
			d := cp(enc)
			var sub string
			switch i % 4 {
			case 0:
				d[p] ^= 1 << uint(rng.IntN(8))
				sub = "bit"
			case 1:
				d[p] = 0xFF
				sub = "ff"
			case 2:
				d[p] = 0
				sub = "00"
			default:
				d[p]++
				sub = "inc"
			}
			f.add("flip", sub, d)
		}
		// multi-byte mutations
		for i := 0; i < lv.multis && n > 1; i++ {
			d := cp(enc)
			k := 2 + rng.IntN(7)
			for j := 0; j < k; j++ {
				d[rng.IntN(n)] = byte(rng.IntN(256))
			}
			f.add("multi", fmt.Sprint(k), d)
		}
		// tails: claims more than it provides / trailing junk
		if gi < 4 {
			for _, k := range []int{1, 8, 64, 4096} {
				d := append(cp(enc), make([]byte, k)...)
				f.add("tail", "zeros", d)
				d = cp(d)
				for i := n; i < len(d); i++ {
					d[i] = 0xFF
				}
				f.add("tail", "ff", d)
			}
		}
	}

	// pure random bytes and semi-random words (small integers mixed with junk,
	// so that length prefixes are not always rejected at once)
	lens := []int{0, 1, 2, 7, 8, 9, 15, 16, 17, 31, 32, 33, 63, 64, 65, 100, 256, 1000, 4096}
	for _, n := range lens {
		for i := 0; i < lv.randoms; i++ {
			d := make([]byte, n)
			for j := range d {
				d[j] = byte(rng.IntN(256))
			}
			f.add("random", sizeClass(n), d)
			w := make([]byte, 0, n+8)
			for len(w) < n {
				var word [8]byte
				switch rng.IntN(5) {
				case 0:
					binary.LittleEndian.PutUint64(word[:], rng.Uint64())
				case 1:
					binary.LittleEndian.PutUint64(word[:], uint64(n))
				default:
					binary.LittleEndian.PutUint64(word[:], uint64(rng.IntN(5)))
				}
				if rng.IntN(4) == 0 {
					w = append(w, byte(rng.IntN(8)))
				}
				w = append(w, word[:]...)
			}
			f.add("semirandom", sizeClass(n), w[:n])
		}
	}
	for _, bt := range []byte{0x00, 0x01, 0x05, 0xFF} {
		for _, n := range []int{64, 4096, 1 << 16} {
			d := make([]byte, n)
			for i := range d {
				d[i] = bt
			}
			f.add("fill", fmt.Sprintf("%02x/%s", bt, sizeClass(n)), d)
		}
	}

	// deep / wide policy nests for the policy decoders
	if strings.HasSuffix(e.Name, "types.SpendPolicy") || strings.HasSuffix(e.Name, "types.SatisfiedPolicy") {
		for _, depth := range lv.nestDeep {
			for _, width := range []byte{1, 2, 255} {
				d := []byte{1}
				for i := 0; i < depth; i++ {
					d = append(d, 5 /* opThreshold */, 1, width)
				}
				d = append(d, 1 /* opAbove */, 0, 0, 0, 0, 0, 0, 0, 0)
				d = append(d, make([]byte, 32)...) // zero-length slices of a SatisfiedPolicy / padding
				f.add("nest", fmt.Sprintf("depth%d/width%d", depth, width), d)
			}
		}
	}
	// block outlines end in one kind byte per transaction (full v1 / full v2 / omitted): every relabelling of the
	// last up to six of them, the counts per kind right or wrong
	if strings.Contains(e.Name, "Outline") {
		for ei, enc := range encs {
			if ei >= 2 || len(enc) < 8 {
				continue
			}
			for k := 1; k <= 6 && k <= len(enc); k++ {
				n := 1
				for i := 0; i < k; i++ {
					n *= 3
				}
				for code := 0; code < n; code++ {
					d := cp(enc)
					changed := false
					for i, c := 0, code; i < k; i, c = i+1, c/3 {
						if v := byte(c % 3); d[len(d)-1-i] != v {
							d[len(d)-1-i], changed = v, true
						}
					}
					if changed {
						f.add("outline-kinds", fmt.Sprintf("last-%d", k), d)
					}
				}
			}
		}
	}
	for _, enc := range encs {
		lenAttack(enc, true)
	}
}

func sizeClass(n int) string {
	switch {
	case n == 0:
		return "0"
	case n < 8:
		return "<8"
	case n < 64:
		return "<64"
	case n < 512:
		return "<512"
	case n < 4096:
		return "<4k"
	case n < 1<<16:
		return "<64k"
	}
	return ">=64k"
}
