package main

import (
	"time"

	"go.sia.tech/core/consensus"
	"go.sia.tech/core/types"
)

// legacySupply: states in which the coins that exist sum to more than 2^128 H are reachable by valid history - below
// HardforkV2.EphemeralOutputHeight the value claimed for an in-block v2 siacoin parent is not compared with the output
// it names, so an accepted block can create outputs of 2^127-1 H. Against such a state (built here on a small network
// of its own, every block passing the real ValidateBlock) validation still has to answer with a value or an error:
//
//	(a) a v1 transaction spending three such outputs, which are genuine accumulator elements (v1 input sum);
//	(b) a block of contracts funded by such parents whose taxes sum past 2^128 (siafund pool).
func (v *valmon) legacySupply() {
	n := &consensus.Network{Name: "c10-legacy-supply", InitialCoinbase: types.Siacoins(300000), MinimumCoinbase: types.Siacoins(300000),
		InitialTarget: types.BlockID{0xFF}, BlockInterval: 10 * time.Minute, MaturityDelay: 5}
	n.HardforkOak.GenesisTimestamp = time.Unix(1618033988, 0)
	n.HardforkASIC.OakTime = 10000 * time.Second
	n.HardforkASIC.OakTarget = n.InitialTarget
	n.HardforkASIC.NonceFactor = 1
	n.HardforkFoundation.PrimaryAddress = types.VoidAddress
	n.HardforkFoundation.FailsafeAddress = types.VoidAddress
	n.HardforkV2.AllowHeight = 1
	n.HardforkV2.RequireHeight = 100
	n.HardforkV2.FinalCutHeight = 1 << 40
	n.HardforkV2.EphemeralOutputHeight = 50

	key := types.NewPrivateKeyFromSeed(make([]byte, 32))
	policy := types.PolicyPublicKey(key.PublicKey())
	addr := policy.Address()
	genesis := types.Block{Timestamp: n.HardforkOak.GenesisTimestamp, Transactions: []types.Transaction{{SiacoinOutputs: []types.SiacoinOutput{{Address: addr, Value: types.Siacoins(1000)}}}}}
	cs0, au := consensus.ApplyBlock(n.GenesisState(), genesis, consensus.V1BlockSupplement{Transactions: make([]consensus.V1TransactionSupplement, 1)}, time.Time{})
	var gift types.SiacoinElement
	for _, d := range au.SiacoinElementDiffs() {
		if d.SiacoinElement.SiacoinOutput.Address == addr {
			gift = d.SiacoinElement.Copy()
		}
	}
	sign := func(cs consensus.State, txn *types.V2Transaction) {
		h := cs.InputSigHash(*txn)
		for i := range txn.SiacoinInputs {
			txn.SiacoinInputs[i].SatisfiedPolicy.Signatures = []types.Signature{key.SignHash(h)}
		}
		for i := range txn.FileContracts {
			fc := &txn.FileContracts[i]
			fc.RenterSignature = key.SignHash(cs.ContractSigHash(*fc))
			fc.HostSignature = fc.RenterSignature
		}
	}
	seal := func(cs consensus.State, b *types.Block) {
		b.ParentID, b.Timestamp = cs.Index.ID, cs.PrevTimestamps[0].Add(time.Second)
		b.MinerPayouts = []types.SiacoinOutput{{Address: types.VoidAddress, Value: cs.BlockReward()}}
		if b.V2 != nil {
			b.V2.Height = cs.Index.Height + 1
			b.V2.Commitment = cs.Commitment(types.VoidAddress, b.Transactions, b.V2.Transactions)
		}
		for b.ID().CmpWork(cs.PoWTarget()) < 0 {
			b.Nonce += cs.NonceFactor()
		}
	}
	eph := func(seed *types.V2Transaction, i int, value types.Currency) types.SiacoinElement {
		return types.SiacoinElement{ID: seed.SiacoinOutputID(seed.ID(), i), StateElement: types.StateElement{LeafIndex: types.UnassignedLeafIndex}, SiacoinOutput: types.SiacoinOutput{Address: addr, Value: value}}
	}
	split := func(cs consensus.State, k int) types.V2Transaction {
		seed := types.V2Transaction{SiacoinInputs: []types.V2SiacoinInput{{Parent: gift.Copy(), SatisfiedPolicy: types.SatisfiedPolicy{Policy: policy}}}}
		for i := 0; i < k; i++ {
			seed.SiacoinOutputs = append(seed.SiacoinOutputs, types.SiacoinOutput{Address: addr, Value: types.Siacoins(1)})
		}
		seed.SiacoinOutputs = append(seed.SiacoinOutputs, types.SiacoinOutput{Address: addr, Value: gift.SiacoinOutput.Value.Sub(types.Siacoins(uint32(k)))})
		sign(cs, &seed)
		return seed
	}
	big := types.NewCurrency(^uint64(0), 1<<63-1) // 2^127-1 H

	// (a)
	v.guard("legacy-window-supply/v1-transaction-spending-three-outputs-of-2^127-1", nil, func() {
		v1uc := types.StandardUnlockConditions(key.PublicKey())
		v1addr := v1uc.UnlockHash()
		seed := split(cs0, 3)
		txns := []types.V2Transaction{seed}
		for i := 0; i < 3; i++ {
			txn := types.V2Transaction{SiacoinInputs: []types.V2SiacoinInput{{Parent: eph(&seed, i, big), SatisfiedPolicy: types.SatisfiedPolicy{Policy: policy}}}, SiacoinOutputs: []types.SiacoinOutput{{Address: v1addr, Value: big}}}
			sign(cs0, &txn)
			txns = append(txns, txn)
		}
		b1 := types.Block{V2: &types.V2BlockData{Transactions: txns}}
		seal(cs0, &b1)
		v.b.Eval(1)
		if err := consensus.ValidateBlock(cs0, b1, consensus.V1BlockSupplement{}); err != nil {
			v.b.Count("legacy_supply_setup_blocks_rejected(the window is closed to such parents)", 1)
			return
		}
		cs1, au1 := consensus.ApplyBlock(cs0, b1, consensus.V1BlockSupplement{}, time.Time{})
		var bigs []types.SiacoinElement
		for _, d := range au1.SiacoinElementDiffs() {
			if d.Created && !d.Spent && d.SiacoinElement.SiacoinOutput.Address == v1addr {
				bigs = append(bigs, d.SiacoinElement.Copy())
			}
		}
		v1txn := types.Transaction{SiacoinOutputs: []types.SiacoinOutput{{Address: types.VoidAddress, Value: types.Siacoins(1)}}}
		for _, e := range bigs {
			v1txn.SiacoinInputs = append(v1txn.SiacoinInputs, types.SiacoinInput{ParentID: e.ID, UnlockConditions: v1uc})
		}
		b2 := types.Block{Transactions: []types.Transaction{v1txn}}
		seal(cs1, &b2)
		bs := consensus.V1BlockSupplement{Transactions: []consensus.V1TransactionSupplement{{SiacoinInputs: bigs}}}
		v.b.Eval(1)
		v.b.Count("legacy_supply_states_probed", 1)
		v.b.Distinct("legacy-supply", "v1-input-sum", len(bigs))
		err := consensus.ValidateBlock(cs1, b2, bs)
		v.b.SetAdd("legacy_supply_verdicts", "v1-input-sum: "+errString(err))
	})
	// (c) the same sum reached by v1 contracts, each funded by one genuine output of 2^126 H (payout + valid + missed outputs of one contract stay below 2^128)
	v.guard("legacy-window-supply/v1-contract-taxes-of-a-block-summing-past-2^128", nil, func() {
		const contracts = 110
		big := types.NewCurrency(0, 1<<62) // 2^126 H
		v1uc := types.StandardUnlockConditions(key.PublicKey())
		v1addr := v1uc.UnlockHash()
		seed := split(cs0, contracts)
		txns := []types.V2Transaction{seed}
		for i := 0; i < contracts; i++ {
			txn := types.V2Transaction{SiacoinInputs: []types.V2SiacoinInput{{Parent: eph(&seed, i, big), SatisfiedPolicy: types.SatisfiedPolicy{Policy: policy}}}, SiacoinOutputs: []types.SiacoinOutput{{Address: v1addr, Value: big}}}
			sign(cs0, &txn)
			txns = append(txns, txn)
		}
		b1 := types.Block{V2: &types.V2BlockData{Transactions: txns}}
		seal(cs0, &b1)
		if err := consensus.ValidateBlock(cs0, b1, consensus.V1BlockSupplement{}); err != nil {
			v.b.Count("legacy_supply_setup_blocks_rejected(the window is closed to such parents)", 1)
			return
		}
		cs1, au1 := consensus.ApplyBlock(cs0, b1, consensus.V1BlockSupplement{}, time.Time{})
		var b2 types.Block
		var bs consensus.V1BlockSupplement
		for _, d := range au1.SiacoinElementDiffs() {
			if !(d.Created && !d.Spent && d.SiacoinElement.SiacoinOutput.Address == v1addr) {
				continue
			}
			fc := types.FileContract{WindowStart: 500, WindowEnd: 600, Payout: big, UnlockHash: v1addr}
			rest := big.Sub(cs1.FileContractTax(fc))
			fc.ValidProofOutputs = []types.SiacoinOutput{{Value: rest, Address: v1addr}}
			fc.MissedProofOutputs = []types.SiacoinOutput{{Value: rest, Address: v1addr}}
			txn := types.Transaction{SiacoinInputs: []types.SiacoinInput{{ParentID: d.SiacoinElement.ID, UnlockConditions: v1uc}}, FileContracts: []types.FileContract{fc},
				Signatures: []types.TransactionSignature{{ParentID: types.Hash256(d.SiacoinElement.ID), CoveredFields: types.CoveredFields{WholeTransaction: true}}}}
			txn.Signatures[0].Signature = func() []byte {
				sig := key.SignHash(cs1.WholeSigHash(txn, txn.Signatures[0].ParentID, 0, 0, nil))
				return sig[:]
			}()
			b2.Transactions = append(b2.Transactions, txn)
			bs.Transactions = append(bs.Transactions, consensus.V1TransactionSupplement{SiacoinInputs: []types.SiacoinElement{d.SiacoinElement.Copy()}})
		}
		seal(cs1, &b2)
		v.b.Eval(1)
		v.b.Count("legacy_supply_states_probed", 1)
		v.b.Distinct("legacy-supply", "siafund-pool-v1", len(b2.Transactions))
		err := consensus.ValidateBlock(cs1, b2, bs)
		v.b.SetAdd("legacy_supply_verdicts", "siafund-pool-v1: "+errString(err))
	})
	// (b)
	v.guard("legacy-window-supply/contract-taxes-of-a-block-summing-past-2^128", nil, func() {
		const contracts = 60
		seed := split(cs0, contracts)
		txns := []types.V2Transaction{seed}
		renter := types.NewCurrency(0, 1<<62).Div64(10).Mul64(18)
		for i := 0; i < contracts; i++ {
			fc := types.V2FileContract{ProofHeight: 500, ExpirationHeight: 600, RenterOutput: types.SiacoinOutput{Address: addr, Value: renter}, HostOutput: types.SiacoinOutput{Address: addr},
				RenterPublicKey: key.PublicKey(), HostPublicKey: key.PublicKey(), RevisionNumber: uint64(i)}
			cost := renter.Add(cs0.V2FileContractTax(fc))
			txn := types.V2Transaction{SiacoinInputs: []types.V2SiacoinInput{{Parent: eph(&seed, i, cost), SatisfiedPolicy: types.SatisfiedPolicy{Policy: policy}}}, FileContracts: []types.V2FileContract{fc}}
			sign(cs0, &txn)
			txns = append(txns, txn)
		}
		b := types.Block{V2: &types.V2BlockData{Transactions: txns}}
		seal(cs0, &b)
		v.b.Eval(1)
		v.b.Count("legacy_supply_states_probed", 1)
		v.b.Distinct("legacy-supply", "siafund-pool", contracts)
		err := consensus.ValidateBlock(cs0, b, consensus.V1BlockSupplement{})
		v.b.SetAdd("legacy_supply_verdicts", "siafund-pool: "+errString(err))
	})
}

func errString(err error) string {
	if err == nil {
		return "accepted"
	}
	return capStr(err.Error(), 120)
}
