// Package elems re-derives accumulator element hashes from the public
// types.Hasher (distinguisher, id, contents) and provides an independent
// membership test against State.Elements.
package elems

import (
	"go.sia.tech/core/consensus"
	"go.sia.tech/core/types"
	"verif/internal/refmodel"
)

type Hash = refmodel.Hash

func hashWith(dist string, f func(e *types.Encoder)) Hash {
	h := types.NewHasher()
	h.WriteDistinguisher(dist)
	f(h.E)
	return Hash(h.Sum())
}

func Siacoin(e types.SiacoinElement) Hash {
	return hashWith("leaf/siacoin", func(enc *types.Encoder) {
		e.ID.EncodeTo(enc)
		types.V2SiacoinOutput(e.SiacoinOutput).EncodeTo(enc)
		enc.WriteUint64(e.MaturityHeight)
	})
}

func Siafund(e types.SiafundElement) Hash {
	return hashWith("leaf/siafund", func(enc *types.Encoder) {
		e.ID.EncodeTo(enc)
		types.V2SiafundOutput(e.SiafundOutput).EncodeTo(enc)
		types.V2Currency(e.ClaimStart).EncodeTo(enc)
	})
}

func FileContract(id types.FileContractID, fc types.FileContract) Hash {
	return hashWith("leaf/filecontract", func(enc *types.Encoder) {
		id.EncodeTo(enc)
		fc.EncodeTo(enc)
	})
}

func V2FileContract(id types.FileContractID, fc types.V2FileContract) Hash {
	return hashWith("leaf/v2filecontract", func(enc *types.Encoder) {
		id.EncodeTo(enc)
		fc.EncodeTo(enc)
	})
}

func Attestation(id types.AttestationID, a types.Attestation) Hash {
	return hashWith("leaf/attestation", func(enc *types.Encoder) {
		id.EncodeTo(enc)
		a.EncodeTo(enc)
	})
}

func ChainIndex(id types.BlockID, ci types.ChainIndex) Hash {
	return hashWith("leaf/chainindex", func(enc *types.Encoder) {
		id.EncodeTo(enc)
		ci.EncodeTo(enc)
	})
}

// Member is the independent membership test: the leaf with the given element
// hash, index and spent flag, with proof se.MerkleProof, is under the tree of
// matching height in acc.
func Member(acc consensus.ElementAccumulator, elemHash Hash, se types.StateElement, spent bool) bool {
	k := len(se.MerkleProof)
	if k >= 64 || acc.NumLeaves&(1<<k) == 0 {
		return false
	}
	if se.LeafIndex >= acc.NumLeaves {
		return false
	}
	proof := make([]Hash, k)
	for i, h := range se.MerkleProof {
		proof[i] = Hash(h)
	}
	root := refmodel.RootFromProof(refmodel.ElementLeafHash(elemHash, se.LeafIndex, spent), se.LeafIndex, proof)
	return root == Hash(acc.Trees[k])
}
