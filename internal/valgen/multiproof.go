package valgen

import (
	"encoding/binary"
	"math/bits"
	"math/rand/v2"

	"go.sia.tech/core/blake2b"
	"go.sia.tech/core/types"
)

// ProofElement is one accumulator element referenced by a v2 transaction set.
type ProofElement struct {
	SE       *types.StateElement // points into the transaction set
	ElemHash types.Hash256       // "leaf/<kind>" hash of the element's content
	Path     string              // field path of the StateElement inside the []V2Transaction
}

func elemHash(dist string, parts ...types.EncoderTo) types.Hash256 {
	h := types.NewHasher()
	h.WriteDistinguisher(dist)
	for _, p := range parts {
		p.EncodeTo(h.E)
	}
	return h.Sum()
}

type u64 uint64

func (u u64) EncodeTo(e *types.Encoder) { e.WriteUint64(uint64(u)) }

// ProofElements lists, in transaction order, every element whose Merkle proof
// is carried by the set: parents of siacoin inputs, siafund inputs, contract
// revisions and resolutions, and the chain-index element of a storage proof.
// Ephemeral elements (LeafIndex == types.UnassignedLeafIndex) are included;
// callers filter them as needed.
func ProofElements(txns []types.V2Transaction) []ProofElement {
	var out []ProofElement
	pfx := func(i int, f string, j int) string {
		return "[" + itoa(i) + "]." + f + "[" + itoa(j) + "]"
	}
	for i := range txns {
		txn := &txns[i]
		for j := range txn.SiacoinInputs {
			e := &txn.SiacoinInputs[j].Parent
			out = append(out, ProofElement{&e.StateElement, elemHash("leaf/siacoin", e.ID, types.V2SiacoinOutput(e.SiacoinOutput), u64(e.MaturityHeight)), pfx(i, "SiacoinInputs", j) + ".Parent.StateElement"})
		}
		for j := range txn.SiafundInputs {
			e := &txn.SiafundInputs[j].Parent
			out = append(out, ProofElement{&e.StateElement, elemHash("leaf/siafund", e.ID, types.V2SiafundOutput(e.SiafundOutput), types.V2Currency(e.ClaimStart)), pfx(i, "SiafundInputs", j) + ".Parent.StateElement"})
		}
		for j := range txn.FileContractRevisions {
			e := &txn.FileContractRevisions[j].Parent
			out = append(out, ProofElement{&e.StateElement, elemHash("leaf/v2filecontract", e.ID, e.V2FileContract), pfx(i, "FileContractRevisions", j) + ".Parent.StateElement"})
		}
		for j := range txn.FileContractResolutions {
			e := &txn.FileContractResolutions[j].Parent
			out = append(out, ProofElement{&e.StateElement, elemHash("leaf/v2filecontract", e.ID, e.V2FileContract), pfx(i, "FileContractResolutions", j) + ".Parent.StateElement"})
			if sp, ok := txn.FileContractResolutions[j].Resolution.(*types.V2StorageProof); ok && sp != nil {
				c := &sp.ProofIndex
				out = append(out, ProofElement{&c.StateElement, elemHash("leaf/chainindex", c.ID, c.ChainIndex), pfx(i, "FileContractResolutions", j) + ".Resolution<V2StorageProof>.ProofIndex.StateElement"})
			}
		}
	}
	return out
}

func itoa(i int) string {
	if i == 0 {
		return "0"
	}
	var b [20]byte
	n := len(b)
	for i > 0 {
		n--
		b[n] = byte('0' + i%10)
		i /= 10
	}
	return string(b[n:])
}

// LeafHash is the accumulator leaf hash of an unspent element.
func LeafHash(elemHash types.Hash256, leafIndex uint64) types.Hash256 {
	buf := make([]byte, 1+32+8+1)
	copy(buf[1:], elemHash[:])
	binary.LittleEndian.PutUint64(buf[33:], leafIndex)
	return types.HashBytes(buf)
}

// MakeProofsConsistent rewrites the LeafIndex and MerkleProof of every
// non-ephemeral element referenced by txns so that all proofs are valid for
// one and the same (lazily materialised, pseudo-random) accumulator — the
// documented precondition of types.V2TransactionsMultiproof. Ephemeral
// elements are left untouched. It returns the accumulator's leaf count.
//
// The forest has a random leaf count N of random bit length; elements get
// distinct leaf indices below N, sometimes clustered (adjacent leaves share
// multiproof nodes), sometimes scattered over different trees of the forest.
// Sub-trees containing none of the elements have pseudo-random roots.
func MakeProofsConsistent(rng *rand.Rand, txns []types.V2Transaction) uint64 {
	k := uint64(0)
	for _, e := range ProofElements(txns) {
		if e.SE.LeafIndex != types.UnassignedLeafIndex {
			k++
		}
	}
	// leaf count: below 2^62 (an accumulator with 2^63 leaves is not a reachable consensus state;
	// AssignProofs can be called directly to go beyond)
	var n uint64
	switch rng.IntN(5) {
	case 0:
		n = k + 1 + uint64(rng.IntN(4)) // dense small forest
	case 1:
		n = uint64(1)<<uint(1+rng.IntN(61)) + uint64(rng.IntN(3)) // near power of two
	default:
		n = rng.Uint64() >> uint(2+rng.IntN(58))
	}
	if n < 2*k+2 && rng.IntN(5) != 0 || n <= k {
		n += 2*k + 2
	}
	AssignProofs(rng, txns, n, nil)
	return n
}

// AssignProofs is MakeProofsConsistent for a given leaf count n (> number of
// non-ephemeral elements) and, optionally, given leaf indices (in
// ProofElements order, ephemeral elements skipped; must be distinct and < n).
func AssignProofs(rng *rand.Rand, txns []types.V2Transaction, n uint64, indices []uint64) {
	all := ProofElements(txns)
	var els []ProofElement
	for _, e := range all {
		if e.SE.LeafIndex != types.UnassignedLeafIndex {
			els = append(els, e)
		}
	}
	// distinct indices
	used := map[uint64]bool{}
	var last uint64
	for i := range els {
		var idx uint64
		if indices != nil {
			els[i].SE.LeafIndex = indices[i]
			continue
		}
		for tries := 0; ; tries++ {
			switch {
			case i > 0 && rng.IntN(3) == 0 && tries < 4:
				idx = last ^ uint64(1)<<uint(rng.IntN(4)) // neighbour
			case rng.IntN(4) == 0 && tries < 4:
				// a leaf of one of the small trees at the end of the forest
				idx = n - 1 - uint64(rng.IntN(8))
			default:
				idx = rng.Uint64N(n)
			}
			if idx < n && !used[idx] {
				break
			}
		}
		used[idx] = true
		last = idx
		els[i].SE.LeafIndex = idx
	}
	// leaf hashes (the element content is final; only the index changed)
	leaves := map[uint64]types.Hash256{}
	for _, e := range els {
		leaves[e.SE.LeafIndex] = LeafHash(e.ElemHash, e.SE.LeafIndex)
	}
	salt := rng.Uint64()
	memo := map[[2]uint64]types.Hash256{}
	// count of chosen leaves per (level, index) to decide emptiness quickly
	occupied := map[[2]uint64]bool{}
	for idx := range leaves {
		for l := uint64(0); l < 64; l++ {
			occupied[[2]uint64{l, idx >> l}] = true
		}
	}
	var node func(level, index uint64) types.Hash256
	node = func(level, index uint64) types.Hash256 {
		key := [2]uint64{level, index}
		if h, ok := memo[key]; ok {
			return h
		}
		var h types.Hash256
		switch {
		case !occupied[key]:
			var b [24]byte
			binary.LittleEndian.PutUint64(b[:], salt)
			binary.LittleEndian.PutUint64(b[8:], level)
			binary.LittleEndian.PutUint64(b[16:], index)
			h = types.HashBytes(b[:])
		case level == 0:
			h = leaves[index]
		default:
			h = blake2b.SumPair(node(level-1, 2*index), node(level-1, 2*index+1))
		}
		memo[key] = h
		return h
	}
	for _, e := range els {
		idx := e.SE.LeafIndex
		height := bits.Len64(idx^n) - 1
		proof := make([]types.Hash256, height)
		for l := 0; l < height; l++ {
			proof[l] = node(uint64(l), (idx>>uint(l))^1)
		}
		e.SE.MerkleProof = proof
	}
}
