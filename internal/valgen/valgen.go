// Package valgen is the shared reflection-based VALUE generator for the wire
// types of go.sia.tech/core. It is used by C11 (binary codec), C18 (multiproof)
// and C20 (text/JSON forms).
//
// API (small on purpose):
//
//	Fill(rng, v, opts)           populate an addressable reflect.Value with a value of a random shape
//	New[T](rng, opts) T          the same for a static type
//	DeepCopy(v) / CopyValue(rv)  reflection deep copy (keeps nil vs empty, copies unexported scalar state)
//	Paths(v) []string            every exported leaf path of a value (see "Paths" below)
//	MutateAt(rng, ptr, path)     change exactly that leaf in place (use on a DeepCopy)
//	Mutated(rng, v, path)        DeepCopy + MutateAt
//	Diff(a, b) string            first difference between two values ("" = equal); nil != empty
//	Canon(ptr)                   representation-only canonicalisation (empty->nil, time -> time.Unix(sec,nsec))
//	Shape(v) string              structural class of a value (for harness.B.Distinct)
//	Register(iface, impls...)    teach Fill the implementations of an interface type
//	MakeProofsConsistent(...)    see multiproof.go
//
// Shapes produced: nil vs empty vs populated slices and byte strings, extreme
// numbers (0,1,2,2^32±1,2^63±1,2^64-1,…), Currency of every byte length
// 0..16, time.Time at second resolution within years 1..9999 (plus the zero
// time, and — when Opts.SubSecond — sub-second parts and non-UTC locations so
// that a codec's normalisation is exercised), every SpendPolicy kind with
// nested thresholds to a bounded depth and legacy unlock conditions, every
// V2FileContractResolutionType. Unexported fields are left zero
// (StateElement.shared stays false); the only exception is consensus.Work,
// whose single unexported field is the whole value.
package valgen

import (
	"errors"
	"fmt"
	"math/rand/v2"
	"reflect"
	"sort"
	"strconv"
	"strings"
	"sync"
	"time"
	"unsafe"

	"go.sia.tech/core/consensus"
	"go.sia.tech/core/types"
)

// Opts bounds the generated values. The zero value / nil means defaults.
type Opts struct {
	MaxLen     int  // maximum generated slice length (default 3)
	MaxDepth   int  // maximum SpendPolicy nesting depth (default 3)
	Budget     int  // soft bound on generated composite nodes (default 300); once spent, slices come out nil/empty, pointers nil, policies leaves
	SubSecond  bool // also generate sub-second time parts and non-UTC locations
	NoZeroTime bool // never generate the zero time.Time

	left int
	init bool
}

func (o *Opts) norm() *Opts {
	if o == nil {
		o = &Opts{}
	}
	if !o.init {
		c := *o
		o = &c
		if o.MaxLen <= 0 {
			o.MaxLen = 3
		}
		if o.MaxDepth <= 0 {
			o.MaxDepth = 3
		}
		if o.Budget <= 0 {
			o.Budget = 300
		}
		o.left = o.Budget
		o.init = true
	}
	return o
}

func (o *Opts) spend(n int) bool {
	if o.left <= 0 {
		return false
	}
	o.left -= n
	return true
}

var (
	timeType     = reflect.TypeOf(time.Time{})
	currencyType = reflect.TypeOf(types.Currency{})
	workType     = reflect.TypeOf(consensus.Work{})
	policyType   = reflect.TypeOf(types.SpendPolicy{})
	stateElType  = reflect.TypeOf(types.StateElement{})
	errorType    = reflect.TypeOf((*error)(nil)).Elem()
	resType      = reflect.TypeOf((*types.V2FileContractResolutionType)(nil)).Elem()
	policyIface  = policyType.Field(0).Type

	implMu sync.RWMutex
	impls  = map[reflect.Type][]reflect.Type{
		resType: {
			reflect.TypeOf(&types.V2FileContractRenewal{}),
			reflect.TypeOf(&types.V2StorageProof{}),
			reflect.TypeOf(&types.V2FileContractExpiration{}),
		},
		policyIface: {
			reflect.TypeOf(types.PolicyTypeAbove(0)),
			reflect.TypeOf(types.PolicyTypeAfter{}),
			reflect.TypeOf(types.PolicyTypePublicKey{}),
			reflect.TypeOf(types.PolicyTypeHash{}),
			reflect.TypeOf(types.PolicyTypeThreshold{}),
			reflect.TypeOf(types.PolicyTypeOpaque{}),
			reflect.TypeOf(types.PolicyTypeUnlockConditions{}),
		},
	}
)

// Register tells Fill which concrete types (value or pointer types) implement
// an interface type that occurs as a field of a wire object.
func Register(iface reflect.Type, concrete ...reflect.Type) {
	implMu.Lock()
	impls[iface] = append(impls[iface], concrete...)
	implMu.Unlock()
}

func implsOf(t reflect.Type) []reflect.Type {
	implMu.RLock()
	defer implMu.RUnlock()
	return impls[t]
}

// IsTimeLike reports whether t is time.Time or a named type with the same underlying struct (PolicyTypeAfter).
func IsTimeLike(t reflect.Type) bool { return isTimeLike(t) }

func isTimeLike(t reflect.Type) bool {
	return t.Kind() == reflect.Struct && (t == timeType || t.ConvertibleTo(timeType) && timeType.ConvertibleTo(t) && t.NumField() == timeType.NumField() && t.Field(0).Name == "wall")
}

func isCurrencyLike(t reflect.Type) bool {
	return t.Kind() == reflect.Struct && t.NumField() == 2 && t.Field(0).Name == "Lo" && t.Field(1).Name == "Hi" && t.ConvertibleTo(currencyType)
}

func isByteArray(t reflect.Type) bool {
	return t.Kind() == reflect.Array && t.Elem().Kind() == reflect.Uint8
}

func isByteSlice(t reflect.Type) bool {
	return t.Kind() == reflect.Slice && t.Elem().Kind() == reflect.Uint8
}

// Extremes64 are the boundary numbers every integer field is drawn from (masked to the field width).
var Extremes64 = []uint64{0, 1, 2, 1<<32 - 1, 1 << 32, 1<<32 + 1, 1<<63 - 1, 1 << 63, 1<<63 + 1, 1<<64 - 1, 1<<64 - 2, 255, 256, 1<<16 - 1, 1 << 16}

// Uint64 draws an integer: half of the time an extreme, otherwise a random value of random bit length.
func Uint64(rng *rand.Rand) uint64 {
	switch rng.IntN(4) {
	case 0, 1:
		return Extremes64[rng.IntN(len(Extremes64))]
	case 2:
		return rng.Uint64() >> rng.IntN(64)
	default:
		return rng.Uint64()
	}
}

// Currency draws a currency whose big-endian byte length is uniform in 0..16 (so that every
// V1Currency length prefix occurs), or one of the extremes.
func Currency(rng *rand.Rand) types.Currency {
	switch rng.IntN(6) {
	case 0:
		ex := []types.Currency{{}, types.NewCurrency64(1), types.NewCurrency(^uint64(0), 0), types.NewCurrency(0, 1), types.NewCurrency(^uint64(0), ^uint64(0)), types.NewCurrency(^uint64(0)-1, ^uint64(0)), types.NewCurrency(0, 1<<63), types.NewCurrency(1<<32, 1<<32)}
		return ex[rng.IntN(len(ex))]
	default:
		n := rng.IntN(17)
		if n == 0 {
			return types.Currency{}
		}
		lo, hi := rng.Uint64(), rng.Uint64()
		if n <= 8 {
			hi = 0
			lo >>= uint(64 - 8*n)
			lo |= 1 << uint(8*n-8) // top byte non-zero
		} else {
			hi >>= uint(64 - 8*(n-8))
			hi |= 1 << uint(8*(n-8)-8)
		}
		return types.NewCurrency(lo, hi)
	}
}

const (
	minUnix = -62135596800 // 0001-01-01T00:00:00Z
	maxUnix = 253402300799 // 9999-12-31T23:59:59Z
)

// Time draws a time at second resolution within years 1..9999 (UTC); the zero
// time unless o.NoZeroTime; with o.SubSecond sometimes a sub-second part and a
// non-UTC location.
func Time(rng *rand.Rand, o *Opts) time.Time {
	o = o.norm()
	var sec int64
	switch rng.IntN(8) {
	case 0:
		if !o.NoZeroTime {
			return time.Time{}
		}
		sec = 0
	case 1:
		ex := []int64{minUnix, maxUnix, 0, 1, -1, 1<<32 - 1, 1 << 32, 1<<32 + 1, 1<<31 - 1, 1 << 31, minUnix + 1, maxUnix - 1, 1231006505}
		sec = ex[rng.IntN(len(ex))]
	default:
		sec = minUnix + rng.Int64N(maxUnix-minUnix+1)
	}
	t := time.Unix(sec, 0).UTC()
	if o.SubSecond && rng.IntN(3) == 0 {
		ns := []int64{1, 999999999, 500000000, rng.Int64N(1000000000)}
		t = time.Unix(sec, ns[rng.IntN(len(ns))]).UTC()
	}
	if o.SubSecond && rng.IntN(4) == 0 {
		t = t.In(time.FixedZone("X", (rng.IntN(27)-13)*3600))
	}
	return t
}

func randBytes(rng *rand.Rand, n int) []byte {
	b := make([]byte, n)
	for i := range b {
		b[i] = byte(rng.Uint32())
	}
	return b
}

func fillByteArray(rng *rand.Rand, v reflect.Value) {
	n := v.Len()
	mode := rng.IntN(10)
	for i := 0; i < n; i++ {
		var x byte
		switch mode {
		case 0:
			x = 0
		case 1:
			x = 0xFF
		default:
			x = byte(rng.Uint32())
		}
		v.Index(i).SetUint(uint64(x))
	}
}

func sliceLen(rng *rand.Rand, o *Opts) int {
	// -1 nil, 0 empty, >0 populated
	if o.left <= 0 {
		if rng.IntN(2) == 0 {
			return -1
		}
		return 0
	}
	switch rng.IntN(6) {
	case 0:
		return -1
	case 1:
		return 0
	default:
		return 1 + rng.IntN(o.MaxLen)
	}
}

func randString(rng *rand.Rand) string {
	switch rng.IntN(6) {
	case 0:
		return ""
	case 1:
		return "a\x00b"
	case 2:
		return "héllo wörld ✓"
	default:
		const cs = "abcdefghijklmnopqrstuvwxyzABCDEFGHIJKLMNOPQRSTUVWXYZ0123456789.:-_ /"
		n := 1 + rng.IntN(40)
		b := make([]byte, n)
		for i := range b {
			b[i] = cs[rng.IntN(len(cs))]
		}
		return string(b)
	}
}

// Policy draws a SpendPolicy of any kind; thresholds nest to at most depth levels.
func Policy(rng *rand.Rand, depth int, o *Opts) types.SpendPolicy {
	o = o.norm()
	k := rng.IntN(7)
	if (depth <= 0 || o.left <= 0) && k == 4 {
		k = rng.IntN(4)
	}
	o.spend(1)
	switch k {
	case 0:
		return types.PolicyAbove(Uint64(rng))
	case 1:
		return types.PolicyAfter(Time(rng, o))
	case 2:
		var pk types.PublicKey
		fillByteArray(rng, reflect.ValueOf(&pk).Elem())
		return types.PolicyPublicKey(pk)
	case 3:
		var h types.Hash256
		fillByteArray(rng, reflect.ValueOf(&h).Elem())
		return types.PolicyHash(h)
	case 4:
		n := sliceLen(rng, o)
		var of []types.SpendPolicy
		if n == 0 {
			of = []types.SpendPolicy{}
		}
		for i := 0; i < n; i++ {
			of = append(of, Policy(rng, depth-1, o))
		}
		var nn uint8
		switch rng.IntN(4) {
		case 0:
			nn = uint8(rng.IntN(256))
		case 1:
			nn = 0
		default:
			nn = uint8(rng.IntN(len(of) + 1))
		}
		return types.PolicyThreshold(nn, of)
	case 5:
		var a types.Address
		fillByteArray(rng, reflect.ValueOf(&a).Elem())
		return types.SpendPolicy{Type: types.PolicyTypeOpaque(a)}
	default:
		var uc types.UnlockConditions
		Fill(rng, reflect.ValueOf(&uc).Elem(), o)
		return types.SpendPolicy{Type: types.PolicyTypeUnlockConditions(uc)}
	}
}

// New returns a generated value of type T.
func New[T any](rng *rand.Rand, o *Opts) T {
	var v T
	Fill(rng, reflect.ValueOf(&v).Elem(), o)
	return v
}

// SetWork stores raw bytes in a consensus.Work (its only field is unexported).
func SetWork(w *consensus.Work, b [32]byte) { *(*[32]byte)(unsafe.Pointer(w)) = b }

// WorkBytes returns the raw bytes of a consensus.Work.
func WorkBytes(w consensus.Work) [32]byte { return *(*[32]byte)(unsafe.Pointer(&w)) }

// Fill populates v (which must be settable) with a generated value.
func Fill(rng *rand.Rand, v reflect.Value, o *Opts) {
	o = o.norm()
	t := v.Type()
	switch {
	case isTimeLike(t):
		v.Set(reflect.ValueOf(Time(rng, o)).Convert(t))
		return
	case isCurrencyLike(t):
		v.Set(reflect.ValueOf(Currency(rng)).Convert(t))
		return
	case t == workType:
		var b [32]byte
		fillByteArray(rng, reflect.ValueOf(&b).Elem())
		SetWork(v.Addr().Interface().(*consensus.Work), b)
		return
	case t == policyType:
		v.Set(reflect.ValueOf(Policy(rng, o.MaxDepth, o)))
		return
	case t == stateElType:
		se := v.Addr().Interface().(*types.StateElement)
		if rng.IntN(8) == 0 {
			se.LeafIndex = types.UnassignedLeafIndex
		} else {
			se.LeafIndex = Uint64(rng)
		}
		Fill(rng, reflect.ValueOf(&se.MerkleProof).Elem(), o)
		return
	}
	switch t.Kind() {
	case reflect.Bool:
		v.SetBool(rng.IntN(2) == 0)
	case reflect.Uint8, reflect.Uint16, reflect.Uint32, reflect.Uint64, reflect.Uint, reflect.Uintptr:
		x := Uint64(rng)
		if bits := t.Bits(); bits < 64 {
			x &= 1<<uint(bits) - 1
		}
		v.SetUint(x)
	case reflect.Int8, reflect.Int16, reflect.Int32, reflect.Int64, reflect.Int:
		x := Uint64(rng)
		sh := uint(64 - t.Bits())
		v.SetInt(int64(x<<sh) >> sh)
	case reflect.String:
		v.SetString(randString(rng))
	case reflect.Array:
		if isByteArray(t) {
			fillByteArray(rng, v)
			return
		}
		for i := 0; i < v.Len(); i++ {
			Fill(rng, v.Index(i), o)
		}
	case reflect.Slice:
		n := sliceLen(rng, o)
		if isByteSlice(t) {
			switch {
			case n < 0:
				v.Set(reflect.Zero(t))
			case n == 0:
				v.Set(reflect.MakeSlice(t, 0, 0))
			default:
				ln := 1 + rng.IntN(40)
				if rng.IntN(12) == 0 {
					ln = 60 + rng.IntN(300) // crosses the Decoder's 64-byte and approaches the Encoder's 1024-byte buffer
				}
				v.Set(reflect.ValueOf(randBytes(rng, ln)).Convert(t))
			}
			return
		}
		switch {
		case n < 0:
			v.Set(reflect.Zero(t))
		case n == 0:
			v.Set(reflect.MakeSlice(t, 0, 0))
		default:
			o.spend(n)
			s := reflect.MakeSlice(t, n, n)
			for i := 0; i < n; i++ {
				Fill(rng, s.Index(i), o)
			}
			v.Set(s)
		}
	case reflect.Ptr:
		if !o.spend(1) || rng.IntN(3) == 0 {
			v.Set(reflect.Zero(t))
			return
		}
		p := reflect.New(t.Elem())
		Fill(rng, p.Elem(), o)
		v.Set(p)
	case reflect.Struct:
		for i := 0; i < t.NumField(); i++ {
			if t.Field(i).IsExported() {
				Fill(rng, v.Field(i), o)
			}
		}
	case reflect.Interface:
		if t == errorType {
			if rng.IntN(2) == 0 {
				v.Set(reflect.Zero(t))
			} else {
				s := randString(rng)
				if s == "" {
					s = "e"
				}
				v.Set(reflect.ValueOf(errors.New(s)))
			}
			return
		}
		cs := implsOf(t)
		if len(cs) == 0 {
			panic(fmt.Sprintf("valgen: no implementations registered for interface %v", t))
		}
		v.Set(newImpl(rng, cs[rng.IntN(len(cs))], o))
	default:
		panic(fmt.Sprintf("valgen: unsupported kind %v (%v)", t.Kind(), t))
	}
}

func newImpl(rng *rand.Rand, c reflect.Type, o *Opts) reflect.Value {
	o.spend(1)
	if c.Kind() == reflect.Ptr {
		p := reflect.New(c.Elem())
		Fill(rng, p.Elem(), o)
		return p
	}
	p := reflect.New(c)
	Fill(rng, p.Elem(), o)
	return p.Elem()
}

// ---------------------------------------------------------------------------
// deep copy

// DeepCopy returns a deep copy of v (a value or a pointer). nil and empty
// slices stay what they are; unexported scalar fields are copied.
func DeepCopy[T any](v T) T {
	rv := reflect.ValueOf(&v).Elem()
	return CopyValue(rv).Interface().(T)
}

// CopyAny deep-copies a value held in an interface (typically a pointer to a wire object).
func CopyAny(v any) any {
	if v == nil {
		return nil
	}
	return CopyValue(reflect.ValueOf(v)).Interface()
}

// CopyValue is DeepCopy on a reflect.Value.
func CopyValue(v reflect.Value) reflect.Value {
	t := v.Type()
	switch t.Kind() {
	case reflect.Ptr:
		if v.IsNil() {
			return reflect.Zero(t)
		}
		p := reflect.New(t.Elem())
		p.Elem().Set(CopyValue(v.Elem()))
		return p
	case reflect.Slice:
		if v.IsNil() {
			return reflect.Zero(t)
		}
		s := reflect.MakeSlice(t, v.Len(), v.Len())
		if isByteSlice(t) {
			reflect.Copy(s, v)
			return s
		}
		for i := 0; i < v.Len(); i++ {
			s.Index(i).Set(CopyValue(v.Index(i)))
		}
		return s
	case reflect.Array:
		a := reflect.New(t).Elem()
		a.Set(v)
		if !isByteArray(t) {
			for i := 0; i < v.Len(); i++ {
				a.Index(i).Set(CopyValue(v.Index(i)))
			}
		}
		return a
	case reflect.Struct:
		n := reflect.New(t).Elem()
		n.Set(v) // shallow, brings unexported scalars along
		if isTimeLike(t) || t == workType {
			return n
		}
		for i := 0; i < t.NumField(); i++ {
			if t.Field(i).IsExported() {
				n.Field(i).Set(CopyValue(v.Field(i)))
			}
		}
		return n
	case reflect.Interface:
		if v.IsNil() {
			return reflect.Zero(t)
		}
		n := reflect.New(t).Elem()
		if t == errorType {
			n.Set(v)
			return n
		}
		n.Set(CopyValue(v.Elem()))
		return n
	default:
		return v
	}
}

// ---------------------------------------------------------------------------
// paths

// Paths enumerates every exported leaf of v (a value or pointer to one) as a
// path string, e.g. `V2.Transactions[1].SiafundInputs[0].ClaimAddress`.
//
// Path grammar: `.Field`, `[i]`, `<ConcreteType>` (the dynamic type held by an
// interface), and the pseudo-leaves `#len` (length of a non-byte slice),
// `#nil` (nil-ness of a pointer), `#kind` (dynamic type of an interface),
// `#nsec` / `#loc` (sub-second part / location of a time). Leaves are: bools,
// integers, strings, byte arrays and byte slices (one leaf each), times
// (seconds), consensus.Work.
func Paths(v any) []string {
	var out []string
	rv := reflect.ValueOf(v)
	for rv.Kind() == reflect.Ptr {
		if rv.IsNil() {
			return nil
		}
		rv = rv.Elem()
	}
	walkPaths(rv, "", &out)
	return out
}

func join(p, f string) string {
	if p == "" {
		return f
	}
	return p + "." + f
}

func walkPaths(v reflect.Value, p string, out *[]string) {
	t := v.Type()
	switch {
	case isTimeLike(t):
		*out = append(*out, p, p+"#nsec", p+"#loc")
		return
	case t == workType:
		*out = append(*out, p)
		return
	}
	switch t.Kind() {
	case reflect.Bool, reflect.Uint8, reflect.Uint16, reflect.Uint32, reflect.Uint64, reflect.Uint, reflect.Int8, reflect.Int16, reflect.Int32, reflect.Int64, reflect.Int, reflect.String:
		*out = append(*out, p)
	case reflect.Array:
		if isByteArray(t) {
			*out = append(*out, p)
			return
		}
		for i := 0; i < v.Len(); i++ {
			walkPaths(v.Index(i), p+"["+strconv.Itoa(i)+"]", out)
		}
	case reflect.Slice:
		if isByteSlice(t) {
			*out = append(*out, p)
			return
		}
		*out = append(*out, p+"#len")
		for i := 0; i < v.Len(); i++ {
			walkPaths(v.Index(i), p+"["+strconv.Itoa(i)+"]", out)
		}
	case reflect.Ptr:
		*out = append(*out, p+"#nil")
		if !v.IsNil() {
			walkPaths(v.Elem(), p, out)
		}
	case reflect.Struct:
		for i := 0; i < t.NumField(); i++ {
			if t.Field(i).IsExported() {
				walkPaths(v.Field(i), join(p, t.Field(i).Name), out)
			}
		}
	case reflect.Interface:
		*out = append(*out, p+"#kind")
		if v.IsNil() || t == errorType {
			return
		}
		e := v.Elem()
		name := shortTypeName(e.Type())
		np := p + "<" + name + ">"
		for e.Kind() == reflect.Ptr {
			if e.IsNil() {
				return
			}
			e = e.Elem()
		}
		walkPaths(e, np, out)
	}
}

func shortTypeName(t reflect.Type) string {
	n := t.String()
	if i := strings.LastIndexByte(n, '.'); i >= 0 {
		n = n[i+1:]
	}
	return strings.TrimPrefix(n, "*")
}

// StripIndices removes every `[i]` from a path (finding keys must not depend on positions).
func StripIndices(p string) string {
	var b strings.Builder
	skip := false
	for _, c := range p {
		switch {
		case c == '[':
			skip = true
		case c == ']':
			skip = false
		case !skip:
			b.WriteRune(c)
		}
	}
	return strings.TrimPrefix(b.String(), ".")
}

type seg struct {
	kind byte // 'f' field, 'i' index, 't' concrete type, '#' pseudo
	name string
	idx  int
}

func parsePath(p string) []seg {
	var segs []seg
	i := 0
	for i < len(p) {
		switch p[i] {
		case '.':
			i++
		case '[':
			j := strings.IndexByte(p[i:], ']') + i
			n, _ := strconv.Atoi(p[i+1 : j])
			segs = append(segs, seg{kind: 'i', idx: n})
			i = j + 1
		case '<':
			j := strings.IndexByte(p[i:], '>') + i
			segs = append(segs, seg{kind: 't', name: p[i+1 : j]})
			i = j + 1
		case '#':
			segs = append(segs, seg{kind: '#', name: p[i+1:]})
			i = len(p)
		default:
			j := i
			for j < len(p) && p[j] != '.' && p[j] != '[' && p[j] != '<' && p[j] != '#' {
				j++
			}
			segs = append(segs, seg{kind: 'f', name: p[i:j]})
			i = j
		}
	}
	return segs
}

// MutateAt changes exactly the leaf at path inside *ptr (in place) to a
// different value: a flipped bit / ±1 / a different length / the other
// nil-ness / another dynamic type. It reports whether a change was made
// (false: the path does not exist in this value).
func MutateAt(rng *rand.Rand, ptr any, path string) (changed bool) {
	rv := reflect.ValueOf(ptr)
	if rv.Kind() != reflect.Ptr || rv.IsNil() {
		return false
	}
	return mutate(rng, rv.Elem(), parsePath(path))
}

// Mutated returns a deep copy of v (a pointer to a wire object) with the leaf at path changed.
func Mutated(rng *rand.Rand, v any, path string) (any, bool) {
	c := CopyAny(v)
	ok := MutateAt(rng, c, path)
	return c, ok
}

func mutate(rng *rand.Rand, v reflect.Value, segs []seg) bool {
	t := v.Type()
	if len(segs) == 0 {
		for v.Kind() == reflect.Ptr {
			if v.IsNil() {
				return false
			}
			v = v.Elem()
		}
		return mutateLeaf(rng, v)
	}
	s := segs[0]
	switch s.kind {
	case 'f':
		for v.Kind() == reflect.Ptr {
			if v.IsNil() {
				return false
			}
			v = v.Elem()
		}
		if v.Kind() != reflect.Struct {
			return false
		}
		f := v.FieldByName(s.name)
		if !f.IsValid() || !f.CanSet() {
			return false
		}
		return mutate(rng, f, segs[1:])
	case 'i':
		for v.Kind() == reflect.Ptr {
			if v.IsNil() {
				return false
			}
			v = v.Elem()
		}
		if (v.Kind() != reflect.Slice && v.Kind() != reflect.Array) || s.idx >= v.Len() {
			return false
		}
		return mutate(rng, v.Index(s.idx), segs[1:])
	case 't':
		if v.Kind() != reflect.Interface || v.IsNil() {
			return false
		}
		e := v.Elem()
		if e.Kind() == reflect.Ptr {
			if e.IsNil() {
				return false
			}
			return mutate(rng, e.Elem(), segs[1:])
		}
		c := reflect.New(e.Type()).Elem()
		c.Set(e)
		if !mutate(rng, c, segs[1:]) {
			return false
		}
		v.Set(c)
		return true
	case '#':
		switch s.name {
		case "len":
			if t.Kind() != reflect.Slice {
				return false
			}
			n := v.Len()
			if n > 0 && rng.IntN(2) == 0 {
				v.Set(v.Slice(0, n-1))
				return true
			}
			el := reflect.New(t.Elem()).Elem()
			Fill(rng, el, &Opts{Budget: 4, MaxLen: 1, MaxDepth: 1, NoZeroTime: true})
			ns := reflect.MakeSlice(t, n, n+1)
			reflect.Copy(ns, v)
			v.Set(reflect.Append(ns, el))
			return true
		case "nil":
			if t.Kind() != reflect.Ptr {
				return false
			}
			if v.IsNil() {
				p := reflect.New(t.Elem())
				Fill(rng, p.Elem(), &Opts{Budget: 4, MaxLen: 1, MaxDepth: 1})
				v.Set(p)
			} else {
				v.Set(reflect.Zero(t))
			}
			return true
		case "kind":
			if t.Kind() != reflect.Interface {
				return false
			}
			if t == errorType {
				if v.IsNil() {
					v.Set(reflect.ValueOf(errors.New("x")))
				} else {
					v.Set(reflect.Zero(t))
				}
				return true
			}
			cs := implsOf(t)
			var cands []reflect.Type
			for _, c := range cs {
				if v.IsNil() || c != v.Elem().Type() {
					cands = append(cands, c)
				}
			}
			if len(cands) == 0 {
				return false
			}
			v.Set(newImpl(rng, cands[rng.IntN(len(cands))], (&Opts{Budget: 4, MaxLen: 1, MaxDepth: 1}).norm()))
			return true
		case "nsec", "loc":
			if !isTimeLike(t) {
				return false
			}
			tm := v.Convert(timeType).Interface().(time.Time)
			if s.name == "nsec" {
				if tm.Nanosecond() == 999999999 {
					tm = tm.Add(-1)
				} else {
					tm = tm.Add(1)
				}
			} else {
				_, off := tm.Zone()
				tm = tm.In(time.FixedZone("M", off+3600))
			}
			v.Set(reflect.ValueOf(tm).Convert(t))
			return true
		}
	}
	return false
}

func flipBit(rng *rand.Rand, b []byte) {
	i := rng.IntN(len(b))
	b[i] ^= 1 << uint(rng.IntN(8))
}

func mutateLeaf(rng *rand.Rand, v reflect.Value) bool {
	t := v.Type()
	switch {
	case isTimeLike(t):
		tm := v.Convert(timeType).Interface().(time.Time)
		if tm.Unix() >= maxUnix {
			tm = tm.Add(-time.Second)
		} else {
			tm = tm.Add(time.Second)
		}
		v.Set(reflect.ValueOf(tm).Convert(t))
		return true
	case t == workType:
		w := v.Addr().Interface().(*consensus.Work)
		b := WorkBytes(*w)
		flipBit(rng, b[:])
		SetWork(w, b)
		return true
	}
	switch t.Kind() {
	case reflect.Bool:
		v.SetBool(!v.Bool())
	case reflect.Uint8, reflect.Uint16, reflect.Uint32, reflect.Uint64, reflect.Uint:
		x := v.Uint()
		if rng.IntN(2) == 0 {
			x++
		} else {
			x ^= 1 << uint(rng.IntN(t.Bits()))
		}
		if bits := t.Bits(); bits < 64 {
			x &= 1<<uint(bits) - 1
		}
		if x == v.Uint() {
			x ^= 1
		}
		v.SetUint(x)
	case reflect.Int8, reflect.Int16, reflect.Int32, reflect.Int64, reflect.Int:
		x := uint64(v.Int()) ^ 1<<uint(rng.IntN(t.Bits()))
		sh := uint(64 - t.Bits())
		v.SetInt(int64(x<<sh) >> sh)
	case reflect.String:
		b := []byte(v.String())
		v.SetString(string(mutateBytes(rng, b)))
	case reflect.Array:
		if !isByteArray(t) || v.Len() == 0 {
			return false
		}
		b := make([]byte, v.Len())
		reflect.Copy(reflect.ValueOf(b), v)
		flipBit(rng, b)
		reflect.Copy(v, reflect.ValueOf(b))
	case reflect.Slice:
		if !isByteSlice(t) {
			return false
		}
		b := append([]byte(nil), v.Bytes()...)
		v.Set(reflect.ValueOf(mutateBytes(rng, b)).Convert(t))
	default:
		return false
	}
	return true
}

func mutateBytes(rng *rand.Rand, b []byte) []byte {
	if len(b) == 0 {
		return []byte{byte(1 + rng.IntN(255))}
	}
	switch rng.IntN(3) {
	case 0:
		return append(b, byte(rng.Uint32()))
	case 1:
		if len(b) > 1 {
			return b[:len(b)-1]
		}
		fallthrough
	default:
		flipBit(rng, b)
		return b
	}
}

// ---------------------------------------------------------------------------
// canonical representation, diff, shape

// Canon rewrites *ptr in place to the canonical *representation* of the same
// value: empty slices become nil and every time becomes
// time.Unix(sec, nsec) (same instant, Local location). Nothing lossy.
func Canon(ptr any) {
	rv := reflect.ValueOf(ptr)
	if rv.Kind() == reflect.Ptr && !rv.IsNil() {
		canon(rv.Elem())
	}
}

func canon(v reflect.Value) {
	t := v.Type()
	if isTimeLike(t) {
		tm := v.Convert(timeType).Interface().(time.Time)
		v.Set(reflect.ValueOf(time.Unix(tm.Unix(), int64(tm.Nanosecond()))).Convert(t))
		return
	}
	if t == workType {
		return
	}
	switch t.Kind() {
	case reflect.Slice:
		if v.Len() == 0 {
			if !v.IsNil() {
				v.Set(reflect.Zero(t))
			}
			return
		}
		if isByteSlice(t) {
			return
		}
		for i := 0; i < v.Len(); i++ {
			canon(v.Index(i))
		}
	case reflect.Array:
		if isByteArray(t) {
			return
		}
		for i := 0; i < v.Len(); i++ {
			canon(v.Index(i))
		}
	case reflect.Ptr:
		if !v.IsNil() {
			canon(v.Elem())
		}
	case reflect.Struct:
		for i := 0; i < t.NumField(); i++ {
			if t.Field(i).IsExported() {
				canon(v.Field(i))
			}
		}
	case reflect.Interface:
		if v.IsNil() || t == errorType {
			return
		}
		e := v.Elem()
		if e.Kind() == reflect.Ptr {
			if !e.IsNil() {
				canon(e.Elem())
			}
			return
		}
		c := reflect.New(e.Type()).Elem()
		c.Set(e)
		canon(c)
		v.Set(c)
	}
}

// Diff returns "" if a and b (values or pointers of the same type) are equal
// in every exported field, otherwise the path of the first difference and the
// two values. nil and empty slices differ (apply Canon first if they should not).
func Diff(a, b any) string {
	return diff(reflect.ValueOf(a), reflect.ValueOf(b), "")
}

func short(v reflect.Value) string {
	s := fmt.Sprintf("%v", v.Interface())
	if len(s) > 120 {
		s = s[:120] + "…"
	}
	return s
}

func diff(a, b reflect.Value, p string) string {
	if a.IsValid() != b.IsValid() {
		return p + ": one side invalid"
	}
	if !a.IsValid() {
		return ""
	}
	if a.Type() != b.Type() {
		return fmt.Sprintf("%s: type %v != %v", p, a.Type(), b.Type())
	}
	t := a.Type()
	if isTimeLike(t) {
		x, y := a.Convert(timeType).Interface().(time.Time), b.Convert(timeType).Interface().(time.Time)
		if !x.Equal(y) {
			return fmt.Sprintf("%s: time %v != %v", p, x.UTC(), y.UTC())
		}
		return ""
	}
	if t == workType {
		if WorkBytes(a.Interface().(consensus.Work)) != WorkBytes(b.Interface().(consensus.Work)) {
			return fmt.Sprintf("%s: work differs", p)
		}
		return ""
	}
	switch t.Kind() {
	case reflect.Ptr:
		if a.IsNil() != b.IsNil() {
			return fmt.Sprintf("%s: nil=%v vs nil=%v", p, a.IsNil(), b.IsNil())
		}
		if a.IsNil() {
			return ""
		}
		return diff(a.Elem(), b.Elem(), p)
	case reflect.Interface:
		if a.IsNil() != b.IsNil() {
			return fmt.Sprintf("%s: nil=%v vs nil=%v", p, a.IsNil(), b.IsNil())
		}
		if a.IsNil() {
			return ""
		}
		if t == errorType {
			if x, y := a.Interface().(error).Error(), b.Interface().(error).Error(); x != y {
				return fmt.Sprintf("%s: error %q != %q", p, x, y)
			}
			return ""
		}
		return diff(a.Elem(), b.Elem(), p+"<"+a.Elem().Type().String()+">")
	case reflect.Slice:
		if a.IsNil() != b.IsNil() {
			return fmt.Sprintf("%s: nil=%v(len %d) vs nil=%v(len %d)", p, a.IsNil(), a.Len(), b.IsNil(), b.Len())
		}
		if a.Len() != b.Len() {
			return fmt.Sprintf("%s: len %d != %d", p, a.Len(), b.Len())
		}
		if isByteSlice(t) {
			if string(a.Bytes()) != string(b.Bytes()) {
				return fmt.Sprintf("%s: bytes %x != %x", p, a.Bytes(), b.Bytes())
			}
			return ""
		}
		for i := 0; i < a.Len(); i++ {
			if d := diff(a.Index(i), b.Index(i), p+"["+strconv.Itoa(i)+"]"); d != "" {
				return d
			}
		}
		return ""
	case reflect.Array:
		for i := 0; i < a.Len(); i++ {
			if d := diff(a.Index(i), b.Index(i), p+"["+strconv.Itoa(i)+"]"); d != "" {
				if isByteArray(t) {
					return fmt.Sprintf("%s: %s != %s", p, short(a), short(b))
				}
				return d
			}
		}
		return ""
	case reflect.Struct:
		for i := 0; i < t.NumField(); i++ {
			if !t.Field(i).IsExported() {
				continue
			}
			if d := diff(a.Field(i), b.Field(i), join(p, t.Field(i).Name)); d != "" {
				return d
			}
		}
		return ""
	case reflect.Bool:
		if a.Bool() != b.Bool() {
			return fmt.Sprintf("%s: %v != %v", p, a.Bool(), b.Bool())
		}
	case reflect.Uint8, reflect.Uint16, reflect.Uint32, reflect.Uint64, reflect.Uint:
		if a.Uint() != b.Uint() {
			return fmt.Sprintf("%s: %d != %d", p, a.Uint(), b.Uint())
		}
	case reflect.Int8, reflect.Int16, reflect.Int32, reflect.Int64, reflect.Int:
		if a.Int() != b.Int() {
			return fmt.Sprintf("%s: %d != %d", p, a.Int(), b.Int())
		}
	case reflect.String:
		if a.String() != b.String() {
			return fmt.Sprintf("%s: %q != %q", p, a.String(), b.String())
		}
	default:
		panic(fmt.Sprintf("valgen.Diff: unsupported kind %v", t.Kind()))
	}
	return ""
}

// Shape returns the structural class of v: for every slice / pointer /
// interface position (indices stripped) the set of classes that occur
// (nil, empty, one, many; nil/set; dynamic type), plus number classes of
// integer leaves are deliberately NOT included (they are random values, not structure).
func Shape(v any) string {
	set := map[string]struct{}{}
	rv := reflect.ValueOf(v)
	for rv.Kind() == reflect.Ptr && !rv.IsNil() {
		rv = rv.Elem()
	}
	shape(rv, "", set, 0)
	keys := make([]string, 0, len(set))
	for k := range set {
		keys = append(keys, k)
	}
	sort.Strings(keys)
	return strings.Join(keys, ";")
}

func shape(v reflect.Value, p string, set map[string]struct{}, depth int) {
	t := v.Type()
	if isTimeLike(t) {
		tm := v.Convert(timeType).Interface().(time.Time)
		switch {
		case tm.IsZero():
			set[p+"=t0"] = struct{}{}
		case tm.Nanosecond() != 0:
			set[p+"=tns"] = struct{}{}
		}
		return
	}
	if isCurrencyLike(t) {
		c := v.Convert(currencyType).Interface().(types.Currency)
		switch {
		case c.IsZero():
			set[p+"=c0"] = struct{}{}
		case c.Hi == 0:
			set[p+"=c64"] = struct{}{}
		default:
			set[p+"=c128"] = struct{}{}
		}
		return
	}
	switch t.Kind() {
	case reflect.Slice:
		cls := "many"
		switch {
		case v.IsNil():
			cls = "nil"
		case v.Len() == 0:
			cls = "empty"
		case v.Len() == 1:
			cls = "one"
		}
		set[p+"="+cls] = struct{}{}
		if isByteSlice(t) {
			return
		}
		for i := 0; i < v.Len(); i++ {
			shape(v.Index(i), p, set, depth+1)
		}
	case reflect.Array:
		if isByteArray(t) {
			return
		}
		for i := 0; i < v.Len(); i++ {
			shape(v.Index(i), p, set, depth+1)
		}
	case reflect.Ptr:
		if v.IsNil() {
			set[p+"=nil"] = struct{}{}
			return
		}
		set[p+"=set"] = struct{}{}
		shape(v.Elem(), p, set, depth+1)
	case reflect.Struct:
		for i := 0; i < t.NumField(); i++ {
			if t.Field(i).IsExported() {
				shape(v.Field(i), p+"."+t.Field(i).Name, set, depth+1)
			}
		}
	case reflect.Interface:
		if v.IsNil() {
			set[p+"=nil"] = struct{}{}
			return
		}
		if t == errorType {
			set[p+"=err"] = struct{}{}
			return
		}
		e := v.Elem()
		n := shortTypeName(e.Type())
		if depth > 60 {
			return
		}
		np := p + "<" + n + ">"
		set[np] = struct{}{}
		for e.Kind() == reflect.Ptr && !e.IsNil() {
			e = e.Elem()
		}
		if e.Kind() != reflect.Ptr {
			shape(e, np, set, depth+1)
		}
	}
}
