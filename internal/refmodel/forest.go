package refmodel

import (
	"encoding/binary"
	"math/bits"
)

// Forest is the naive model of the element accumulator: the plain array of all
// leaf hashes ever added. Roots, inner nodes and proofs are recomputed from the
// array by the definition (perfect binary trees over the binary decomposition
// of the leaf count); nothing is maintained incrementally except a memo that is
// dropped on every change.
type Forest struct {
	Leaves []Hash
	memo   map[[2]uint64]Hash
}

// ElementLeafHash is the accumulator leaf: H(0x00 || elementHash || LE64(index) || spent).
func ElementLeafHash(elemHash Hash, index uint64, spent bool) Hash {
	buf := make([]byte, 1+32+8+1)
	copy(buf[1:], elemHash[:])
	binary.LittleEndian.PutUint64(buf[33:], index)
	if spent {
		buf[41] = 1
	}
	return sum(buf)
}

func (f *Forest) dirty() { f.memo = nil }

// Append adds a leaf at the next index.
func (f *Forest) Append(h Hash) { f.Leaves = append(f.Leaves, h); f.dirty() }

// Set overwrites leaf i.
func (f *Forest) Set(i uint64, h Hash) { f.Leaves[i] = h; f.dirty() }

// Truncate drops leaves from n on.
func (f *Forest) Truncate(n uint64) { f.Leaves = f.Leaves[:n]; f.dirty() }

// N is the number of leaves.
func (f *Forest) N() uint64 { return uint64(len(f.Leaves)) }

// Node returns the hash of the node at (row, col): the root of the perfect
// subtree over leaves [col<<row, (col+1)<<row). ok=false if that range is not
// completely filled.
func (f *Forest) Node(row, col uint64) (Hash, bool) {
	if row >= 63 {
		return Hash{}, false
	}
	start, end := col<<row, (col+1)<<row
	if end > f.N() || end <= start {
		return Hash{}, false
	}
	if row == 0 {
		return f.Leaves[start], true
	}
	k := [2]uint64{row, col}
	if h, ok := f.memo[k]; ok {
		return h, true
	}
	l, _ := f.Node(row-1, 2*col)
	r, _ := f.Node(row-1, 2*col+1)
	h := NodeHash(l, r)
	if f.memo == nil {
		f.memo = map[[2]uint64]Hash{}
	}
	f.memo[k] = h
	return h, true
}

// Roots returns the tree roots indexed by height (only heights whose bit is set
// in N are meaningful).
func (f *Forest) Roots() (trees [64]Hash) {
	n := f.N()
	for k := 0; k < 64; k++ {
		if n&(1<<k) != 0 {
			start := n &^ (1<<(k+1) - 1)
			trees[k], _ = f.Node(uint64(k), start>>k)
		}
	}
	return
}

// TreeHeight is the height of the tree that contains leaf i.
func (f *Forest) TreeHeight(i uint64) int { return bits.Len64(f.N()^i) - 1 }

// Proof is the sibling path of leaf i inside its tree, bottom-up.
func (f *Forest) Proof(i uint64) []Hash {
	k := f.TreeHeight(i)
	out := make([]Hash, 0, k)
	for row := 0; row < k; row++ {
		sib := (i >> row) ^ 1
		h, _ := f.Node(uint64(row), sib)
		out = append(out, h)
	}
	return out
}

// RootFromProof folds a leaf and a bottom-up sibling path.
func RootFromProof(leaf Hash, index uint64, proof []Hash) Hash {
	h := leaf
	for i, s := range proof {
		if index&(1<<i) == 0 {
			h = NodeHash(h, s)
		} else {
			h = NodeHash(s, h)
		}
	}
	return h
}

// Clone copies the forest.
func (f *Forest) Clone() *Forest {
	return &Forest{Leaves: append([]Hash(nil), f.Leaves...)}
}
