// Package refmodel holds the independent reference models used as oracles.
// Everything here is written from the protocol definition with plain library
// primitives (x/crypto blake2b, math/big) and shares no code with core.
package refmodel

import (
	"golang.org/x/crypto/blake2b"
)

type Hash = [32]byte

// LeafHash = H(0x00 || data) (RFC 6962 leaf), data used as given.
func LeafHash(data []byte) Hash {
	buf := make([]byte, 1+len(data))
	copy(buf[1:], data)
	return blake2b.Sum256(buf)
}

// NodeHash = H(0x01 || l || r).
func NodeHash(l, r Hash) Hash {
	buf := make([]byte, 65)
	buf[0] = 1
	copy(buf[1:], l[:])
	copy(buf[33:], r[:])
	return blake2b.Sum256(buf)
}

// split returns the largest power of two strictly less than n (n >= 2).
func split(n int) int {
	k := 1
	for k*2 < n {
		k *= 2
	}
	return k
}

// Root is the RFC 6962 Merkle tree hash over the given leaf hashes; the root
// of zero leaves is the zero hash (core's convention).
func Root(leaves []Hash) Hash {
	switch len(leaves) {
	case 0:
		return Hash{}
	case 1:
		return leaves[0]
	}
	k := split(len(leaves))
	return NodeHash(Root(leaves[:k]), Root(leaves[k:]))
}

// Proof is the RFC 6962 audit path (bottom-up) for leaf i.
func Proof(leaves []Hash, i int) []Hash {
	if len(leaves) <= 1 {
		return nil
	}
	k := split(len(leaves))
	if i < k {
		return append(Proof(leaves[:k], i), Root(leaves[k:]))
	}
	return append(Proof(leaves[k:], i-k), Root(leaves[:k]))
}

// VerifyProof recomputes the root from an RFC 6962 audit path, by recursion on
// the tree shape (n leaves, index i); ok=false if the path has the wrong length.
func VerifyProof(leaf Hash, i, n int, path []Hash) (Hash, bool) {
	if n <= 1 {
		return leaf, len(path) == 0 && n == 1
	}
	if len(path) == 0 {
		return Hash{}, false
	}
	k := split(n)
	top := path[len(path)-1]
	if i < k {
		sub, ok := VerifyProof(leaf, i, k, path[:len(path)-1])
		return NodeHash(sub, top), ok
	}
	sub, ok := VerifyProof(leaf, i-k, n-k, path[:len(path)-1])
	return NodeHash(top, sub), ok
}

// FileLeaves splits file data into 64-byte segments, zero-padding the last,
// and returns their leaf hashes (the storage-proof tree of a contract).
func FileLeaves(data []byte) []Hash {
	var out []Hash
	for off := 0; off < len(data); off += 64 {
		var seg [64]byte
		copy(seg[:], data[off:])
		out = append(out, LeafHash(seg[:]))
	}
	return out
}

// FileSegment returns the zero-padded 64-byte segment i of data.
func FileSegment(data []byte, i int) (seg [64]byte) {
	if i*64 < len(data) {
		copy(seg[:], data[i*64:])
	}
	return
}

// FileRoot is the Merkle root a contract over data commits to.
func FileRoot(data []byte) Hash { return Root(FileLeaves(data)) }

func sum(b []byte) Hash { return blake2b.Sum256(b) }
