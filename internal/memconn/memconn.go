// Package memconn provides an in-memory duplex net.Conn pair that behaves like
// a TCP connection as far as the code under test can tell (buffered, flow
// controlled, TCP-like addresses with a port, deadlines, Close semantics) and
// lets a test inject what a real network does to a byte stream:
//
//   - random fragmentation of writes and reads down to 1 byte, driven by a
//     seeded PRNG (so a run is reproducible from its seed);
//   - optional short stalls between fragments;
//   - a man-in-the-middle hook that sees every fragment together with its
//     absolute offset in the direction's byte stream and may flip bytes or
//     truncate the stream there.
//
// Nothing in here is an oracle; wall-clock is only used for deadlines and
// stalls.
package memconn

import (
	"errors"
	"io"
	"math/rand/v2"
	"net"
	"os"
	"sync"
	"sync/atomic"
	"time"
)

// Directions. Dir AtoB is the stream written by the first Conn returned by
// Pipe and read by the second.
const (
	AtoB = 0
	BtoA = 1
)

// Hook is the man-in-the-middle. It is called once per transmitted fragment
// with the direction, the absolute stream offset of p[0] in that direction and
// the fragment (which it may modify in place). It returns the bytes to deliver
// instead of p. Returning fewer than len(p) bytes truncates the stream at that
// point: the returned prefix is delivered and every later byte written in that
// direction is silently dropped (the writer still sees success, the reader
// sees neither data nor EOF until one side closes) — a lost tail.
type Hook func(dir int, frameOffset int64, p []byte) []byte

// Options configure a Pipe.
type Options struct {
	Seed1, Seed2 uint64 // PRNG seed for fragmentation and stalls
	// MaxChunk bounds the size of a transmitted fragment and of the data
	// returned by one Read. 0 means no artificial fragmentation. With
	// MaxChunk=n fragment sizes are drawn from [1,n], biased so that 1-byte
	// fragments are frequent.
	MaxChunk int
	// StallEvery>0 inserts a stall of Stall before a fragment with probability
	// 1/StallEvery (both in Write and Read).
	StallEvery int
	Stall      time.Duration
	// BufSize is the per-direction buffer capacity (default 256 KiB); a Write
	// blocks while the buffer is full, like a TCP send window.
	BufSize int
	Hook    Hook
}

func mkErr(c *Conn, op string, err error) error {
	return &net.OpError{Op: op, Net: "tcp", Source: c.local, Addr: c.remote, Err: err}
}

var errBrokenPipe = errors.New("write: broken pipe")

// half is one direction of the pipe.
type half struct {
	mu        sync.Mutex
	cond      *sync.Cond
	buf       []byte
	cap       int
	wclosed   bool  // writer side closed: reader gets EOF after draining
	rclosed   bool  // reader side closed: writer gets broken pipe
	truncated bool  // MITM dropped the tail
	off       int64 // absolute offset of the next byte to transmit (pre-MITM)
	delivered int64
	dir       int

	wmu sync.Mutex // serialises whole Write calls
	rng *rand.Rand
	rmu sync.Mutex // guards rng
}

func (h *half) wake() { h.cond.Broadcast() }

// Conn is one end of a Pipe. It implements net.Conn.
type Conn struct {
	rd, wr        *half
	local, remote net.Addr
	opt           *Options

	dmu       sync.Mutex
	rdl, wdl  time.Time
	rtm, wtm  *time.Timer
	closed    atomic.Bool
	closeOnce sync.Once
}

var portCounter atomic.Uint32

// Pipe returns the two ends of a new connection.
func Pipe(opt Options) (*Conn, *Conn) {
	if opt.BufSize <= 0 {
		opt.BufSize = 256 << 10
	}
	mk := func(dir int) *half {
		h := &half{cap: opt.BufSize, dir: dir, rng: rand.New(rand.NewPCG(opt.Seed1^uint64(dir+1)*0x9e3779b97f4a7c15, opt.Seed2+uint64(dir)))}
		h.cond = sync.NewCond(&h.mu)
		return h
	}
	ab, ba := mk(AtoB), mk(BtoA)
	p := portCounter.Add(2)
	aAddr := &net.TCPAddr{IP: net.IPv4(10, 19, 0, 1), Port: 20000 + int(p%20000)}
	bAddr := &net.TCPAddr{IP: net.IPv4(10, 19, 0, 2), Port: 9981}
	o := opt
	a := &Conn{rd: ba, wr: ab, local: aAddr, remote: bAddr, opt: &o}
	b := &Conn{rd: ab, wr: ba, local: bAddr, remote: aAddr, opt: &o}
	return a, b
}

func (c *Conn) chunk(h *half, n int) int {
	if c.opt.MaxChunk <= 0 || n <= 1 {
		return n
	}
	h.rmu.Lock()
	defer h.rmu.Unlock()
	m := c.opt.MaxChunk
	var k int
	switch h.rng.IntN(4) {
	case 0:
		k = 1
	case 1:
		k = 1 + h.rng.IntN(min(m, 16))
	default:
		k = 1 + h.rng.IntN(m)
	}
	return min(k, n)
}

func (c *Conn) maybeStall(h *half) {
	if c.opt.StallEvery <= 0 {
		return
	}
	h.rmu.Lock()
	hit := h.rng.IntN(c.opt.StallEvery) == 0
	h.rmu.Unlock()
	if hit {
		if c.opt.Stall > 0 {
			time.Sleep(c.opt.Stall)
		} else {
			time.Sleep(50 * time.Microsecond)
		}
	}
}

func (c *Conn) deadline(read bool) time.Time {
	c.dmu.Lock()
	defer c.dmu.Unlock()
	if read {
		return c.rdl
	}
	return c.wdl
}

func expired(t time.Time) bool { return !t.IsZero() && !time.Now().Before(t) }

// Write implements net.Conn. The data is cut into fragments; each fragment
// passes the hook and is appended to the peer's receive buffer, blocking while
// the buffer is full.
func (c *Conn) Write(p []byte) (int, error) {
	h := c.wr
	h.wmu.Lock()
	defer h.wmu.Unlock()
	if c.closed.Load() {
		return 0, mkErr(c, "write", net.ErrClosed)
	}
	n := 0
	for n < len(p) {
		k := c.chunk(h, len(p)-n)
		c.maybeStall(h)

		h.mu.Lock()
		// wait for room (at least one byte) or a terminal condition
		for {
			if c.closed.Load() {
				h.mu.Unlock()
				return n, mkErr(c, "write", net.ErrClosed)
			}
			if h.rclosed {
				h.mu.Unlock()
				return n, mkErr(c, "write", errBrokenPipe)
			}
			if expired(c.deadline(false)) {
				h.mu.Unlock()
				return n, mkErr(c, "write", os.ErrDeadlineExceeded)
			}
			if h.truncated || len(h.buf) < h.cap {
				break
			}
			h.cond.Wait()
		}
		if room := h.cap - len(h.buf); !h.truncated && k > room {
			k = room
		}
		off := h.off
		h.off += int64(k)
		if h.truncated {
			h.mu.Unlock()
			n += k
			continue
		}
		out := p[n : n+k]
		if c.opt.Hook != nil {
			// the hook may modify the fragment: give it a private copy
			frag := append([]byte(nil), out...)
			out = c.opt.Hook(h.dir, off, frag)
			if len(out) < len(frag) {
				h.truncated = true
			}
		}
		h.buf = append(h.buf, out...)
		h.delivered += int64(len(out))
		h.wake()
		h.mu.Unlock()
		n += k
	}
	return n, nil
}

// Read implements net.Conn. It returns at most one fragment's worth of data.
func (c *Conn) Read(p []byte) (int, error) {
	h := c.rd
	if len(p) == 0 {
		return 0, nil
	}
	c.maybeStall(h)
	h.mu.Lock()
	defer h.mu.Unlock()
	for {
		if c.closed.Load() {
			return 0, mkErr(c, "read", net.ErrClosed)
		}
		if expired(c.deadline(true)) {
			return 0, mkErr(c, "read", os.ErrDeadlineExceeded)
		}
		if len(h.buf) > 0 {
			break
		}
		if h.wclosed {
			return 0, io.EOF
		}
		h.cond.Wait()
	}
	k := min(len(p), len(h.buf))
	k = c.chunk(h, k)
	copy(p, h.buf[:k])
	h.buf = h.buf[k:]
	if len(h.buf) == 0 {
		h.buf = nil
	}
	h.wake()
	return k, nil
}

// Close implements net.Conn: pending and later Read/Write on this end fail
// with net.ErrClosed; the peer reads what is buffered and then io.EOF, and its
// writes fail with a broken-pipe error.
func (c *Conn) Close() error {
	if c.closed.Swap(true) {
		return mkErr(c, "close", net.ErrClosed)
	}
	c.dmu.Lock()
	if c.rtm != nil {
		c.rtm.Stop()
	}
	if c.wtm != nil {
		c.wtm.Stop()
	}
	c.dmu.Unlock()
	c.wr.mu.Lock()
	c.wr.wclosed = true
	c.wr.wake()
	c.wr.mu.Unlock()
	c.rd.mu.Lock()
	c.rd.rclosed = true
	c.rd.buf = nil
	c.rd.wake()
	c.rd.mu.Unlock()
	return nil
}

// LocalAddr implements net.Conn (a *net.TCPAddr).
func (c *Conn) LocalAddr() net.Addr { return c.local }

// RemoteAddr implements net.Conn (a *net.TCPAddr with a port).
func (c *Conn) RemoteAddr() net.Addr { return c.remote }

// SetDeadline implements net.Conn.
func (c *Conn) SetDeadline(t time.Time) error {
	c.SetReadDeadline(t)
	return c.SetWriteDeadline(t)
}

func (c *Conn) setDL(t time.Time, dl *time.Time, tm **time.Timer, h *half) error {
	if c.closed.Load() {
		return mkErr(c, "set", net.ErrClosed)
	}
	c.dmu.Lock()
	*dl = t
	if *tm != nil {
		(*tm).Stop()
		*tm = nil
	}
	if !t.IsZero() {
		d := time.Until(t)
		if d < 0 {
			d = 0
		}
		*tm = time.AfterFunc(d, func() {
			h.mu.Lock()
			h.wake()
			h.mu.Unlock()
		})
	}
	c.dmu.Unlock()
	return nil
}

// SetReadDeadline implements net.Conn; it also interrupts a blocked Read.
func (c *Conn) SetReadDeadline(t time.Time) error { return c.setDL(t, &c.rdl, &c.rtm, c.rd) }

// SetWriteDeadline implements net.Conn; it also interrupts a blocked Write.
func (c *Conn) SetWriteDeadline(t time.Time) error { return c.setDL(t, &c.wdl, &c.wtm, c.wr) }

// Sent returns the number of bytes this end has written so far (pre-MITM
// stream offset of the next byte).
func (c *Conn) Sent() int64 {
	c.wr.mu.Lock()
	defer c.wr.mu.Unlock()
	return c.wr.off
}

// Received returns the number of bytes delivered into this end's receive
// buffer so far (post-MITM).
func (c *Conn) Received() int64 {
	c.rd.mu.Lock()
	defer c.rd.mu.Unlock()
	return c.rd.delivered
}

// Tamper is an armable MITM: until armed it passes everything through. It is
// safe for concurrent use; Hook() is what goes into Options.Hook.
type Tamper struct {
	mu    sync.Mutex
	armed bool
	dir   int
	off   int64
	mask  byte // 0 => truncate at off, else XOR mask into the byte at off
	hits  int
	seen  [2]int64
}

// ArmFlip makes the hook XOR mask into the byte at absolute offset off of
// direction dir.
func (t *Tamper) ArmFlip(dir int, off int64, mask byte) {
	if mask == 0 {
		mask = 1
	}
	t.mu.Lock()
	t.armed, t.dir, t.off, t.mask = true, dir, off, mask
	t.mu.Unlock()
}

// ArmTruncate makes the hook drop every byte of direction dir from absolute
// offset off on.
func (t *Tamper) ArmTruncate(dir int, off int64) {
	t.mu.Lock()
	t.armed, t.dir, t.off, t.mask = true, dir, off, 0
	t.mu.Unlock()
}

// Hits reports how many times the tamper has been applied (0 or 1).
func (t *Tamper) Hits() int {
	t.mu.Lock()
	defer t.mu.Unlock()
	return t.hits
}

// Seen returns the number of bytes the hook has seen in direction dir.
func (t *Tamper) Seen(dir int) int64 {
	t.mu.Lock()
	defer t.mu.Unlock()
	return t.seen[dir]
}

// Hook returns the Hook function of t.
func (t *Tamper) Hook() Hook {
	return func(dir int, off int64, p []byte) []byte {
		t.mu.Lock()
		defer t.mu.Unlock()
		if end := off + int64(len(p)); end > t.seen[dir] {
			t.seen[dir] = end
		}
		if !t.armed || dir != t.dir {
			return p
		}
		if t.mask == 0 {
			if t.off < off+int64(len(p)) {
				t.hits = 1
				if t.off <= off {
					return p[:0]
				}
				return p[:t.off-off]
			}
			return p
		}
		if t.off >= off && t.off < off+int64(len(p)) {
			p[t.off-off] ^= t.mask
			t.hits = 1
			t.armed = false
		}
		return p
	}
}
