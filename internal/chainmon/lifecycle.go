package chainmon

import (
	"fmt"
	"math/big"
	"reflect"

	"go.sia.tech/core/consensus"
	"go.sia.tech/core/types"
	"verif/internal/chaingen"
)

type v1rec struct {
	cur      types.FileContract
	resolved bool
}
type v2rec struct {
	cur      types.V2FileContract
	resolved bool
}

type lcUndo struct {
	v1 map[types.FileContractID]*v1rec // previous value (nil = did not exist)
	v2 map[types.FileContractID]*v2rec
}

// Lifecycle is the per-contract state machine of C07: created -> revised* ->
// resolved once, with the value/ordering laws on revisions and the exact-payout
// law on resolution. It is fed by the diffs of accepted blocks only.
type Lifecycle struct {
	R     Reporter
	Prop  string
	Net   *consensus.Network
	v1    map[types.FileContractID]*v1rec
	v2    map[types.FileContractID]*v2rec
	undos []lcUndo
}

func NewLifecycle(prop string, r Reporter, n *consensus.Network) *Lifecycle {
	return &Lifecycle{R: r, Prop: prop, Net: n, v1: map[types.FileContractID]*v1rec{}, v2: map[types.FileContractID]*v2rec{}}
}

func (l *Lifecycle) checkOutput(created map[types.SiacoinOutputID]types.SiacoinElement, id types.SiacoinOutputID, want types.SiacoinOutput, maturity uint64, what string, wit any) {
	e, ok := created[id]
	if !ok {
		l.R.Violate(l.Prop+"/payout/missing-output/"+what, fmt.Sprintf("resolution (%s) did not create the expected output %v of %v", what, id, want.Value), wit)
		return
	}
	if e.SiacoinOutput != want {
		l.R.Violate(l.Prop+"/payout/wrong-output/"+what, fmt.Sprintf("resolution (%s) created %v to %v, the latest accepted revision commits %v to %v", what, e.SiacoinOutput.Value, e.SiacoinOutput.Address, want.Value, want.Address), wit)
	}
	if e.MaturityHeight != maturity {
		l.R.Violate(l.Prop+"/payout/maturity/"+what, fmt.Sprintf("contract payout matures at %d, expected %d (height + maturity delay)", e.MaturityHeight, maturity), wit)
	}
	delete(created, id)
	l.R.Count("contract_payout_outputs_checked", 1)
}

// OnApply consumes the diffs of an accepted block.
func (l *Lifecycle) OnApply(ev chaingen.ApplyEvent) {
	h := ev.Next.Index.Height
	mat := h + l.Net.MaturityDelay
	wit := map[string]any{"height": h, "kinds": ev.Kinds}
	u := lcUndo{v1: map[types.FileContractID]*v1rec{}, v2: map[types.FileContractID]*v2rec{}}
	save1 := func(id types.FileContractID) {
		if _, done := u.v1[id]; !done {
			if r, ok := l.v1[id]; ok {
				cp := *r
				u.v1[id] = &cp
			} else {
				u.v1[id] = nil
			}
		}
	}
	save2 := func(id types.FileContractID) {
		if _, done := u.v2[id]; !done {
			if r, ok := l.v2[id]; ok {
				cp := *r
				u.v2[id] = &cp
			} else {
				u.v2[id] = nil
			}
		}
	}
	created := map[types.SiacoinOutputID]types.SiacoinElement{}
	for _, d := range ev.AU.SiacoinElementDiffs() {
		if d.Created {
			created[d.SiacoinElement.ID] = d.SiacoinElement
		}
	}

	for _, d := range ev.AU.FileContractElementDiffs() {
		id := d.FileContractElement.ID
		save1(id)
		rec := l.v1[id]
		if d.Created {
			if rec != nil {
				l.R.Violate(l.Prop+"/lifecycle/v1-created-twice", "a v1 contract ID was created twice", wit)
			}
			rec = &v1rec{cur: d.FileContractElement.FileContract}
			l.v1[id] = rec
			l.R.Count("v1_contracts_created", 1)
		}
		if rec == nil {
			l.R.Violate(l.Prop+"/lifecycle/v1-unknown-contract", "diff for a v1 contract that was never reported created", wit)
			continue
		}
		if rec.resolved {
			l.R.Violate(l.Prop+"/lifecycle/v1-touched-after-resolution", "a resolved v1 contract was revised or resolved again", wit)
		}
		if !d.Created && !reflect.DeepEqual(normFC(d.FileContractElement.FileContract), normFC(rec.cur)) {
			l.R.Violate(l.Prop+"/lifecycle/v1-stale-parent", "a revision/resolution was accepted against contents that are not the latest accepted revision", wit)
		}
		if d.Revision != nil {
			prev, rev := rec.cur, *d.Revision
			if sumOuts(rev.ValidProofOutputs).Cmp(sumOuts(prev.ValidProofOutputs)) != 0 || sumOuts(rev.MissedProofOutputs).Cmp(sumOuts(prev.MissedProofOutputs)) != 0 || rev.Payout != prev.Payout {
				l.R.Violate(l.Prop+"/revision/v1-total-value-changed", fmt.Sprintf("v1 revision changes the contract value: valid %v->%v missed %v->%v payout %v->%v", sumOuts(prev.ValidProofOutputs), sumOuts(rev.ValidProofOutputs), sumOuts(prev.MissedProofOutputs), sumOuts(rev.MissedProofOutputs), prev.Payout, rev.Payout), wit)
			}
			if rev.RevisionNumber < prev.RevisionNumber {
				l.R.Violate(l.Prop+"/revision/v1-revision-number-lowered", fmt.Sprintf("revision number %d -> %d", prev.RevisionNumber, rev.RevisionNumber), wit)
			}
			rec.cur = rev
			l.R.Count("v1_revisions_checked", 1)
		}
		if d.Resolved {
			fc := rec.cur
			if d.Valid {
				for i, o := range fc.ValidProofOutputs {
					l.checkOutput(created, id.ValidOutputID(i), o, mat, "v1-storage-proof", wit)
				}
				for i := range fc.MissedProofOutputs {
					if _, ok := created[id.MissedOutputID(i)]; ok {
						l.R.Violate(l.Prop+"/payout/both-valid-and-missed", "a storage-proof resolution also created missed outputs", wit)
					}
				}
				l.R.Count("v1_resolved_valid", 1)
			} else {
				for i, o := range fc.MissedProofOutputs {
					l.checkOutput(created, id.MissedOutputID(i), o, mat, "v1-expiry", wit)
				}
				for i := range fc.ValidProofOutputs {
					if _, ok := created[id.ValidOutputID(i)]; ok {
						l.R.Violate(l.Prop+"/payout/both-valid-and-missed", "an expiry also created valid outputs", wit)
					}
				}
				if fc.WindowEnd != h {
					l.R.Violate(l.Prop+"/lifecycle/v1-expired-at-wrong-height", fmt.Sprintf("v1 contract with window end %d expired at height %d", fc.WindowEnd, h), wit)
				}
				l.R.Count("v1_resolved_missed", 1)
			}
			rec.resolved = true
		}
	}

	var deferred []func()
	for _, d := range ev.AU.V2FileContractElementDiffs() {
		id := d.V2FileContractElement.ID
		save2(id)
		rec := l.v2[id]
		if d.Created {
			if rec != nil {
				l.R.Violate(l.Prop+"/lifecycle/v2-created-twice", "a v2 contract ID was created twice", wit)
			}
			rec = &v2rec{cur: d.V2FileContractElement.V2FileContract}
			l.v2[id] = rec
			l.R.Count("v2_contracts_created", 1)
		}
		if rec == nil {
			l.R.Violate(l.Prop+"/lifecycle/v2-unknown-contract", "diff for a v2 contract that was never reported created", wit)
			continue
		}
		if rec.resolved {
			l.R.Violate(l.Prop+"/lifecycle/v2-touched-after-resolution", "a resolved v2 contract was revised or resolved again", wit)
		}
		if !d.Created && d.V2FileContractElement.V2FileContract != rec.cur {
			l.R.Violate(l.Prop+"/lifecycle/v2-stale-parent", "a revision/resolution was accepted against contents that are not the latest accepted revision", wit)
		}
		if d.Revision != nil {
			prev, rev := rec.cur, *d.Revision
			ps := new(big.Int).Add(bigC(prev.RenterOutput.Value), bigC(prev.HostOutput.Value))
			rs := new(big.Int).Add(bigC(rev.RenterOutput.Value), bigC(rev.HostOutput.Value))
			if ps.Cmp(rs) != 0 {
				l.R.Violate(l.Prop+"/revision/v2-total-value-changed", fmt.Sprintf("v2 revision changes renter+host value %v -> %v", ps, rs), wit)
			}
			if rev.RevisionNumber < prev.RevisionNumber {
				l.R.Violate(l.Prop+"/revision/v2-revision-number-lowered", fmt.Sprintf("revision number %d -> %d", prev.RevisionNumber, rev.RevisionNumber), wit)
			}
			if rev.MissedHostValue.Cmp(prev.MissedHostValue) > 0 {
				l.R.Violate(l.Prop+"/revision/v2-missed-host-value-raised", fmt.Sprintf("missed host value %v -> %v", prev.MissedHostValue, rev.MissedHostValue), wit)
			}
			if rev.TotalCollateral != prev.TotalCollateral {
				l.R.Violate(l.Prop+"/revision/v2-total-collateral-changed", fmt.Sprintf("total collateral %v -> %v", prev.TotalCollateral, rev.TotalCollateral), wit)
			}
			rec.cur = rev
			l.R.Count("v2_revisions_checked", 1)
		}
		if d.Resolution != nil {
			fc := rec.cur
			switch r := d.Resolution.(type) {
			case *types.V2StorageProof:
				l.checkOutput(created, id.V2RenterOutputID(), fc.RenterOutput, mat, "v2-storage-proof", wit)
				l.checkOutput(created, id.V2HostOutputID(), fc.HostOutput, mat, "v2-storage-proof", wit)
				l.R.Count("v2_resolved_proof", 1)
			case *types.V2FileContractExpiration:
				l.checkOutput(created, id.V2RenterOutputID(), fc.RenterOutput, mat, "v2-expiration", wit)
				l.checkOutput(created, id.V2HostOutputID(), types.SiacoinOutput{Value: fc.MissedHostValue, Address: fc.HostOutput.Address}, mat, "v2-expiration", wit)
				if h <= fc.ExpirationHeight {
					l.R.Violate(l.Prop+"/lifecycle/v2-expired-early", fmt.Sprintf("expiration accepted at height %d for expiration height %d", h, fc.ExpirationHeight), wit)
				}
				l.R.Count("v2_resolved_expiration", 1)
			case *types.V2FileContractRenewal:
				l.checkOutput(created, id.V2RenterOutputID(), r.FinalRenterOutput, mat, "v2-renewal", wit)
				l.checkOutput(created, id.V2HostOutputID(), r.FinalHostOutput, mat, "v2-renewal", wit)
				tot := new(big.Int).Add(bigC(r.FinalRenterOutput.Value), bigC(r.FinalHostOutput.Value))
				tot.Add(tot, bigC(r.RenterRollover))
				tot.Add(tot, bigC(r.HostRollover))
				want := new(big.Int).Add(bigC(fc.RenterOutput.Value), bigC(fc.HostOutput.Value))
				if tot.Cmp(want) != 0 {
					l.R.Violate(l.Prop+"/payout/renewal-split", fmt.Sprintf("renewal final outputs + rollover = %v, contract value = %v", tot, want), wit)
				}
				nid, nc := id.V2RenewalID(), r.NewContract
				deferred = append(deferred, func() {
					if nr, ok := l.v2[nid]; !ok || nr.cur != nc && !revisedInBlock(ev.AU, nid) {
						l.R.Violate(l.Prop+"/lifecycle/renewal-new-contract", "renewal did not create the new contract with the renewal ID and the committed contents", wit)
					}
				})
				l.R.Count("v2_resolved_renewal", 1)
			}
			rec.resolved = true
		}
	}
	for _, f := range deferred {
		f()
	}
	l.undos = append(l.undos, u)
}

func revisedInBlock(au consensus.ApplyUpdate, id types.FileContractID) bool {
	for _, d := range au.V2FileContractElementDiffs() {
		if d.V2FileContractElement.ID == id && d.Revision != nil {
			return true
		}
	}
	return false
}

func normFC(fc types.FileContract) types.FileContract {
	if len(fc.ValidProofOutputs) == 0 {
		fc.ValidProofOutputs = nil
	}
	if len(fc.MissedProofOutputs) == 0 {
		fc.MissedProofOutputs = nil
	}
	return fc
}

// OnRevert restores the records touched by the reverted block.
func (l *Lifecycle) OnRevert(ev chaingen.RevertEvent) {
	u := l.undos[len(l.undos)-1]
	l.undos = l.undos[:len(l.undos)-1]
	for id, r := range u.v1 {
		if r == nil {
			delete(l.v1, id)
		} else {
			l.v1[id] = r
		}
	}
	for id, r := range u.v2 {
		if r == nil {
			delete(l.v2, id)
		} else {
			l.v2[id] = r
		}
	}
}
