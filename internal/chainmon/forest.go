// Package chainmon holds the monitors that watch chaingen histories: the naive
// accumulator forest, the ledger, the spent-set and the contract lifecycle.
package chainmon

import (
	"fmt"

	"go.sia.tech/core/consensus"
	"go.sia.tech/core/types"
	"verif/internal/chaingen"
	"verif/internal/elems"
	"verif/internal/refmodel"
)

// Reporter receives violations from monitors.
type Reporter interface {
	Violate(key, detail string, witness any)
	Count(name string, n int)
	Distinct(parts ...any)
}

type undo struct {
	oldN    uint64
	changed []struct {
		i uint64
		h refmodel.Hash
	}
}

// ForestMon maintains the naive forest from the diff stream (plus the block
// itself for attestation leaves) and compares the library's accumulator,
// reported tree nodes and the client store's proofs with it.
type ForestMon struct {
	nodes map[[2]uint64]refmodel.Hash // a consumer's copy of every tree node ever reported (CheckTreeNodes)
	F     *refmodel.Forest
	undos []undo
	R     Reporter
	Prop  string // property id used in violation keys
	// leaf descriptions, for witnesses
	CheckTreeNodes bool
	CheckReported  bool // verify every siacoin / siafund element reported by an ApplyUpdate
}

func NewForestMon(prop string, r Reporter) *ForestMon {
	return &ForestMon{F: &refmodel.Forest{}, R: r, Prop: prop, CheckTreeNodes: true, CheckReported: true}
}

type leafSet struct {
	oldN  uint64
	upd   map[uint64]refmodel.Hash
	added map[uint64]refmodel.Hash
	dup   bool
}

func (ls *leafSet) put(idx uint64, h refmodel.Hash) {
	m := ls.upd
	if idx >= ls.oldN {
		m = ls.added
	}
	if _, ok := m[idx]; ok {
		ls.dup = true
	}
	m[idx] = h
}

// collect derives (index -> new leaf hash) for everything a block touched,
// from the update's diffs and the block.
func collect(oldN uint64, b types.Block, au consensus.ApplyUpdate) (*leafSet, int) {
	ls := &leafSet{oldN: oldN, upd: map[uint64]refmodel.Hash{}, added: map[uint64]refmodel.Hash{}}
	for _, d := range au.SiacoinElementDiffs() {
		e := d.SiacoinElement
		ls.put(e.StateElement.LeafIndex, refmodel.ElementLeafHash(elems.Siacoin(e), e.StateElement.LeafIndex, d.Spent))
	}
	for _, d := range au.SiafundElementDiffs() {
		e := d.SiafundElement
		ls.put(e.StateElement.LeafIndex, refmodel.ElementLeafHash(elems.Siafund(e), e.StateElement.LeafIndex, d.Spent))
	}
	for _, d := range au.FileContractElementDiffs() {
		e := d.FileContractElement
		fc := e.FileContract
		if d.Revision != nil {
			fc = *d.Revision
		}
		ls.put(e.StateElement.LeafIndex, refmodel.ElementLeafHash(elems.FileContract(e.ID, fc), e.StateElement.LeafIndex, d.Resolved))
	}
	for _, d := range au.V2FileContractElementDiffs() {
		e := d.V2FileContractElement
		fc := e.V2FileContract
		if d.Revision != nil {
			fc = *d.Revision
		}
		ls.put(e.StateElement.LeafIndex, refmodel.ElementLeafHash(elems.V2FileContract(e.ID, fc), e.StateElement.LeafIndex, d.Resolution != nil))
	}
	// attestations: no accessor on the update; derive from the block
	nAtt := 0
	for _, txn := range b.V2Transactions() {
		nAtt += len(txn.Attestations)
	}
	cie := au.ChainIndexElement()
	ci := cie.StateElement.LeafIndex
	ls.put(ci, refmodel.ElementLeafHash(elems.ChainIndex(cie.ID, cie.ChainIndex), ci, false))
	k := 0
	for _, txn := range b.V2Transactions() {
		txid := txn.ID()
		for i, a := range txn.Attestations {
			idx := ci - uint64(nAtt) + uint64(k)
			ls.put(idx, refmodel.ElementLeafHash(elems.Attestation(txn.AttestationID(txid, i), a), idx, false))
			k++
		}
	}
	return ls, nAtt
}

// OnApply feeds the forest with an applied block and checks the new state.
func (m *ForestMon) OnApply(ev chaingen.ApplyEvent) {
	oldN := ev.Prev.Elements.NumLeaves
	if oldN != m.F.N() {
		m.R.Violate(m.Prop+"/forest/leaf-count-before-apply", fmt.Sprintf("state says %d leaves, naive forest has %d", oldN, m.F.N()), nil)
		return
	}
	ls, nAtt := collect(oldN, ev.Block, ev.AU)
	u := undo{oldN: oldN}
	if ls.dup {
		m.R.Violate(m.Prop+"/forest/duplicate-leaf-index-in-update", "two reported elements share a leaf index", blockWitness(ev))
	}
	for i, h := range ls.upd {
		u.changed = append(u.changed, struct {
			i uint64
			h refmodel.Hash
		}{i, m.F.Leaves[i]})
		m.F.Set(i, h)
	}
	newN := ev.Next.Elements.NumLeaves
	for i := oldN; i < newN; i++ {
		h, ok := ls.added[i]
		if !ok {
			m.R.Violate(m.Prop+"/forest/unaccounted-new-leaf", fmt.Sprintf("leaf %d of the new accumulator (old %d, new %d, %d attestations) is not explained by any reported element", i, oldN, newN, nAtt), blockWitness(ev))
			h = refmodel.Hash{}
		}
		m.F.Append(h)
	}
	if uint64(len(ls.added)) != newN-oldN {
		m.R.Violate(m.Prop+"/forest/added-count", fmt.Sprintf("update reports %d added leaves, accumulator grew by %d", len(ls.added), newN-oldN), blockWitness(ev))
	}
	m.undos = append(m.undos, u)
	m.CompareState(ev.Next, "after-apply", blockWitness(ev))
	// every element the update reports - including outputs created AND spent inside the block, which no store keeps -
	// carries the path of its leaf in the new forest
	if m.CheckReported {
		n := 0
		for _, d := range ev.AU.SiacoinElementDiffs() {
			m.CheckElement("reported-siacoin", elems.Siacoin(d.SiacoinElement), d.SiacoinElement.StateElement, d.Spent, ev.Next, "after-apply")
			n++
		}
		for _, d := range ev.AU.SiafundElementDiffs() {
			m.CheckElement("reported-siafund", elems.Siafund(d.SiafundElement), d.SiafundElement.StateElement, d.Spent, ev.Next, "after-apply")
			n++
		}
		m.R.Count("reported_diff_elements_verified", n)
	}
	m.R.Distinct("forest-shape", oldN&0xff, len(ls.upd) > 0, (newN-oldN) > 3, nAtt > 0, bitsPattern(oldN), bitsPattern(newN))
	if m.CheckTreeNodes {
		seenRow0 := 0
		ev.AU.ForEachTreeNode(func(row, col uint64, h types.Hash256) {
			want, ok := m.F.Node(row, col)
			if !ok {
				m.R.Violate(m.Prop+"/forest/tree-node-out-of-range", fmt.Sprintf("ForEachTreeNode reported node (%d,%d) which is not a complete subtree of %d leaves", row, col, newN), blockWitness(ev))
				return
			}
			if row == 0 {
				seenRow0++
			}
			if refmodel.Hash(h) != want {
				m.R.Violate(m.Prop+"/forest/tree-node-mismatch", fmt.Sprintf("ForEachTreeNode (%d,%d) = %x, naive forest has %x", row, col, h, want), blockWitness(ev))
			}
		})
		m.R.Count("tree_nodes_row0_checked", seenRow0)
		ev.AU.ForEachTreeNode(func(row, col uint64, h types.Hash256) { m.storeNode(row, col, h) })
		m.checkNodeStore("after-apply", blockWitness(ev))
	}
}

// A consumer that keeps the tree nodes it is told about (ForEachTreeNode of every apply and revert update) holds, for
// every node it has ever been told, the hash that node has now - as long as the node is still a complete subtree of
// the forest. A node that changed without being reported makes the proofs such a consumer derives wrong.
func (m *ForestMon) storeNode(row, col uint64, h types.Hash256) {
	if m.nodes == nil {
		m.nodes = map[[2]uint64]refmodel.Hash{}
	}
	m.nodes[[2]uint64{row, col}] = refmodel.Hash(h)
}

func (m *ForestMon) checkNodeStore(when string, wit any) {
	for k, h := range m.nodes {
		want, ok := m.F.Node(k[0], k[1])
		if !ok {
			delete(m.nodes, k) // no longer a complete subtree (the forest shrank)
			continue
		}
		if h != want {
			m.R.Violate(m.Prop+"/forest/stored-tree-node-stale/"+when, fmt.Sprintf("a store fed by ForEachTreeNode holds %x for node (%d,%d); the forest has %x there: the node changed without being reported", h, k[0], k[1], want), wit)
			m.nodes = nil
			return
		}
	}
	m.R.Count("tree_node_stores_compared", 1)
}

func bitsPattern(n uint64) string {
	// coarse pattern: popcount and trailing ones
	pc, to := 0, 0
	for i := 0; i < 64; i++ {
		if n&(1<<i) != 0 {
			pc++
		}
	}
	for n&1 == 1 {
		to++
		n >>= 1
	}
	return fmt.Sprintf("pc%d-t%d", pc, to)
}

// OnRevert restores the forest to the parent state (from its own undo log, not
// from what the revert reports) and checks it against the parent state.
func (m *ForestMon) OnRevert(ev chaingen.RevertEvent) {
	if len(m.undos) == 0 {
		return
	}
	u := m.undos[len(m.undos)-1]
	m.undos = m.undos[:len(m.undos)-1]
	m.F.Truncate(u.oldN)
	for _, c := range u.changed {
		m.F.Set(c.i, c.h)
	}
	m.CompareState(ev.Prev, "after-revert", nil)
	if m.CheckTreeNodes {
		n := ev.Prev.Elements.NumLeaves
		ev.RU.ForEachTreeNode(func(row, col uint64, h types.Hash256) {
			want, ok := m.F.Node(row, col)
			if !ok {
				m.R.Violate(m.Prop+"/forest/revert-tree-node-out-of-range", fmt.Sprintf("RevertUpdate.ForEachTreeNode reported node (%d,%d), not a complete subtree of %d leaves", row, col, n), nil)
				return
			}
			if refmodel.Hash(h) != want {
				m.R.Violate(m.Prop+"/forest/revert-tree-node-mismatch", fmt.Sprintf("RevertUpdate.ForEachTreeNode (%d,%d) = %x, naive forest has %x", row, col, h, want), nil)
			}
		})
		ev.RU.ForEachTreeNode(func(row, col uint64, h types.Hash256) { m.storeNode(row, col, h) })
		m.checkNodeStore("after-revert", nil)
	}
}

// CompareState compares roots and leaf count.
func (m *ForestMon) CompareState(s consensus.State, when string, wit any) {
	if s.Elements.NumLeaves != m.F.N() {
		m.R.Violate(m.Prop+"/forest/leaf-count/"+when, fmt.Sprintf("state has %d leaves, naive forest %d", s.Elements.NumLeaves, m.F.N()), wit)
		return
	}
	roots := m.F.Roots()
	for k := 0; k < 64; k++ {
		if s.Elements.NumLeaves&(1<<k) != 0 && refmodel.Hash(s.Elements.Trees[k]) != roots[k] {
			m.R.Violate(m.Prop+"/forest/root-mismatch/"+when, fmt.Sprintf("height %d tree root %x != naive %x (n=%d)", k, s.Elements.Trees[k], roots[k], m.F.N()), wit)
		}
	}
	m.R.Count("forest_root_comparisons", 1)
}

// CheckElement verifies one tracked element: proof equals the naive path, and
// the leaf (with the expected spent flag) is what the forest holds.
func (m *ForestMon) CheckElement(kind string, elemHash refmodel.Hash, se types.StateElement, spent bool, s consensus.State, when string) bool {
	ok := true
	if se.LeafIndex >= m.F.N() {
		m.R.Violate(fmt.Sprintf("%s/proof/%s/leaf-index-out-of-range/%s", m.Prop, kind, when), fmt.Sprintf("leaf index %d >= %d", se.LeafIndex, m.F.N()), nil)
		return false
	}
	want := m.F.Proof(se.LeafIndex)
	if len(want) != len(se.MerkleProof) {
		m.R.Violate(fmt.Sprintf("%s/proof/%s/length/%s", m.Prop, kind, when), fmt.Sprintf("leaf %d of %d: proof has %d hashes, naive path has %d", se.LeafIndex, m.F.N(), len(se.MerkleProof), len(want)), nil)
		return false
	}
	for i := range want {
		if refmodel.Hash(se.MerkleProof[i]) != want[i] {
			m.R.Violate(fmt.Sprintf("%s/proof/%s/hash-differs-from-naive-path/%s", m.Prop, kind, when), fmt.Sprintf("leaf %d of %d: proof[%d] = %x, naive path has %x", se.LeafIndex, m.F.N(), i, se.MerkleProof[i], want[i]), nil)
			ok = false
			break
		}
	}
	if lh := refmodel.ElementLeafHash(elemHash, se.LeafIndex, spent); lh != m.F.Leaves[se.LeafIndex] {
		m.R.Violate(fmt.Sprintf("%s/proof/%s/leaf-differs/%s", m.Prop, kind, when), fmt.Sprintf("leaf %d: element (spent=%v) hashes to %x, forest holds %x", se.LeafIndex, spent, lh, m.F.Leaves[se.LeafIndex]), nil)
		ok = false
	}
	if !elems.Member(s.Elements, elemHash, se, spent) {
		m.R.Violate(fmt.Sprintf("%s/proof/%s/does-not-verify/%s", m.Prop, kind, when), fmt.Sprintf("leaf %d of %d (spent=%v) does not verify against State.Elements", se.LeafIndex, m.F.N(), spent), nil)
		ok = false
	}
	return ok
}

// CheckStore verifies every live element of the store.
func (m *ForestMon) CheckStore(st *chaingen.Store, s consensus.State, when string) int {
	n := 0
	for _, id := range st.OrderedSC() {
		e := st.SCEs[id]
		m.CheckElement("siacoin", elems.Siacoin(e), e.StateElement, false, s, when)
		n++
	}
	for _, id := range st.OrderedSF() {
		e := st.SFEs[id]
		m.CheckElement("siafund", elems.Siafund(e), e.StateElement, false, s, when)
		n++
	}
	for _, id := range st.OrderedFC() {
		e := st.FCEs[id]
		m.CheckElement("filecontract", elems.FileContract(e.ID, e.FileContract), e.StateElement, false, s, when)
		n++
	}
	for _, id := range st.OrderedV2FC() {
		e := st.V2FCEs[id]
		m.CheckElement("v2filecontract", elems.V2FileContract(e.ID, e.V2FileContract), e.StateElement, false, s, when)
		n++
	}
	for h := uint64(0); h <= s.Index.Height; h++ {
		if e, ok := st.CIEs[h]; ok {
			m.CheckElement("chainindex", elems.ChainIndex(e.ID, e.ChainIndex), e.StateElement, false, s, when)
			n++
		}
	}
	m.R.Count("store_elements_verified", n)
	return n
}

func blockWitness(ev chaingen.ApplyEvent) any {
	return map[string]any{"height": ev.Next.Index.Height, "kinds": ev.Kinds, "block_id": ev.Next.Index.ID.String()}
}
