package chainmon

import (
	"fmt"
	"math/big"
	"time"

	"go.sia.tech/core/consensus"
	"go.sia.tech/core/types"
	"verif/internal/chaingen"
)

func bigC(c types.Currency) *big.Int {
	b := new(big.Int).SetUint64(c.Hi)
	b.Lsh(b, 64)
	return b.Add(b, new(big.Int).SetUint64(c.Lo))
}

func sumOuts(os []types.SiacoinOutput) *big.Int {
	s := new(big.Int)
	for _, o := range os {
		s.Add(s, bigC(o.Value))
	}
	return s
}

var hastingsPerSC = new(big.Int).Exp(big.NewInt(10), big.NewInt(24), nil)

// Ledger is the integer balance sheet of C01, updated only from what the
// library reports (diffs, State.SiafundTaxRevenue) and compared with an
// independently computed schedule.
type Ledger struct {
	R    Reporter
	Prop string
	Net  *consensus.Network

	Unspent      *big.Int // all unspent siacoin outputs (mature or not)
	LockedV1     *big.Int
	LockedV2     *big.Int
	ClaimsPaid   *big.Int
	Forfeited    *big.Int
	Issued       *big.Int // genesis allocation + scheduled subsidies so far
	SF           *big.Int // siafunds in unspent outputs (big: a 64-bit sum could wrap exactly like the code under test)
	snaps        []ledgerSnap
	GenesisSF    *big.Int
	legacyMissed map[types.FileContractID]bool
}

type ledgerSnap struct {
	Unspent, LockedV1, LockedV2, ClaimsPaid, Forfeited, Issued *big.Int
	SF                                                         *big.Int
}

func NewLedger(prop string, r Reporter, n *consensus.Network) *Ledger {
	return &Ledger{R: r, Prop: prop, Net: n, Unspent: new(big.Int), LockedV1: new(big.Int), LockedV2: new(big.Int), ClaimsPaid: new(big.Int), Forfeited: new(big.Int), Issued: new(big.Int), SF: new(big.Int), GenesisSF: new(big.Int)}
}

func cp(b *big.Int) *big.Int { return new(big.Int).Set(b) }

// V1Tax is the contract tax from the protocol definition: before the tax
// hardfork 3.9% computed with the float64 nearest 0.039 taken as an exact
// rational, afterwards exactly 39/1000; rounded down to a multiple of 10000.
func V1Tax(n *consensus.Network, childHeight uint64, payout *big.Int) *big.Int {
	t := new(big.Int)
	if childHeight < n.HardforkTax.Height {
		r := new(big.Rat).SetFloat64(0.039)
		r.Mul(r, new(big.Rat).SetInt(payout))
		t.Quo(r.Num(), r.Denom())
	} else {
		t.Mul(payout, big.NewInt(39))
		t.Quo(t, big.NewInt(1000))
	}
	return t.Sub(t, new(big.Int).Mod(t, big.NewInt(10000)))
}

// V2Tax is 4% of renter+host value, rounded down.
func V2Tax(fc types.V2FileContract) *big.Int {
	s := new(big.Int).Add(bigC(fc.RenterOutput.Value), bigC(fc.HostOutput.Value))
	return s.Quo(s, big.NewInt(25))
}

// Reward is the scheduled block reward at a height.
func Reward(n *consensus.Network, height uint64) *big.Int {
	r := new(big.Int).Sub(bigC(n.InitialCoinbase), new(big.Int).Mul(new(big.Int).SetUint64(height), hastingsPerSC))
	if r.Cmp(bigC(n.MinimumCoinbase)) < 0 {
		return bigC(n.MinimumCoinbase)
	}
	return r
}

// Subsidy is the scheduled Foundation subsidy at a height given the subsidy
// address in force in the parent state.
func Subsidy(n *consensus.Network, height uint64, subsidyAddr types.Address) *big.Int {
	if subsidyAddr == types.VoidAddress || height < n.HardforkFoundation.Height {
		return new(big.Int)
	}
	perYear := uint64(365 * 24 * time.Hour / n.BlockInterval)
	perMonth := perYear / 12
	per := new(big.Int).Mul(big.NewInt(30000), hastingsPerSC)
	if height == n.HardforkFoundation.Height {
		return per.Mul(per, new(big.Int).SetUint64(perYear))
	}
	if (height-n.HardforkFoundation.Height)%perMonth != 0 {
		return new(big.Int)
	}
	return per.Mul(per, new(big.Int).SetUint64(perMonth))
}

// OnApply updates the ledger with an applied block and checks all laws.
// parents resolves the siafund element spent by a v1 input (from the supplement).
func (l *Ledger) OnApply(ev chaingen.ApplyEvent) {
	h := ev.Next.Index.Height
	isGenesis := ev.Prev.Index.Height == ^uint64(0)
	wit := map[string]any{"height": h, "kinds": ev.Kinds}
	l.snaps = append(l.snaps, ledgerSnap{cp(l.Unspent), cp(l.LockedV1), cp(l.LockedV2), cp(l.ClaimsPaid), cp(l.Forfeited), cp(l.Issued), cp(l.SF)})

	created := map[types.SiacoinOutputID]types.SiacoinElement{}
	for _, d := range ev.AU.SiacoinElementDiffs() {
		v := bigC(d.SiacoinElement.SiacoinOutput.Value)
		if d.Created {
			created[d.SiacoinElement.ID] = d.SiacoinElement
		}
		switch {
		case d.Created && !d.Spent:
			l.Unspent.Add(l.Unspent, v)
		case d.Spent && !d.Created:
			l.Unspent.Sub(l.Unspent, v)
		}
	}
	for _, d := range ev.AU.SiafundElementDiffs() {
		switch {
		case d.Created && !d.Spent:
			l.SF.Add(l.SF, new(big.Int).SetUint64(d.SiafundElement.SiafundOutput.Value))
		case d.Spent && !d.Created:
			l.SF.Sub(l.SF, new(big.Int).SetUint64(d.SiafundElement.SiafundOutput.Value))
		}
	}
	for _, d := range ev.AU.FileContractElementDiffs() {
		fc := d.FileContractElement.FileContract
		switch {
		case d.Created && !d.Resolved:
			if d.Revision != nil {
				fc = *d.Revision
			}
			l.LockedV1.Add(l.LockedV1, sumOuts(fc.ValidProofOutputs))
		case d.Resolved && !d.Created:
			l.LockedV1.Sub(l.LockedV1, sumOuts(fc.ValidProofOutputs))
		case d.Revision != nil:
			// a revision of a contract formed earlier: what it will pay out is what is locked from now on
			was, now := sumOuts(fc.ValidProofOutputs), sumOuts(d.Revision.ValidProofOutputs)
			if was.Cmp(now) != 0 || now.Cmp(sumOuts(d.Revision.MissedProofOutputs)) != 0 {
				l.R.Violate(l.Prop+"/v1-revision-changes-what-the-contract-pays-out", fmt.Sprintf("at height %d a v1 contract paying out %v was revised to pay out %v (valid) / %v (missed)", h, was, now, sumOuts(d.Revision.MissedProofOutputs)), wit)
			}
			l.LockedV1.Add(l.LockedV1, new(big.Int).Sub(now, was))
			l.R.Count("v1_revisions_checked_by_the_ledger", 1)
		}
	}
	for _, d := range ev.AU.V2FileContractElementDiffs() {
		fc := d.V2FileContractElement.V2FileContract
		val := new(big.Int).Add(bigC(fc.RenterOutput.Value), bigC(fc.HostOutput.Value))
		if latest := d.Revision; latest != nil || d.Created {
			cur := fc
			if latest != nil {
				cur = *latest
			}
			if cur.MissedHostValue.Cmp(cur.HostOutput.Value) > 0 {
				if h >= l.Net.HardforkV2.EphemeralOutputHeight {
					l.R.Violate(l.Prop+"/v2-contract-accepted-with-missed-host-value-above-host-value/under-current-rules", fmt.Sprintf("at height %d a v2 contract (revision) with missed host value %v above its host value %v was accepted: its expiration would pay more than is locked", h, bigC(cur.MissedHostValue), bigC(cur.HostOutput.Value)), wit)
				}
				if l.legacyMissed == nil {
					l.legacyMissed = map[types.FileContractID]bool{}
				}
				// remember in which rule window the contract got a missed host value above its host value
				l.legacyMissed[d.V2FileContractElement.ID] = h < l.Net.HardforkV2.EphemeralOutputHeight
			}
		}
		switch {
		case d.Created && d.Resolution == nil:
			l.LockedV2.Add(l.LockedV2, val)
		case d.Resolution != nil && !d.Created:
			l.LockedV2.Sub(l.LockedV2, val)
			if _, ok := d.Resolution.(*types.V2FileContractExpiration); ok {
				f := new(big.Int).Sub(bigC(fc.HostOutput.Value), bigC(fc.MissedHostValue))
				if f.Sign() < 0 {
					key := l.Prop + "/expiration-pays-more-than-locked/missed-host-value-raised-above-host-value-under-current-rules"
					if l.legacyMissed[d.V2FileContractElement.ID] {
						key = l.Prop + "/expiration-pays-more-than-locked/revision-accepted-below-ephemeral-output-height"
					}
					l.R.Violate(key, fmt.Sprintf("a v2 contract locking renter %v + host %v expired paying the host %v: %v created from nothing", bigC(fc.RenterOutput.Value), bigC(fc.HostOutput.Value), bigC(fc.MissedHostValue), new(big.Int).Neg(f)), wit)
				}
				l.Forfeited.Add(l.Forfeited, f)
				l.R.Count("v2_expirations", 1)
			}
		}
	}

	if isGenesis {
		// genesis is taken as the allocation, not validated
		l.Issued.Set(l.Unspent)
		l.GenesisSF = cp(l.SF)
		l.identity(ev.Next, "after-genesis", wit)
		return
	}

	// independent replay of the block: taxes, claims, fees
	n := l.Net
	pool := bigC(ev.Prev.SiafundTaxRevenue)
	fees := new(big.Int)
	type claim struct {
		id              types.SiacoinOutputID
		want            *big.Int // revenue since creation, in whole units per siafund, times the number of siafunds
		exact           *big.Int // the holder's share: revenue since creation times value / 10000 (rounded down to a hasting)
		addr            types.Address
		legacyEphemeral bool
	}
	var claims []claim
	for i, txn := range ev.Block.Transactions {
		for _, f := range txn.MinerFees {
			fees.Add(fees, bigC(f))
		}
		for _, in := range txn.SiafundInputs {
			var parent *types.SiafundElement
			if i < len(ev.Supp.Transactions) {
				for k := range ev.Supp.Transactions[i].SiafundInputs {
					if ev.Supp.Transactions[i].SiafundInputs[k].ID == in.ParentID {
						parent = &ev.Supp.Transactions[i].SiafundInputs[k]
					}
				}
			}
			if parent == nil {
				// created earlier in this block: ClaimStart is the pool at its creation; look it up in the diffs
				for _, d := range ev.AU.SiafundElementDiffs() {
					if d.SiafundElement.ID == in.ParentID {
						e := d.SiafundElement
						parent = &e
					}
				}
			}
			if parent == nil {
				l.R.Violate(l.Prop+"/claim/unknown-parent", "siafund input whose parent is neither in the supplement nor in the diffs", wit)
				continue
			}
			c, ex := shares(pool, bigC(parent.ClaimStart), parent.SiafundOutput.Value)
			claims = append(claims, claim{id: in.ParentID.ClaimOutputID(), want: c, exact: ex, addr: in.ClaimAddress})
		}
		for _, fc := range txn.FileContracts {
			pool.Add(pool, V1Tax(n, h, bigC(fc.Payout)))
		}
	}
	for _, txn := range ev.Block.V2Transactions() {
		fees.Add(fees, bigC(txn.MinerFee))
		for _, in := range txn.SiafundInputs {
			c, ex := shares(pool, bigC(in.Parent.ClaimStart), in.Parent.SiafundOutput.Value)
			claims = append(claims, claim{id: in.Parent.ID.V2ClaimOutputID(), want: c, exact: ex, addr: in.ClaimAddress,
				legacyEphemeral: in.Parent.StateElement.LeafIndex == types.UnassignedLeafIndex})
		}
		for _, fc := range txn.FileContracts {
			pool.Add(pool, V2Tax(fc))
		}
		for _, res := range txn.FileContractResolutions {
			if r, ok := res.Resolution.(*types.V2FileContractRenewal); ok {
				pool.Add(pool, V2Tax(r.NewContract))
			}
		}
	}
	if pool.Cmp(bigC(ev.Next.SiafundTaxRevenue)) != 0 {
		l.R.Violate(l.Prop+"/tax-revenue", fmt.Sprintf("State.SiafundTaxRevenue = %v, taxes of the block's contracts recomputed from the definition give %v", bigC(ev.Next.SiafundTaxRevenue), pool), wit)
	}
	for _, c := range claims {
		e, ok := created[c.id]
		if !ok {
			l.R.Violate(l.Prop+"/claim/output-missing", "a siafund spend created no claim output with the expected ID", wit)
			continue
		}
		l.ClaimsPaid.Add(l.ClaimsPaid, bigC(e.SiacoinOutput.Value))
		if c.legacyEphemeral {
			l.R.Count("claims_on_legacy_ephemeral_parent_not_judged", 1)
			continue
		}
		switch paid := bigC(e.SiacoinOutput.Value); {
		case paid.Cmp(c.exact) == 0:
		case paid.Cmp(c.want) == 0:
			// the revenue since creation is not a multiple of the siafund count (v1 taxes are rounded to one, v2 taxes
			// are not) and the remainder is dropped before multiplying: no later claim can ever collect it
			l.R.Count("claims_paying_less_than_the_exact_share", 1)
			l.R.Violate(l.Prop+"/claim/value/revenue-not-a-multiple-of-the-siafund-count-remainder-dropped", fmt.Sprintf("claim pays %v, the holder's share of the tax collected since creation is %v: (revenue - claim start) mod 10000 is dropped before multiplying by the number of siafunds, and the outputs created by the spend start at the current revenue, so nobody can claim it later", paid, c.exact), wit)
		default:
			l.R.Violate(l.Prop+"/claim/value", fmt.Sprintf("claim pays %v, holder's share since creation is %v", paid, c.exact), wit)
		}
		if e.SiacoinOutput.Address != c.addr {
			l.R.Violate(l.Prop+"/claim/address", "claim output not sent to the claim address", wit)
		}
		if e.MaturityHeight != h+n.MaturityDelay {
			l.R.Violate(l.Prop+"/claim/maturity", fmt.Sprintf("claim output matures at %d, expected %d", e.MaturityHeight, h+n.MaturityDelay), wit)
		}
		l.R.Count("claims_checked", 1)
		if c.want.Sign() > 0 {
			l.R.Count("claims_checked_nonzero", 1)
		}
	}
	// miner payouts = reward + fees
	reward := Reward(n, h)
	pay := sumOuts(ev.Block.MinerPayouts)
	if pay.Cmp(new(big.Int).Add(reward, fees)) != 0 {
		l.R.Violate(l.Prop+"/miner-payout", fmt.Sprintf("miner payouts %v != scheduled reward %v + fees %v", pay, reward, fees), wit)
	}
	if fees.Sign() > 0 {
		l.R.Count("blocks_with_fees", 1)
	}
	sub := Subsidy(n, h, ev.Prev.FoundationSubsidyAddress)
	if sub.Sign() > 0 {
		l.R.Count("foundation_subsidies", 1)
	}
	l.Issued.Add(l.Issued, reward)
	l.Issued.Add(l.Issued, sub)
	l.identity(ev.Next, "after-apply", wit)
}

func (l *Ledger) identity(s consensus.State, when string, wit any) {
	poolLeft := new(big.Int).Sub(bigC(s.SiafundTaxRevenue), l.ClaimsPaid)
	lhs := new(big.Int).Add(l.Unspent, l.LockedV1)
	lhs.Add(lhs, l.LockedV2)
	lhs.Add(lhs, poolLeft)
	lhs.Add(lhs, l.Forfeited)
	if lhs.Cmp(l.Issued) != 0 {
		l.R.Violate(l.Prop+"/conservation/"+when, fmt.Sprintf("unspent %v + locked v1 %v + locked v2 %v + unclaimed pool %v + forfeited %v = %v, but genesis + scheduled subsidies = %v (difference %v)",
			l.Unspent, l.LockedV1, l.LockedV2, poolLeft, l.Forfeited, lhs, l.Issued, new(big.Int).Sub(lhs, l.Issued)), wit)
	}
	if poolLeft.Sign() < 0 {
		l.R.Violate(l.Prop+"/pool-overdrawn/"+when, fmt.Sprintf("claims paid exceed tax revenue by %v", new(big.Int).Neg(poolLeft)), wit)
	}
	if l.SF.Cmp(l.GenesisSF) != 0 {
		l.R.Violate(l.Prop+"/siafund-count/"+when, fmt.Sprintf("siafunds in unspent outputs: %v, genesis allocated %v", l.SF, l.GenesisSF), wit)
	}
	l.R.Count("conservation_identities_checked", 1)
}

// OnRevert restores the ledger as of the parent state (own snapshot) and
// re-checks the identity against the parent state.
func (l *Ledger) OnRevert(ev chaingen.RevertEvent) {
	sn := l.snaps[len(l.snaps)-1]
	l.snaps = l.snaps[:len(l.snaps)-1]
	l.Unspent, l.LockedV1, l.LockedV2, l.ClaimsPaid, l.Forfeited, l.Issued, l.SF = sn.Unspent, sn.LockedV1, sn.LockedV2, sn.ClaimsPaid, sn.Forfeited, sn.Issued, sn.SF
	l.identity(ev.Prev, "after-revert", map[string]any{"height": ev.Prev.Index.Height})
}

// CompareStore cross-checks the ledger totals with the client store (the sum
// of what a wallet/explorer following the updates believes exists).
func (l *Ledger) CompareStore(st *chaingen.Store, when string) {
	u := new(big.Int)
	for _, e := range st.SCEs {
		u.Add(u, bigC(e.SiacoinOutput.Value))
	}
	if u.Cmp(l.Unspent) != 0 {
		l.R.Violate(l.Prop+"/store-vs-ledger/siacoins/"+when, fmt.Sprintf("store holds %v in unspent outputs, ledger %v", u, l.Unspent), nil)
	}
	sf := new(big.Int)
	for _, e := range st.SFEs {
		sf.Add(sf, new(big.Int).SetUint64(e.SiafundOutput.Value))
	}
	if sf.Cmp(l.SF) != 0 {
		l.R.Violate(l.Prop+"/store-vs-ledger/siafunds/"+when, fmt.Sprintf("store holds %v SF, ledger %v", sf, l.SF), nil)
	}
	v1 := new(big.Int)
	for _, e := range st.FCEs {
		v1.Add(v1, sumOuts(e.FileContract.ValidProofOutputs))
	}
	if v1.Cmp(l.LockedV1) != 0 {
		l.R.Violate(l.Prop+"/store-vs-ledger/v1-contracts/"+when, fmt.Sprintf("store: %v locked in v1 contracts, ledger %v", v1, l.LockedV1), nil)
	}
	v2 := new(big.Int)
	for _, e := range st.V2FCEs {
		v2.Add(v2, bigC(e.V2FileContract.RenterOutput.Value))
		v2.Add(v2, bigC(e.V2FileContract.HostOutput.Value))
	}
	if v2.Cmp(l.LockedV2) != 0 {
		l.R.Violate(l.Prop+"/store-vs-ledger/v2-contracts/"+when, fmt.Sprintf("store: %v locked in v2 contracts, ledger %v", v2, l.LockedV2), nil)
	}
	l.R.Count("store_vs_ledger_comparisons", 1)
}

// Clone copies the ledger (for judging a hypothetical block without disturbing the main ledger).
func (l *Ledger) Clone() *Ledger {
	c := *l
	c.Unspent, c.LockedV1, c.LockedV2, c.ClaimsPaid, c.Forfeited, c.Issued = cp(l.Unspent), cp(l.LockedV1), cp(l.LockedV2), cp(l.ClaimsPaid), cp(l.Forfeited), cp(l.Issued)
	c.SF, c.GenesisSF = cp(l.SF), cp(l.GenesisSF)
	c.snaps = nil
	c.legacyMissed = map[types.FileContractID]bool{}
	for k, v := range l.legacyMissed {
		c.legacyMissed[k] = v
	}
	return &c
}

// shares returns the claim as whole revenue units per siafund times the number of siafunds, and the exact
// proportional share rounded down to a hasting.
func shares(pool, claimStart *big.Int, value uint64) (units, exact *big.Int) {
	delta := new(big.Int).Sub(pool, claimStart)
	units = new(big.Int).Quo(delta, big.NewInt(10000))
	units.Mul(units, new(big.Int).SetUint64(value))
	exact = new(big.Int).Mul(delta, new(big.Int).SetUint64(value))
	exact.Quo(exact, big.NewInt(10000))
	return
}
