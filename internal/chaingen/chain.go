package chaingen

import (
	"errors"
	"math/rand/v2"
	"sort"
	"time"

	"go.sia.tech/core/consensus"
	"go.sia.tech/core/types"
)

// ApplyEvent is delivered to OnApply after a block was accepted and applied.
type ApplyEvent struct {
	Prev, Next consensus.State
	Block      types.Block
	Supp       consensus.V1BlockSupplement
	AU         consensus.ApplyUpdate
	Kinds      []string
	Ancestor   time.Time
}

// RevertEvent is delivered to OnRevert after the tip was reverted.
type RevertEvent struct {
	Prev, Reverted consensus.State // Prev = state now current; Reverted = the state that was the tip
	Block          types.Block
	Supp           consensus.V1BlockSupplement
	RU             consensus.RevertUpdate
}

// V1ContractInfo remembers how to sign for a v1 contract's unlock hash.
type V1ContractInfo struct {
	UC           types.UnlockConditions
	Renter, Host types.PrivateKey
}

// Chain is a generated chain with its client store and generator state.
type Chain struct {
	Net *Net
	W   *Wallet
	S   *Store
	Rng *rand.Rand

	States []consensus.State // States[h] is the state after the block at height h
	Blocks []types.Block
	Supps  []consensus.V1BlockSupplement
	Kinds  [][]string

	Files   map[types.Hash256][]byte          // contract data by Merkle root
	V1Infos map[types.Address]*V1ContractInfo // by contract unlock hash

	DevOld, DevNew *Lock

	// OnAccepted is called after ValidateBlock accepted a block and before it is
	// applied (the store is still at the parent state): the place to try variants.
	OnAccepted func(cs consensus.State, b types.Block, bs consensus.V1BlockSupplement, kinds []string)
	// OnRejected is called when ValidateBlock rejected a block the generator
	// built as valid (the store is at the tip; the block is then dropped).
	OnRejected func(cs consensus.State, b types.Block, bs consensus.V1BlockSupplement, kinds []string, err error)
	OnApply    func(ApplyEvent)
	OnRevert   func(RevertEvent)
	// OnStoreApplied is called after the store has processed the apply (for
	// checks that inspect the store against the new state).
	OnStoreApplied  func(ApplyEvent)
	OnStoreReverted func(RevertEvent)

	Stats map[string]int
	// WireBlocks offers every generated block as a peer would receive it: decoded from its own binary encoding
	// (the payout of a v1 revision is not transmitted and arrives as the all-ones sentinel).
	WireBlocks bool
	// NoStaleEphemeralProofs keeps in-block parents free of attached Merkle proofs.
	NoStaleEphemeralProofs bool
	// NoLegacyEphemeralSF disables spends of ephemeral siafund parents below the
	// ephemeral-output fix height (their claimed ClaimStart is not checked by
	// consensus in that window; C01 excludes it by its quantifier).
	NoLegacyEphemeralSF bool
	GenesisEvent        ApplyEvent
	LastReject          *Rejected

	GenesisSC types.Currency // total siacoins allocated at genesis
	V2Reach   bool           // whether the network can reach v2 heights in a run
}

// Tip returns the current tip state.
func (c *Chain) Tip() consensus.State { return c.States[len(c.States)-1] }

// Height returns the height of the tip.
func (c *Chain) Height() uint64 { return uint64(len(c.States) - 1) }

// BlockIDAt returns the ID of the block at height h on the current chain.
func (c *Chain) BlockIDAt(h uint64) (types.BlockID, bool) {
	if h >= uint64(len(c.States)) {
		return types.BlockID{}, false
	}
	return c.States[h].Index.ID, true
}

// AncestorTimestamp is the timestamp core's retargeting needs for a child of
// the state at the given height: the block AncestorDepth (1000) blocks before
// the child, or genesis.
func (c *Chain) AncestorTimestamp(parentHeight uint64) time.Time {
	child := parentHeight + 1
	var h uint64
	if child > 1000 {
		h = child - 1000
	}
	return c.Blocks[h].Timestamp
}

// Median computes the median of the last (up to) 11 timestamps of s,
// independently of the library.
func Median(s consensus.State) time.Time {
	n := int(s.Index.Height + 1)
	if n > 11 {
		n = 11
	}
	ts := make([]time.Time, n)
	copy(ts, s.PrevTimestamps[:n])
	sort.Slice(ts, func(i, j int) bool { return ts[i].Before(ts[j]) })
	if n%2 == 1 {
		return ts[n/2]
	}
	// the true midpoint (time.Duration would saturate beyond 292 years); header timestamps are whole seconds
	l, r := ts[n/2-1], ts[n/2]
	d := r.Unix() - l.Unix()
	return time.Unix(l.Unix()+d/2, (d%2)*500000000+int64(l.Nanosecond())).In(l.Location())
}

// NewChain creates the wallet, the genesis block for net and applies it.
func NewChain(net *Net, rng *rand.Rand) *Chain {
	c := &Chain{Net: net, Rng: rng, W: NewWallet(rng, 6), S: NewStore(), Files: map[types.Hash256][]byte{}, V1Infos: map[types.Address]*V1ContractInfo{}, Stats: map[string]int{}}
	n := net.N
	c.V2Reach = n.HardforkV2.AllowHeight < never
	n.HardforkFoundation.PrimaryAddress = c.W.StdV1(c.W.Keys[0]).Addr
	n.HardforkFoundation.FailsafeAddress = c.W.StdV1(c.W.Keys[1]).Addr
	c.DevOld = c.W.StdV1(c.W.Keys[2])
	c.DevNew = c.W.StdV1(c.W.Keys[3])
	n.HardforkDevAddr.OldAddress = c.DevOld.Addr
	n.HardforkDevAddr.NewAddress = c.DevNew.Addr

	var gtxn types.Transaction
	nOut := 10 + rng.IntN(8)
	for i := 0; i < nOut; i++ {
		l := c.W.PickLock(rng, c.V2Reach, 0, genesisTime)
		v := types.Siacoins(uint32(1000 + rng.IntN(1000000))).Add(types.NewCurrency64(rng.Uint64N(1 << 40)))
		gtxn.SiacoinOutputs = append(gtxn.SiacoinOutputs, types.SiacoinOutput{Value: v, Address: l.Addr})
		c.GenesisSC = c.GenesisSC.Add(v)
	}
	// outputs at the Foundation addresses so Foundation updates are possible early
	for _, a := range []types.Address{n.HardforkFoundation.PrimaryAddress, n.HardforkFoundation.FailsafeAddress} {
		v := types.Siacoins(5000)
		gtxn.SiacoinOutputs = append(gtxn.SiacoinOutputs, types.SiacoinOutput{Value: v, Address: a})
		gtxn.SiacoinOutputs = append(gtxn.SiacoinOutputs, types.SiacoinOutput{Value: v, Address: a})
		c.GenesisSC = c.GenesisSC.Add(v).Add(v)
	}
	sfParts := []uint64{1, 999, 1000, 3000, 5000}
	if net.SFParts != nil {
		sfParts = net.SFParts
	}
	for i, v := range sfParts {
		var l *Lock
		if i == 2 {
			l = c.DevOld
		} else {
			l = c.W.PickLock(rng, c.V2Reach, 0, genesisTime)
		}
		gtxn.SiafundOutputs = append(gtxn.SiafundOutputs, types.SiafundOutput{Value: v, Address: l.Addr})
	}
	genesis := types.Block{Timestamp: genesisTime, Transactions: []types.Transaction{gtxn}}
	bs := consensus.V1BlockSupplement{Transactions: make([]consensus.V1TransactionSupplement, 1)}
	if n.HardforkV2.RequireHeight == 0 {
		// a v2-from-genesis network cannot carry a v1 transaction (the supplement must be empty)
		genesis = types.Block{Timestamp: genesisTime, V2: &types.V2BlockData{Height: 0, Transactions: []types.V2Transaction{{SiacoinOutputs: gtxn.SiacoinOutputs, SiafundOutputs: gtxn.SiafundOutputs}}}}
		bs = consensus.V1BlockSupplement{}
	}
	gs := n.GenesisState()
	cs, au := consensus.ApplyBlock(gs, genesis, bs, time.Time{})
	c.GenesisEvent = ApplyEvent{Prev: gs, Next: cs, Block: genesis, Supp: bs, AU: au, Kinds: []string{"genesis"}}
	c.S.Apply(au)
	c.States = []consensus.State{cs}
	c.Blocks = []types.Block{genesis}
	c.Supps = []consensus.V1BlockSupplement{bs}
	c.Kinds = [][]string{{"genesis"}}
	return c
}

// ErrRejected wraps a ValidateBlock rejection.
var ErrRejected = errors.New("block rejected")

// Offer validates b against the tip with the real ValidateBlock and, if
// accepted, applies it, feeds the store and fires the hooks.
func (c *Chain) Offer(b types.Block, bs consensus.V1BlockSupplement, kinds []string) error {
	cs := c.Tip()
	if err := consensus.ValidateBlock(cs, b, bs); err != nil {
		return err
	}
	if c.OnAccepted != nil {
		c.OnAccepted(cs, b, bs, kinds)
	}
	anc := c.AncestorTimestamp(cs.Index.Height)
	next, au := consensus.ApplyBlock(cs, b, bs, anc)
	ev := ApplyEvent{Prev: cs, Next: next, Block: b, Supp: bs, AU: au, Kinds: kinds, Ancestor: anc}
	if c.OnApply != nil {
		c.OnApply(ev)
	}
	c.S.Apply(au)
	c.States = append(c.States, next)
	c.Blocks = append(c.Blocks, b)
	c.Supps = append(c.Supps, bs)
	c.Kinds = append(c.Kinds, kinds)
	if c.OnStoreApplied != nil {
		c.OnStoreApplied(ev)
	}
	return nil
}

// RevertTip reverts the tip block through the real RevertBlock and the store.
func (c *Chain) RevertTip() {
	h := len(c.States) - 1
	if h == 0 {
		panic("cannot revert genesis")
	}
	prev := c.States[h-1]
	b, bs := c.Blocks[h], c.Supps[h]
	ru := consensus.RevertBlock(prev, b, bs)
	ev := RevertEvent{Prev: prev, Reverted: c.States[h], Block: b, Supp: bs, RU: ru}
	if c.OnRevert != nil {
		c.OnRevert(ev)
	}
	c.S.Revert(ru, prev.Elements.NumLeaves)
	c.States = c.States[:h]
	c.Blocks = c.Blocks[:h]
	c.Supps = c.Supps[:h]
	c.Kinds = c.Kinds[:h]
	if c.OnStoreReverted != nil {
		c.OnStoreReverted(ev)
	}
}

// Grow builds and offers up to n blocks; it returns how many were accepted. A
// generated block the library rejects is counted in Stats["gen_rejected"] with
// its error class and skipped (not a verdict by itself).
func (c *Chain) Grow(n int, p Plan) int {
	ok := 0
	for i := 0; i < n; i++ {
		b, bs, kinds, err := c.BuildBlock(p)
		if err != nil {
			c.Stats["build_skipped:"+err.Error()]++
			continue
		}
		if c.WireBlocks {
			if wb, ok := WireBlock(b); ok {
				b = wb
			}
		}
		if err := c.Offer(b, bs, kinds); err != nil {
			c.Stats["gen_rejected"]++
			c.Stats["gen_rejected:"+NormErr(err)]++
			c.LastReject = &Rejected{Block: b, Supp: bs, Kinds: kinds, Err: err}
			if c.OnRejected != nil {
				c.OnRejected(c.Tip(), b, bs, kinds, err)
			}
			// fall back to an empty block so the chain keeps growing
			eb, ebs, ek, err2 := c.BuildBlock(Plan{MaxTxns: 0, TimeMode: p.TimeMode})
			if err2 == nil && c.Offer(eb, ebs, ek) == nil {
				ok++
			}
			continue
		}
		ok++
	}
	return ok
}

// Rejected records the last generated block the library rejected.
type Rejected struct {
	Block types.Block
	Supp  consensus.V1BlockSupplement
	Kinds []string
	Err   error
}

// NewBareChain applies the given genesis block on net without creating a
// wallet-driven allocation (used by enumerators that build their own blocks).
func NewBareChain(net *Net, genesis types.Block, rng *rand.Rand) *Chain {
	c := &Chain{Net: net, Rng: rng, W: NewWallet(rng, 2), S: NewStore(), Files: map[types.Hash256][]byte{}, V1Infos: map[types.Address]*V1ContractInfo{}, Stats: map[string]int{}}
	bs := consensus.V1BlockSupplement{Transactions: make([]consensus.V1TransactionSupplement, len(genesis.Transactions))}
	gs := net.N.GenesisState()
	cs, au := consensus.ApplyBlock(gs, genesis, bs, time.Time{})
	c.GenesisEvent = ApplyEvent{Prev: gs, Next: cs, Block: genesis, Supp: bs, AU: au, Kinds: []string{"genesis"}}
	c.S.Apply(au)
	c.States = []consensus.State{cs}
	c.Blocks = []types.Block{genesis}
	c.Supps = []consensus.V1BlockSupplement{bs}
	c.Kinds = [][]string{{"genesis"}}
	return c
}

// GenesisTime is the timestamp of every generated genesis block.
func GenesisTime() time.Time { return genesisTime }

// SetGenesisTime moves the instant at which every generated chain starts (the
// network's Oak genesis timestamp moves along). Not safe for concurrent use;
// checks call it between chains.
func SetGenesisTime(t time.Time) { genesisTime = t.UTC() }

// BaseNet returns the default network parameters (all forks at height 0
// unless changed by the caller).
func BaseNet(name string) *consensus.Network { return baseNet(name) }
