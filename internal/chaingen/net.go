// Package chaingen is the valid-chain workload generator and the client store
// model shared by the chain-history checks. It plays the role coreutils/chain
// plays in production, using only core's public API.
package chaingen

import (
	"fmt"
	"math/rand/v2"
	"time"

	"go.sia.tech/core/consensus"
	"go.sia.tech/core/types"
)

// Net is a generated network configuration.
type Net struct {
	Name   string
	Family string
	N      *consensus.Network
	// SFParts, when set, replaces the genesis siafund allocation (1+999+1000+3000+5000 = 10000).
	SFParts []uint64
}

var genesisTime = time.Unix(1700000000, 0).UTC()

func baseNet(name string) *consensus.Network {
	n := &consensus.Network{
		Name:            name,
		InitialCoinbase: types.Siacoins(300000),
		MinimumCoinbase: types.Siacoins(30000),
		InitialTarget:   types.BlockID{0xFF, 0xFF, 0xFF, 0xFF, 0xFF, 0xFF, 0xFF, 0xFF, 0xFF, 0xFF, 0xFF, 0xFF, 0xFF, 0xFF, 0xFF, 0xFF, 0xFF, 0xFF, 0xFF, 0xFF, 0xFF, 0xFF, 0xFF, 0xFF, 0xFF, 0xFF, 0xFF, 0xFF, 0xFF, 0xFF, 0xFF, 0xFF},
		BlockInterval:   10 * time.Minute,
		MaturityDelay:   3,
	}
	n.HardforkOak.GenesisTimestamp = genesisTime
	n.HardforkASIC.OakTime = 10000 * time.Second
	n.HardforkASIC.OakTarget = n.InitialTarget
	n.HardforkASIC.NonceFactor = 1009
	return n
}

const never = uint64(1) << 40

// setHeights assigns the eleven fork heights in mainnet order from a slice.
func setHeights(n *consensus.Network, h []uint64) {
	n.HardforkDevAddr.Height = h[0]
	n.HardforkTax.Height = h[1]
	n.HardforkStorageProof.Height = h[2]
	n.HardforkOak.Height = h[3]
	n.HardforkOak.FixHeight = h[4]
	n.HardforkASIC.Height = h[5]
	n.HardforkFoundation.Height = h[6]
	n.HardforkV2.AllowHeight = h[7]
	n.HardforkV2.EphemeralOutputHeight = h[8]
	n.HardforkV2.RequireHeight = h[9]
	n.HardforkV2.FinalCutHeight = h[10]
}

// GenNet draws one network of the given family. The Foundation addresses are
// filled in by the caller (they are actor addresses).
func GenNet(rng *rand.Rand, family string, idx int) *Net {
	n := baseNet(fmt.Sprintf("%s-%d", family, idx))
	intervals := []time.Duration{10 * time.Minute, time.Hour, 12 * time.Hour, 24 * time.Hour, 10 * time.Second, time.Second}
	delays := []uint64{0, 1, 2, 3, 5}
	switch family {
	case "compressed":
		h := make([]uint64, 11)
		cur := uint64(1 + rng.IntN(3))
		for i := range h {
			h[i] = cur
			gap := uint64(2 + rng.IntN(5))
			if i >= 6 {
				gap = uint64(6 + rng.IntN(12))
			}
			cur += gap
		}
		setHeights(n, h)
		n.BlockInterval = intervals[rng.IntN(4)]
		n.MaturityDelay = delays[rng.IntN(len(delays))]
	case "v1only":
		h := make([]uint64, 11)
		cur := uint64(1 + rng.IntN(3))
		for i := 0; i < 7; i++ {
			h[i] = cur
			cur += uint64(2 + rng.IntN(6))
		}
		for i := 7; i < 11; i++ {
			h[i] = never + uint64(i)
		}
		setHeights(n, h)
		n.BlockInterval = intervals[rng.IntN(4)]
		n.MaturityDelay = delays[rng.IntN(len(delays))]
	case "v2genesis":
		h := make([]uint64, 11)
		allow := uint64(rng.IntN(2))
		h[7] = allow
		h[8] = allow + uint64(rng.IntN(12))
		h[9] = allow + uint64(rng.IntN(6))
		h[10] = h[9] + uint64(rng.IntN(20))
		setHeights(n, h)
		n.BlockInterval = intervals[rng.IntN(len(intervals))]
		n.MaturityDelay = delays[rng.IntN(len(delays))]
	case "scrambled":
		h := make([]uint64, 11)
		for i := range h {
			h[i] = uint64(rng.IntN(45))
		}
		// keep the v2 window non-degenerate often enough to have a mixed era
		if rng.IntN(3) > 0 {
			h[9] = h[7] + uint64(rng.IntN(40))
			h[10] = h[9] + uint64(rng.IntN(30))
		}
		// domain restriction: the v2 phases are ordered (allow <= require <= final cut);
		// the final cut zeroes the legacy target fields that the pre-allow rules divide by
		if h[9] < h[7] {
			h[9] = h[7]
		}
		if h[10] < h[9] {
			h[10] = h[9]
		}
		setHeights(n, h)
		n.BlockInterval = intervals[rng.IntN(len(intervals))]
		n.MaturityDelay = delays[rng.IntN(len(delays))]
		if rng.IntN(2) == 0 {
			n.HardforkASIC.NonceFactor = 1
		}
		if rng.IntN(2) == 0 {
			n.InitialCoinbase = types.Siacoins(uint32(40 + rng.IntN(30)))
			n.MinimumCoinbase = types.Siacoins(uint32(5 + rng.IntN(30)))
		}
	case "legacywin":
		// v2 from the start with a long legacy (pre ephemeral-output fix) window
		h := make([]uint64, 11)
		h[7], h[8], h[9], h[10] = 1, uint64(60+rng.IntN(40)), uint64(2+rng.IntN(10)), uint64(120+rng.IntN(40))
		setHeights(n, h)
		n.MaturityDelay = delays[rng.IntN(len(delays))]
	case "testnet":
		// the literal parameters of the repository's own tests, with the v2
		// window pulled into reach
		n.InitialCoinbase = types.Siacoins(300000)
		n.MinimumCoinbase = types.Siacoins(300000)
		n.InitialTarget = types.BlockID{0xFF}
		n.BlockInterval = 10 * time.Millisecond
		n.MaturityDelay = 5
		setHeights(n, []uint64{1, 2, 3, 4, 5, 6, 7, 30, 0, 60, 80})
		n.HardforkASIC.OakTarget = n.InitialTarget
	default:
		panic("unknown family " + family)
	}
	return &Net{Name: n.Name, Family: family, N: n}
}

// Families lists the network families.
var Families = []string{"compressed", "v1only", "v2genesis", "scrambled", "testnet"}

// Era names the rule era of a child height, for coverage accounting.
func Era(n *consensus.Network, childHeight uint64) string {
	switch {
	case childHeight >= n.HardforkV2.RequireHeight:
		if childHeight >= n.HardforkV2.FinalCutHeight {
			return "v2-finalcut"
		}
		return "v2-only"
	case childHeight >= n.HardforkV2.AllowHeight:
		return "mixed"
	case childHeight >= n.HardforkFoundation.Height:
		return "v1-foundation"
	case childHeight >= n.HardforkASIC.Height:
		return "v1-asic"
	case childHeight >= n.HardforkOak.Height:
		return "v1-oak"
	case childHeight >= n.HardforkStorageProof.Height:
		return "v1-sproof"
	case childHeight >= n.HardforkTax.Height:
		return "v1-tax"
	default:
		return "v1-early"
	}
}
