package chaingen

import (
	"bytes"

	"go.sia.tech/core/consensus"
	"go.sia.tech/core/types"
)

// CloneV1 deep-copies a v1 transaction through its binary codec.
func CloneV1(t types.Transaction) types.Transaction {
	var buf bytes.Buffer
	e := types.NewEncoder(&buf)
	t.EncodeTo(e)
	e.Flush()
	var out types.Transaction
	out.DecodeFrom(types.NewBufDecoder(buf.Bytes()))
	// the codec sets a sentinel payout on revisions; keep the original values
	for i := range out.FileContractRevisions {
		out.FileContractRevisions[i].FileContract.Payout = t.FileContractRevisions[i].FileContract.Payout
	}
	return out
}

// CloneV2 deep-copies a v2 transaction (DeepCopy plus the parts DeepCopy is
// not relied on for: renewal pointer, foundation address, policies).
func CloneV2(t types.V2Transaction) types.V2Transaction {
	var buf bytes.Buffer
	e := types.NewEncoder(&buf)
	t.EncodeTo(e)
	e.Flush()
	var out types.V2Transaction
	out.DecodeFrom(types.NewBufDecoder(buf.Bytes()))
	return out
}

// CloneBlock deep-copies a block.
func CloneBlock(b types.Block) types.Block {
	out := b
	out.MinerPayouts = append([]types.SiacoinOutput(nil), b.MinerPayouts...)
	out.Transactions = nil
	for _, t := range b.Transactions {
		out.Transactions = append(out.Transactions, CloneV1(t))
	}
	if b.V2 != nil {
		v2 := *b.V2
		v2.Transactions = nil
		for _, t := range b.V2.Transactions {
			v2.Transactions = append(v2.Transactions, CloneV2(t))
		}
		out.V2 = &v2
	}
	return out
}

// WireBlock returns b as a peer receives it: decoded from its own block encoding (v2 blocks in multiproof form; the
// payout of a v1 revision arrives as the not-transmitted sentinel). ok=false if the encoding does not decode.
func WireBlock(b types.Block) (out types.Block, ok bool) {
	defer func() {
		if recover() != nil {
			ok = false
		}
	}()
	var buf bytes.Buffer
	e := types.NewEncoder(&buf)
	if b.V2 != nil {
		types.V2Block(b).EncodeTo(e)
	} else {
		types.V1Block(b).EncodeTo(e)
	}
	e.Flush()
	d := types.NewBufDecoder(buf.Bytes())
	if b.V2 != nil {
		(*types.V2Block)(&out).DecodeFrom(d)
	} else {
		(*types.V1Block)(&out).DecodeFrom(d)
	}
	return out, d.Err() == nil
}

// TryVariant re-seals the variant block (payout = reward + fees, v2 height and
// commitment, proof of work) on the tip, rebuilds its supplement from the
// store and returns the verdict of the real ValidateBlock. The store must be
// at the tip (call it before the original block is applied).
func (c *Chain) TryVariant(b *types.Block) (error, consensus.V1BlockSupplement) {
	cs := c.Tip()
	miner := types.VoidAddress
	if len(b.MinerPayouts) > 0 {
		miner = b.MinerPayouts[0].Address
	}
	if b.V2 == nil && needsV2(b) {
		b.V2 = &types.V2BlockData{}
	}
	if err := c.Seal(cs, b, miner, 1, nil); err != nil {
		return errSealFailed{err}, consensus.V1BlockSupplement{}
	}
	bs := c.SupplementFor(*b)
	return consensus.ValidateBlock(cs, *b, bs), bs
}

type errSealFailed struct{ error }

// IsSealFailure reports whether TryVariant could not even seal the block
// (inconclusive, not a verdict).
func IsSealFailure(err error) bool { _, ok := err.(errSealFailed); return ok }

func needsV2(b *types.Block) bool { return false }

// NewV1Spend builds a signed v1 transaction spending the given output
// entirely to dest (the parent may be an accumulator element or an output
// created earlier in the block).
func (c *Chain) NewV1Spend(cs consensus.State, id types.SiacoinOutputID, value types.Currency, l *Lock, dest types.Address) types.Transaction {
	txn := types.Transaction{
		SiacoinInputs:  []types.SiacoinInput{{ParentID: id, UnlockConditions: *l.UC}},
		SiacoinOutputs: []types.SiacoinOutput{{Value: value, Address: dest}},
	}
	c.SignV1(cs, &txn, nil)
	return txn
}

// NewV2Spend builds a signed v2 transaction spending el entirely to dest.
func (c *Chain) NewV2Spend(cs consensus.State, el types.SiacoinElement, l *Lock, dest types.Address) types.V2Transaction {
	txn := types.V2Transaction{
		SiacoinInputs:  []types.V2SiacoinInput{{Parent: el.Copy(), SatisfiedPolicy: types.SatisfiedPolicy{Policy: l.Policy}}},
		SiacoinOutputs: []types.SiacoinOutput{{Value: el.SiacoinOutput.Value, Address: dest}},
	}
	c.SignV2(cs, &txn, nil)
	return txn
}

// NewV1SFSpend / NewV2SFSpend: same for siafund outputs.
func (c *Chain) NewV1SFSpend(cs consensus.State, id types.SiafundOutputID, value uint64, uc types.UnlockConditions, dest types.Address) types.Transaction {
	txn := types.Transaction{
		SiafundInputs:  []types.SiafundInput{{ParentID: id, UnlockConditions: uc, ClaimAddress: dest}},
		SiafundOutputs: []types.SiafundOutput{{Value: value, Address: dest}},
	}
	c.SignV1(cs, &txn, nil)
	return txn
}

func (c *Chain) NewV2SFSpend(cs consensus.State, el types.SiafundElement, l *Lock, dest types.Address) types.V2Transaction {
	txn := types.V2Transaction{
		SiafundInputs:  []types.V2SiafundInput{{Parent: el.Copy(), ClaimAddress: dest, SatisfiedPolicy: types.SatisfiedPolicy{Policy: l.Policy}}},
		SiafundOutputs: []types.SiafundOutput{{Value: el.SiafundOutput.Value, Address: dest}},
	}
	c.SignV2(cs, &txn, nil)
	return txn
}

// V1MidDiffs returns, in the order the library's MidState records them, the
// element diffs produced by the block's v1 transactions alone (the diff lists
// of an apply of the block without its v2 part, cut where the block-level
// effects - miner payouts, subsidy, expirations - begin). The position of an
// element in its list is the index MidState keeps for its ID.
func (c *Chain) V1MidDiffs(b types.Block) (sc []consensus.SiacoinElementDiff, sf []consensus.SiafundElementDiff, fc []consensus.FileContractElementDiff) {
	pre := CloneBlock(b)
	pre.V2 = nil
	bs := c.SupplementFor(pre)
	_, au := consensus.ApplyBlock(c.Tip(), pre, bs, pre.Timestamp)
	scIDs, sfIDs, fcIDs := map[types.SiacoinOutputID]bool{}, map[types.SiafundOutputID]bool{}, map[types.FileContractID]bool{}
	for i := range pre.Transactions {
		t := &pre.Transactions[i]
		for _, in := range t.SiacoinInputs {
			scIDs[in.ParentID] = true
		}
		for j := range t.SiacoinOutputs {
			scIDs[t.SiacoinOutputID(j)] = true
		}
		for _, in := range t.SiafundInputs {
			sfIDs[in.ParentID] = true
			scIDs[in.ParentID.ClaimOutputID()] = true
		}
		for j := range t.SiafundOutputs {
			sfIDs[t.SiafundOutputID(j)] = true
		}
		for j := range t.FileContracts {
			fcIDs[t.FileContractID(j)] = true
		}
		for _, r := range t.FileContractRevisions {
			fcIDs[r.ParentID] = true
		}
		for _, p := range t.StorageProofs {
			fcIDs[p.ParentID] = true
			for j := 0; j < 8; j++ {
				scIDs[p.ParentID.ValidOutputID(j)] = true
			}
		}
	}
	for _, d := range au.SiacoinElementDiffs() {
		if !scIDs[d.SiacoinElement.ID] {
			break
		}
		sc = append(sc, d)
	}
	for _, d := range au.SiafundElementDiffs() {
		if !sfIDs[d.SiafundElement.ID] {
			break
		}
		sf = append(sf, d)
	}
	for _, d := range au.FileContractElementDiffs() {
		if !fcIDs[d.FileContractElement.ID] {
			break
		}
		fc = append(fc, d)
	}
	return
}
