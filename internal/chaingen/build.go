package chaingen

import (
	"bytes"
	"errors"
	"math/rand/v2"
	"os"
	"regexp"
	"time"

	"go.sia.tech/core/consensus"
	"go.sia.tech/core/types"
	"verif/internal/refmodel"
)

// Plan steers block construction.
type Plan struct {
	MaxTxns  int      // upper bound of transactions attempted (0 = empty block)
	TimeMode string   // "schedule" (default), "fast", "slow", "jitter", "const"
	Only     []string // restrict to these kinds (nil = all allowed kinds)
	Weights  map[string]int
}

var (
	reAmt = regexp.MustCompile(`[0-9][0-9.]* (H|pS|nS|uS|mS|SC|KS|MS|GS|TS|SF)\b`)
	reHex = regexp.MustCompile(`[0-9a-f]{16,}`)
	reNum = regexp.MustCompile(`[0-9][0-9.,]*( ?(H|pS|nS|uS|mS|SC|KS|MS|GS|TS|SF)\b)?`)
)

// NormErr normalises an error to its class (IDs and numbers stripped).
func NormErr(err error) string {
	if err == nil {
		return ""
	}
	s := reAmt.ReplaceAllString(err.Error(), "AMT")
	s = reHex.ReplaceAllString(s, "#")
	s = reNum.ReplaceAllString(s, "N")
	if len(s) > 160 {
		s = s[:160]
	}
	return s
}

// bctx is the in-block construction context.
type bctx struct {
	c        *Chain
	cs       consensus.State
	h        uint64 // child height
	median   time.Time
	forceTS  *time.Time                                  // explicit block timestamp (scripted blocks)
	formedV1 map[types.FileContractID]types.FileContract // v1 contracts formed earlier in this block
	rng      *rand.Rand

	usedSC    map[types.SiacoinOutputID]bool
	usedSF    map[types.SiafundOutputID]bool
	fcTouched map[types.FileContractID]string // "revised" | "resolved"
	curV1     map[types.FileContractID]types.FileContract
	curV2     map[types.FileContractID]types.V2FileContract

	v1    []types.Transaction
	v2    []types.V2Transaction
	kinds []string

	// outputs created in this block that later transactions may spend
	newSC    []ephSC
	newSF    []ephSF
	forceEph bool
}

type ephSC struct {
	el   types.SiacoinElement // LeafIndex unassigned
	byV1 bool
}
type ephSF struct {
	el types.SiafundElement
}

func (x *bctx) v1ok() bool { return x.h < x.c.Net.N.HardforkV2.RequireHeight }
func (x *bctx) v2ok() bool { return x.h >= x.c.Net.N.HardforkV2.AllowHeight }

func (x *bctx) dest() *Lock {
	return x.c.W.PickLock(x.rng, x.c.V2Reach, x.h, x.cs.PrevTimestamps[0])
}

// randAmount returns a value in [1, max] skewed to "ugly" (non-round) numbers.
func randAmount(rng *rand.Rand, max types.Currency) types.Currency {
	if max.IsZero() {
		return max
	}
	// pick a random fraction
	num := rng.Uint64N(1000) + 1
	v := max.Div64(1000).Mul64(num)
	if v.IsZero() {
		v = types.NewCurrency64(1)
	}
	if rng.IntN(3) == 0 {
		d := types.NewCurrency64(rng.Uint64N(1 << 20))
		if v.Cmp(d) > 0 {
			v = v.Sub(d)
		}
	}
	if v.Cmp(max) > 0 {
		v = max
	}
	if v.IsZero() {
		v = types.NewCurrency64(1)
	}
	return v
}

// splitAmount splits total into n non-zero parts (n is reduced if total is too small).
func splitAmount(rng *rand.Rand, total types.Currency, n int) []types.Currency {
	var out []types.Currency
	rest := total
	for i := 0; i < n-1; i++ {
		if rest.Cmp(types.NewCurrency64(2)) < 0 {
			break
		}
		v := randAmount(rng, rest.Sub(types.NewCurrency64(1)))
		out = append(out, v)
		rest = rest.Sub(v)
	}
	if !rest.IsZero() {
		out = append(out, rest)
	}
	return out
}

// ---------------------------------------------------------------- input selection

type scIn struct {
	el   types.SiacoinElement
	lock *Lock
	eph  bool
}

func (x *bctx) pickSCv1() (scIn, bool) {
	// sometimes spend an output created earlier in this block by a v1 transaction
	if len(x.newSC) > 0 && x.rng.IntN(3) == 0 {
		for _, i := range x.rng.Perm(len(x.newSC)) {
			e := x.newSC[i]
			l := x.c.W.Locks[e.el.SiacoinOutput.Address]
			if e.byV1 && !x.usedSC[e.el.ID] && l != nil && l.SpendableV1(x.h) && e.el.MaturityHeight <= x.h {
				x.usedSC[e.el.ID] = true
				return scIn{el: e.el, lock: l, eph: true}, true
			}
		}
	}
	e, ok := x.c.S.PickSC(x.rng, func(id types.SiacoinOutputID, e types.SiacoinElement) bool {
		l := x.c.W.Locks[e.SiacoinOutput.Address]
		return !x.usedSC[id] && l != nil && l.SpendableV1(x.h) && e.MaturityHeight <= x.h && !e.SiacoinOutput.Value.IsZero()
	})
	if !ok {
		return scIn{}, false
	}
	x.usedSC[e.ID] = true
	return scIn{el: e, lock: x.c.W.Locks[e.SiacoinOutput.Address]}, true
}

func (x *bctx) pickSCv2() (scIn, bool) {
	ph := x.cs.Index.Height
	if len(x.newSC) > 0 && (x.forceEph || x.rng.IntN(3) == 0) {
		for _, i := range x.rng.Perm(len(x.newSC)) {
			e := x.newSC[i]
			l := x.c.W.Locks[e.el.SiacoinOutput.Address]
			if !x.usedSC[e.el.ID] && l != nil && l.SpendableV2(ph, x.median) && e.el.MaturityHeight <= x.h {
				x.usedSC[e.el.ID] = true
				return scIn{el: e.el.Copy(), lock: l, eph: true}, true
			}
		}
	}
	e, ok := x.c.S.PickSC(x.rng, func(id types.SiacoinOutputID, e types.SiacoinElement) bool {
		l := x.c.W.Locks[e.SiacoinOutput.Address]
		return !x.usedSC[id] && l != nil && l.SpendableV2(ph, x.median) && e.MaturityHeight <= x.h && !e.SiacoinOutput.Value.IsZero()
	})
	if !ok {
		return scIn{}, false
	}
	x.usedSC[e.ID] = true
	return scIn{el: e.Copy(), lock: x.c.W.Locks[e.SiacoinOutput.Address]}, true
}

// fundV1 gathers v1 inputs worth at least need (plus possibly more); returns inputs and total.
func (x *bctx) fundV1(need types.Currency, maxInputs int) ([]scIn, types.Currency, bool) {
	var ins []scIn
	var total types.Currency
	for len(ins) < maxInputs {
		in, ok := x.pickSCv1()
		if !ok {
			break
		}
		ins = append(ins, in)
		total = total.Add(in.el.SiacoinOutput.Value)
		if total.Cmp(need) >= 0 && x.rng.IntN(2) == 0 {
			break
		}
	}
	if len(ins) == 0 || total.Cmp(need) < 0 {
		for _, in := range ins {
			delete(x.usedSC, in.el.ID)
		}
		return nil, types.ZeroCurrency, false
	}
	return ins, total, true
}

func (x *bctx) fundV2(need types.Currency, maxInputs int) ([]scIn, types.Currency, bool) {
	var ins []scIn
	var total types.Currency
	for len(ins) < maxInputs {
		in, ok := x.pickSCv2()
		if !ok {
			break
		}
		ins = append(ins, in)
		total = total.Add(in.el.SiacoinOutput.Value)
		if total.Cmp(need) >= 0 && x.rng.IntN(2) == 0 {
			break
		}
	}
	if len(ins) == 0 || total.Cmp(need) < 0 {
		for _, in := range ins {
			delete(x.usedSC, in.el.ID)
		}
		return nil, types.ZeroCurrency, false
	}
	return ins, total, true
}

// ---------------------------------------------------------------- v1 signing

// SignV1 (re)creates every signature of txn. For each siacoin input, siafund
// input and revision the lock is looked up by the unlock hash of the revealed
// conditions. partial selects explicit covered fields instead of the
// whole-transaction flag for that parent.
func (c *Chain) SignV1(cs consensus.State, txn *types.Transaction, partial func(parent types.Hash256) bool) {
	txn.Signatures = nil
	type need struct {
		parent  types.Hash256
		uc      types.UnlockConditions
		signers []int
		keys    []types.PrivateKey
	}
	var needs []need
	addUC := func(parent types.Hash256, uc types.UnlockConditions) {
		nd := need{parent: parent, uc: uc}
		if l, ok := c.W.Locks[uc.UnlockHash()]; ok && l.UC != nil {
			nd.signers = l.UCSigners
		} else if info, ok := c.V1Infos[uc.UnlockHash()]; ok {
			_ = info
			nd.signers = []int{0, 1}
		} else {
			// unknown conditions: sign with the first SignaturesRequired keys we own
			for i := 0; uint64(len(nd.signers)) < uc.SignaturesRequired && i < len(uc.PublicKeys); i++ {
				nd.signers = append(nd.signers, i)
			}
		}
		needs = append(needs, nd)
	}
	for _, in := range txn.SiacoinInputs {
		addUC(types.Hash256(in.ParentID), in.UnlockConditions)
	}
	for _, in := range txn.SiafundInputs {
		addUC(types.Hash256(in.ParentID), in.UnlockConditions)
	}
	for _, r := range txn.FileContractRevisions {
		addUC(types.Hash256(r.ParentID), r.UnlockConditions)
	}
	// stubs first
	type stub struct {
		idx int
		nd  need
		ki  int
	}
	var stubs []stub
	for _, nd := range needs {
		for _, ki := range nd.signers {
			ts := types.TransactionSignature{ParentID: nd.parent, PublicKeyIndex: uint64(ki)}
			if partial != nil && partial(nd.parent) {
				ts.CoveredFields = fullExplicitCoverage(txn)
			} else {
				ts.CoveredFields = types.CoveredFields{WholeTransaction: true}
			}
			txn.Signatures = append(txn.Signatures, ts)
			stubs = append(stubs, stub{len(txn.Signatures) - 1, nd, ki})
		}
	}
	for _, st := range stubs {
		ts := &txn.Signatures[st.idx]
		uk := st.nd.uc.PublicKeys[st.ki]
		if uk.Algorithm != types.SpecifierEd25519 || len(uk.Key) != 32 {
			ts.Signature = []byte{0xAA, 0xBB}
			continue
		}
		var pk types.PublicKey
		copy(pk[:], uk.Key)
		k, ok := c.W.Priv(pk)
		if !ok {
			ts.Signature = make([]byte, 64)
			continue
		}
		var h types.Hash256
		if ts.CoveredFields.WholeTransaction {
			h = cs.WholeSigHash(*txn, ts.ParentID, ts.PublicKeyIndex, ts.Timelock, ts.CoveredFields.Signatures)
		} else {
			h = cs.PartialSigHash(*txn, ts.CoveredFields)
		}
		sig := k.SignHash(h)
		ts.Signature = sig[:]
	}
}

// fullExplicitCoverage lists every field of txn explicitly (a partial
// signature that nevertheless covers everything except signatures).
func fullExplicitCoverage(txn *types.Transaction) types.CoveredFields {
	seq := func(n int) []uint64 {
		var s []uint64
		for i := 0; i < n; i++ {
			s = append(s, uint64(i))
		}
		return s
	}
	return types.CoveredFields{
		SiacoinInputs:         seq(len(txn.SiacoinInputs)),
		SiacoinOutputs:        seq(len(txn.SiacoinOutputs)),
		FileContracts:         seq(len(txn.FileContracts)),
		FileContractRevisions: seq(len(txn.FileContractRevisions)),
		StorageProofs:         seq(len(txn.StorageProofs)),
		SiafundInputs:         seq(len(txn.SiafundInputs)),
		SiafundOutputs:        seq(len(txn.SiafundOutputs)),
		MinerFees:             seq(len(txn.MinerFees)),
		ArbitraryData:         seq(len(txn.ArbitraryData)),
	}
}

// ---------------------------------------------------------------- v2 signing

// SignV2 (re)creates every witness of txn: input policies, contract, revision
// and renewal signatures, attestation signatures.
func (c *Chain) SignV2(cs consensus.State, txn *types.V2Transaction, curOf map[types.FileContractID]types.V2FileContract) {
	sign := func(pk types.PublicKey, h types.Hash256) types.Signature {
		if k, ok := c.W.Priv(pk); ok {
			return k.SignHash(h)
		}
		return types.Signature{}
	}
	for i := range txn.FileContracts {
		fc := &txn.FileContracts[i]
		h := cs.ContractSigHash(*fc)
		fc.RenterSignature, fc.HostSignature = sign(fc.RenterPublicKey, h), sign(fc.HostPublicKey, h)
	}
	for i := range txn.FileContractRevisions {
		r := &txn.FileContractRevisions[i]
		cur := r.Parent.V2FileContract
		if k, ok := curOf[r.Parent.ID]; ok {
			cur = k
		}
		h := cs.ContractSigHash(r.Revision)
		r.Revision.RenterSignature, r.Revision.HostSignature = sign(cur.RenterPublicKey, h), sign(cur.HostPublicKey, h)
	}
	for i := range txn.FileContractResolutions {
		r := &txn.FileContractResolutions[i]
		if ren, ok := r.Resolution.(*types.V2FileContractRenewal); ok {
			nc := &ren.NewContract
			h := cs.ContractSigHash(*nc)
			nc.RenterSignature, nc.HostSignature = sign(nc.RenterPublicKey, h), sign(nc.HostPublicKey, h)
			rh := cs.RenewalSigHash(*ren)
			ren.RenterSignature, ren.HostSignature = sign(r.Parent.V2FileContract.RenterPublicKey, rh), sign(r.Parent.V2FileContract.HostPublicKey, rh)
		}
	}
	for i := range txn.Attestations {
		a := &txn.Attestations[i]
		a.Signature = sign(a.PublicKey, cs.AttestationSigHash(*a))
	}
	// inputs last: the input sighash covers the contract signatures
	for i := range txn.SiacoinInputs {
		txn.SiacoinInputs[i].SatisfiedPolicy = types.SatisfiedPolicy{Policy: txn.SiacoinInputs[i].SatisfiedPolicy.Policy}
	}
	for i := range txn.SiafundInputs {
		txn.SiafundInputs[i].SatisfiedPolicy = types.SatisfiedPolicy{Policy: txn.SiafundInputs[i].SatisfiedPolicy.Policy}
	}
	h := cs.InputSigHash(*txn)
	for i := range txn.SiacoinInputs {
		if l, ok := c.W.Locks[txn.SiacoinInputs[i].Parent.SiacoinOutput.Address]; ok {
			txn.SiacoinInputs[i].SatisfiedPolicy = c.W.Satisfy(l, h)
		}
	}
	for i := range txn.SiafundInputs {
		if l, ok := c.W.Locks[txn.SiafundInputs[i].Parent.SiafundOutput.Address]; ok {
			txn.SiafundInputs[i].SatisfiedPolicy = c.W.Satisfy(l, h)
		}
	}
}

// ---------------------------------------------------------------- files

var fileSizes = []int{0, 1, 17, 63, 64, 65, 100, 127, 128, 129, 192, 200, 320, 500, 640, 704, 1000, 1024, 2000, 4096, 4100}

func (x *bctx) newFile() (size uint64, root types.Hash256) {
	n := fileSizes[x.rng.IntN(len(fileSizes))]
	if x.rng.IntN(12) == 0 {
		n = 64*(1+x.rng.IntN(300)) - x.rng.IntN(64)
	}
	data := make([]byte, n)
	for i := range data {
		data[i] = byte(x.rng.IntN(256))
	}
	r := types.Hash256(refmodel.FileRoot(data))
	x.c.Files[r] = data
	return uint64(n), r
}

// ---------------------------------------------------------------- sealing

// Seal sets the miner payouts (reward + fees), the v2 height/commitment, and
// mines the block against cs. nPayouts applies to v1 blocks only.
func (c *Chain) Seal(cs consensus.State, b *types.Block, miner types.Address, nPayouts int, rng *rand.Rand) error {
	total := cs.BlockReward()
	for _, t := range b.Transactions {
		for _, f := range t.MinerFees {
			var of bool
			total, of = total.AddWithOverflow(f)
			if of {
				return errors.New("fee overflow")
			}
		}
	}
	if b.V2 != nil {
		for _, t := range b.V2.Transactions {
			var of bool
			total, of = total.AddWithOverflow(t.MinerFee)
			if of {
				return errors.New("fee overflow")
			}
		}
		nPayouts = 1
	}
	b.MinerPayouts = nil
	if nPayouts <= 1 || rng == nil {
		b.MinerPayouts = []types.SiacoinOutput{{Value: total, Address: miner}}
	} else {
		for _, v := range splitAmount(rng, total, nPayouts) {
			b.MinerPayouts = append(b.MinerPayouts, types.SiacoinOutput{Value: v, Address: miner})
		}
	}
	if b.V2 != nil {
		b.V2.Height = cs.Index.Height + 1
		b.V2.Commitment = cs.Commitment(b.MinerPayouts[0].Address, b.Transactions, b.V2.Transactions)
	}
	return Mine(cs, b)
}

// Mine finds a nonce for b under cs (nonce factor and target).
func Mine(cs consensus.State, b *types.Block) error {
	bh := b.Header()
	f := cs.NonceFactor()
	if f == 0 {
		f = 1
	}
	bh.Nonce -= bh.Nonce % f
	target := cs.PoWTarget()
	for tries := 0; tries < 4_000_000; tries++ {
		if bh.ID().CmpWork(target) >= 0 {
			b.Nonce = bh.Nonce
			return nil
		}
		bh.Nonce += f
	}
	return errors.New("difficulty out of feasible range")
}

func (x *bctx) timestamp(mode string) time.Time {
	if x.forceTS != nil {
		return *x.forceTS
	}
	parent := x.cs.PrevTimestamps[0]
	iv := x.c.Net.N.BlockInterval
	if iv < time.Second {
		iv = time.Second
	}
	min := x.median
	var t time.Time
	switch mode {
	case "fast":
		t = min
	case "slow":
		t = parent.Add(3 * iv)
	case "const":
		t = parent
	case "jitter":
		t = parent.Add(time.Duration(x.rng.Int64N(int64(2*iv)/int64(time.Second)+1)) * time.Second)
	default:
		t = parent.Add(iv)
	}
	if t.Before(min) {
		t = min
	}
	return t
}

// ---------------------------------------------------------------- BuildBlock

// AllKinds lists every transaction kind the generator knows.
var AllKinds = []string{
	"v1-pay", "v1-pay-partial", "v1-sf", "v1-sf-devaddr", "v1-form", "v1-revise", "v1-proof", "v1-revise+proof", "v1-form+revise", "v1-form+proof", "v1-foundation", "v1-arb",
	"v2-pay", "v2-eph", "v2-sf", "v2-form", "v2-revise", "v2-renew", "v2-proof", "v2-expire", "v2-attest", "v2-foundation", "v2-arb", "v2-revise+resolve",
}

// BuildBlock constructs a candidate block on the tip (it does not apply it).
func (c *Chain) BuildBlock(p Plan) (types.Block, consensus.V1BlockSupplement, []string, error) {
	cs := c.Tip()
	x := &bctx{c: c, cs: cs, h: cs.Index.Height + 1, median: Median(cs), rng: c.Rng,
		usedSC: map[types.SiacoinOutputID]bool{}, usedSF: map[types.SiafundOutputID]bool{},
		fcTouched: map[types.FileContractID]string{}, curV1: map[types.FileContractID]types.FileContract{}, curV2: map[types.FileContractID]types.V2FileContract{}}

	allowed := func(k string) bool {
		if os.Getenv("VERIF_NOKIND") == k {
			return false
		}
		if p.Only != nil {
			found := false
			for _, o := range p.Only {
				if o == k {
					found = true
				}
			}
			if !found {
				return false
			}
		}
		if k[:2] == "v1" {
			return x.v1ok()
		}
		return x.v2ok()
	}
	var v1kinds, v2kinds []string
	for _, k := range AllKinds {
		if !allowed(k) {
			continue
		}
		w := 2
		if p.Weights != nil {
			if ww, ok := p.Weights[k]; ok {
				w = ww
			}
		}
		for i := 0; i < w; i++ {
			if k[:2] == "v1" {
				v1kinds = append(v1kinds, k)
			} else {
				v2kinds = append(v2kinds, k)
			}
		}
	}
	nTx := 0
	if p.MaxTxns > 0 {
		nTx = x.rng.IntN(p.MaxTxns + 1)
	}
	nV1 := 0
	if len(v1kinds) > 0 && len(v2kinds) > 0 {
		nV1 = x.rng.IntN(nTx + 1)
	} else if len(v1kinds) > 0 {
		nV1 = nTx
	}
	for i := 0; i < nV1; i++ {
		k := v1kinds[x.rng.IntN(len(v1kinds))]
		if x.buildV1(k) {
			x.kinds = append(x.kinds, k)
		}
	}
	if len(v2kinds) > 0 {
		for i := nV1; i < nTx; i++ {
			k := v2kinds[x.rng.IntN(len(v2kinds))]
			if x.buildV2(k) {
				x.kinds = append(x.kinds, k)
			}
		}
	}

	b := types.Block{ParentID: cs.Index.ID, Timestamp: x.timestamp(p.TimeMode), Transactions: x.v1}
	if x.v2ok() && (len(x.v2) > 0 || x.h >= c.Net.N.HardforkV2.RequireHeight || x.rng.IntN(2) == 0) {
		b.V2 = &types.V2BlockData{Transactions: x.v2}
	}
	if b.V2 == nil && len(x.v2) > 0 {
		return b, consensus.V1BlockSupplement{}, nil, errors.New("v2 txns without v2 block")
	}
	bs := c.SupplementFor(b)
	miner := x.dest().Addr
	if err := c.Seal(cs, &b, miner, 1+x.rng.IntN(3), x.rng); err != nil {
		return b, bs, x.kinds, err
	}
	return b, bs, x.kinds, nil
}

func hashEq(a, b types.Hash256) bool { return bytes.Equal(a[:], b[:]) }

// SupplementFor builds the supplement for a block offered on the current tip.
// From the v2 require height on, supplements must be empty (v1 contracts still
// unresolved then are never expired by consensus).
func (c *Chain) SupplementFor(b types.Block) consensus.V1BlockSupplement {
	h := c.Height() + 1
	if h >= c.Net.N.HardforkV2.RequireHeight {
		return consensus.V1BlockSupplement{Transactions: make([]consensus.V1TransactionSupplement, len(b.Transactions))}
	}
	return c.S.Supplement(b, h, c.BlockIDAt)
}
