package chaingen

import (
	"math/rand/v2"

	"go.sia.tech/core/consensus"
	"go.sia.tech/core/types"
)

// Store is the client store model: the set of live elements with their
// proofs, maintained ONLY from what the library reports (ApplyUpdate /
// RevertUpdate diffs and UpdateElementProof). It is the "client" of C05/C06.
type Store struct {
	SCEs   map[types.SiacoinOutputID]types.SiacoinElement
	SFEs   map[types.SiafundOutputID]types.SiafundElement
	FCEs   map[types.FileContractID]types.FileContractElement
	V2FCEs map[types.FileContractID]types.V2FileContractElement
	CIEs   map[uint64]types.ChainIndexElement // by height

	// deterministic iteration/selection order (ids in insertion order; dead
	// entries are skipped and compacted lazily)
	scOrder []types.SiacoinOutputID
	sfOrder []types.SiafundOutputID
	fcOrder []types.FileContractID
	v2Order []types.FileContractID

	// Extra lets a check keep additional StateElements up to date (stale
	// copies of spent elements, reverted-branch elements, ...). Every pointer
	// registered here gets UpdateElementProof on each apply/revert, subject to
	// the library's documented domain (see KeepExtra).
	Extra []*ExtraElem
}

// ExtraElem is an element a check wants kept up to date although it is not live.
type ExtraElem struct {
	Tag  string
	SE   *types.StateElement
	Dead bool // set when the leaf no longer exists after a revert
}

func NewStore() *Store {
	return &Store{
		SCEs:   map[types.SiacoinOutputID]types.SiacoinElement{},
		SFEs:   map[types.SiafundOutputID]types.SiafundElement{},
		FCEs:   map[types.FileContractID]types.FileContractElement{},
		V2FCEs: map[types.FileContractID]types.V2FileContractElement{},
		CIEs:   map[uint64]types.ChainIndexElement{},
	}
}

// Apply incorporates the update of an applied block.
func (s *Store) Apply(au consensus.ApplyUpdate) {
	for id, e := range s.SCEs {
		au.UpdateElementProof(&e.StateElement)
		s.SCEs[id] = e.Move()
	}
	for id, e := range s.SFEs {
		au.UpdateElementProof(&e.StateElement)
		s.SFEs[id] = e.Move()
	}
	for id, e := range s.FCEs {
		au.UpdateElementProof(&e.StateElement)
		s.FCEs[id] = e.Move()
	}
	for id, e := range s.V2FCEs {
		au.UpdateElementProof(&e.StateElement)
		s.V2FCEs[id] = e.Move()
	}
	for h, e := range s.CIEs {
		au.UpdateElementProof(&e.StateElement)
		s.CIEs[h] = e.Move()
	}
	for _, x := range s.Extra {
		if !x.Dead {
			au.UpdateElementProof(x.SE)
		}
	}
	for _, d := range au.SiacoinElementDiffs() {
		id := d.SiacoinElement.ID
		if d.Spent {
			delete(s.SCEs, id)
		} else if d.Created {
			if _, ok := s.SCEs[id]; !ok {
				s.scOrder = append(s.scOrder, id)
			}
			s.SCEs[id] = d.SiacoinElement.Copy()
		}
	}
	for _, d := range au.SiafundElementDiffs() {
		id := d.SiafundElement.ID
		if d.Spent {
			delete(s.SFEs, id)
		} else if d.Created {
			if _, ok := s.SFEs[id]; !ok {
				s.sfOrder = append(s.sfOrder, id)
			}
			s.SFEs[id] = d.SiafundElement.Copy()
		}
	}
	for _, d := range au.FileContractElementDiffs() {
		id := d.FileContractElement.ID
		switch {
		case d.Resolved:
			delete(s.FCEs, id)
		case d.Created:
			if _, ok := s.FCEs[id]; !ok {
				s.fcOrder = append(s.fcOrder, id)
			}
			s.FCEs[id] = d.FileContractElement.Copy()
		case d.Revision != nil:
			e := d.FileContractElement.Copy()
			e.FileContract = *d.Revision
			s.FCEs[id] = e
		}
	}
	for _, d := range au.V2FileContractElementDiffs() {
		id := d.V2FileContractElement.ID
		switch {
		case d.Resolution != nil:
			delete(s.V2FCEs, id)
		case d.Created:
			if _, ok := s.V2FCEs[id]; !ok {
				s.v2Order = append(s.v2Order, id)
			}
			s.V2FCEs[id] = d.V2FileContractElement.Copy()
		case d.Revision != nil:
			e := d.V2FileContractElement.Copy()
			e.V2FileContract = *d.Revision
			s.V2FCEs[id] = e
		}
	}
	cie := au.ChainIndexElement()
	s.CIEs[cie.ChainIndex.Height] = cie.Copy()
}

// Revert undoes the update of the tip block (ru must be the RevertUpdate of
// the block most recently applied).
func (s *Store) Revert(ru consensus.RevertUpdate, numLeavesAfterRevert uint64) {
	for _, d := range ru.SiacoinElementDiffs() {
		id := d.SiacoinElement.ID
		if d.Created {
			delete(s.SCEs, id)
		} else if d.Spent {
			if _, ok := s.SCEs[id]; !ok {
				s.scOrder = append(s.scOrder, id)
			}
			s.SCEs[id] = d.SiacoinElement.Copy()
		}
	}
	for _, d := range ru.SiafundElementDiffs() {
		id := d.SiafundElement.ID
		if d.Created {
			delete(s.SFEs, id)
		} else if d.Spent {
			if _, ok := s.SFEs[id]; !ok {
				s.sfOrder = append(s.sfOrder, id)
			}
			s.SFEs[id] = d.SiafundElement.Copy()
		}
	}
	for _, d := range ru.FileContractElementDiffs() {
		id := d.FileContractElement.ID
		if d.Created {
			delete(s.FCEs, id)
		} else if d.Revision != nil || d.Resolved {
			// the diff's element is the contract as it was before the block
			if _, ok := s.FCEs[id]; !ok {
				s.fcOrder = append(s.fcOrder, id)
			}
			s.FCEs[id] = d.FileContractElement.Copy()
		}
	}
	for _, d := range ru.V2FileContractElementDiffs() {
		id := d.V2FileContractElement.ID
		if d.Created {
			delete(s.V2FCEs, id)
		} else if d.Revision != nil || d.Resolution != nil {
			if _, ok := s.V2FCEs[id]; !ok {
				s.v2Order = append(s.v2Order, id)
			}
			s.V2FCEs[id] = d.V2FileContractElement.Copy()
		}
	}
	delete(s.CIEs, ru.ChainIndexElement().ChainIndex.Height)

	for id, e := range s.SCEs {
		ru.UpdateElementProof(&e.StateElement)
		s.SCEs[id] = e.Move()
	}
	for id, e := range s.SFEs {
		ru.UpdateElementProof(&e.StateElement)
		s.SFEs[id] = e.Move()
	}
	for id, e := range s.FCEs {
		ru.UpdateElementProof(&e.StateElement)
		s.FCEs[id] = e.Move()
	}
	for id, e := range s.V2FCEs {
		ru.UpdateElementProof(&e.StateElement)
		s.V2FCEs[id] = e.Move()
	}
	for h, e := range s.CIEs {
		ru.UpdateElementProof(&e.StateElement)
		s.CIEs[h] = e.Move()
	}
	for _, x := range s.Extra {
		if x.Dead {
			continue
		}
		if x.SE.LeafIndex >= numLeavesAfterRevert {
			x.Dead = true // the leaf itself was removed by the revert (documented: must not be updated)
			continue
		}
		ru.UpdateElementProof(x.SE)
	}
}

// deterministic random selection helpers -------------------------------------------------

func pickLive[ID comparable, E any](rng *rand.Rand, order *[]ID, m map[ID]E, ok func(ID, E) bool, tries int) (ID, E, bool) {
	var zeroID ID
	var zeroE E
	// lazy compaction
	if len(*order) > 64 && len(*order) > 3*len(m) {
		n := (*order)[:0]
		seen := map[ID]bool{}
		for _, id := range *order {
			if _, live := m[id]; live && !seen[id] {
				seen[id] = true
				n = append(n, id)
			}
		}
		*order = n
	}
	if len(*order) == 0 {
		return zeroID, zeroE, false
	}
	for t := 0; t < tries; t++ {
		id := (*order)[rng.IntN(len(*order))]
		if e, live := m[id]; live && ok(id, e) {
			return id, e, true
		}
	}
	return zeroID, zeroE, false
}

func (s *Store) PickSC(rng *rand.Rand, ok func(types.SiacoinOutputID, types.SiacoinElement) bool) (types.SiacoinElement, bool) {
	_, e, found := pickLive(rng, &s.scOrder, s.SCEs, ok, 40)
	return e, found
}

func (s *Store) PickSF(rng *rand.Rand, ok func(types.SiafundOutputID, types.SiafundElement) bool) (types.SiafundElement, bool) {
	_, e, found := pickLive(rng, &s.sfOrder, s.SFEs, ok, 40)
	return e, found
}

func (s *Store) PickFC(rng *rand.Rand, ok func(types.FileContractID, types.FileContractElement) bool) (types.FileContractElement, bool) {
	_, e, found := pickLive(rng, &s.fcOrder, s.FCEs, ok, 40)
	return e, found
}

func (s *Store) PickV2FC(rng *rand.Rand, ok func(types.FileContractID, types.V2FileContractElement) bool) (types.V2FileContractElement, bool) {
	_, e, found := pickLive(rng, &s.v2Order, s.V2FCEs, ok, 40)
	return e, found
}

// OrderedSC returns the live siacoin IDs in deterministic order.
func (s *Store) OrderedSC() []types.SiacoinOutputID  { return liveOrder(s.scOrder, s.SCEs) }
func (s *Store) OrderedSF() []types.SiafundOutputID  { return liveOrder(s.sfOrder, s.SFEs) }
func (s *Store) OrderedFC() []types.FileContractID   { return liveOrder(s.fcOrder, s.FCEs) }
func (s *Store) OrderedV2FC() []types.FileContractID { return liveOrder(s.v2Order, s.V2FCEs) }

func liveOrder[ID comparable, E any](order []ID, m map[ID]E) []ID {
	out := make([]ID, 0, len(m))
	seen := map[ID]bool{}
	for _, id := range order {
		if _, ok := m[id]; ok && !seen[id] {
			seen[id] = true
			out = append(out, id)
		}
	}
	return out
}

// Supplement builds the V1BlockSupplement for block b on the current tip, the
// way coreutils' store does: parents not created inside the block, revised
// contracts, storage-proof contracts with the ID of the block at WindowStart-1,
// and the contracts whose window ends at the child height.
func (s *Store) Supplement(b types.Block, childHeight uint64, blockIDAt func(h uint64) (types.BlockID, bool)) consensus.V1BlockSupplement {
	bs := consensus.V1BlockSupplement{Transactions: make([]consensus.V1TransactionSupplement, len(b.Transactions))}
	for i, txn := range b.Transactions {
		ts := &bs.Transactions[i]
		for _, sci := range txn.SiacoinInputs {
			if e, ok := s.SCEs[sci.ParentID]; ok {
				ts.SiacoinInputs = append(ts.SiacoinInputs, e.Copy())
			}
		}
		for _, sfi := range txn.SiafundInputs {
			if e, ok := s.SFEs[sfi.ParentID]; ok {
				ts.SiafundInputs = append(ts.SiafundInputs, e.Copy())
			}
		}
		for _, fcr := range txn.FileContractRevisions {
			if e, ok := s.FCEs[fcr.ParentID]; ok {
				ts.RevisedFileContracts = append(ts.RevisedFileContracts, e.Copy())
			}
		}
		for _, sp := range txn.StorageProofs {
			if e, ok := s.FCEs[sp.ParentID]; ok {
				if e.FileContract.WindowStart == 0 {
					continue
				}
				if id, ok := blockIDAt(e.FileContract.WindowStart - 1); ok {
					ts.StorageProofs = append(ts.StorageProofs, consensus.V1StorageProofSupplement{FileContract: e.Copy(), WindowID: id})
				}
			}
		}
	}
	for _, id := range s.OrderedFC() {
		if e := s.FCEs[id]; e.FileContract.WindowEnd == childHeight {
			bs.ExpiringFileContracts = append(bs.ExpiringFileContracts, e.Copy())
		}
	}
	return bs
}
