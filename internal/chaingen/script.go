package chaingen

import (
	"errors"
	"time"

	"go.sia.tech/core/consensus"
	"go.sia.tech/core/types"
	"verif/internal/refmodel"
)

func (c *Chain) newCtx() *bctx {
	cs := c.Tip()
	return &bctx{c: c, cs: cs, h: cs.Index.Height + 1, median: Median(cs), rng: c.Rng,
		usedSC: map[types.SiacoinOutputID]bool{}, usedSF: map[types.SiafundOutputID]bool{},
		fcTouched: map[types.FileContractID]string{}, curV1: map[types.FileContractID]types.FileContract{}, curV2: map[types.FileContractID]types.V2FileContract{}}
}

func (x *bctx) finish(timeMode string) (types.Block, consensus.V1BlockSupplement, error) {
	c := x.c
	b := types.Block{ParentID: x.cs.Index.ID, Timestamp: x.timestamp(timeMode), Transactions: x.v1}
	if x.v2ok() && (len(x.v2) > 0 || x.h >= c.Net.N.HardforkV2.RequireHeight) {
		b.V2 = &types.V2BlockData{Transactions: x.v2}
	}
	if b.V2 == nil && len(x.v2) > 0 {
		return b, consensus.V1BlockSupplement{}, errors.New("v2 transactions before the allow height")
	}
	bs := c.SupplementFor(b)
	if err := c.Seal(x.cs, &b, x.dest().Addr, 1, nil); err != nil {
		return b, bs, err
	}
	return b, bs, nil
}

// BlockWithV1Contracts builds a block forming one v1 contract per spec and
// returns the contract IDs (in spec order; a zero ID if funding failed).
func (c *Chain) BlockWithV1Contracts(specs []V1ContractSpec) (types.Block, consensus.V1BlockSupplement, []types.FileContractID, error) {
	x := c.newCtx()
	ids := make([]types.FileContractID, len(specs))
	for i := range specs {
		if t := x.v1FormSpec(&specs[i]); t != nil {
			ids[i] = t.FileContractID(0)
		}
	}
	b, bs, err := x.finish("schedule")
	return b, bs, ids, err
}

// BlockWithV2Contracts builds a block forming one v2 contract per spec.
func (c *Chain) BlockWithV2Contracts(specs []V2ContractSpec) (types.Block, consensus.V1BlockSupplement, []types.FileContractID, error) {
	x := c.newCtx()
	ids := make([]types.FileContractID, len(specs))
	var prev *types.V2FileContract
	for i, sp := range specs {
		ins, total, ok := x.fundV2(types.Siacoins(1), 2)
		if !ok {
			continue
		}
		budget := randAmount(x.rng, total.Div64(4))
		if budget.Cmp(types.NewCurrency64(1000)) < 0 {
			x.release(ins)
			continue
		}
		fc := x.newV2Contract(budget)
		r := types.Hash256(refmodel.FileRoot(sp.Data))
		c.Files[r] = sp.Data
		fc.Filesize, fc.FileMerkleRoot, fc.Capacity = uint64(len(sp.Data)), r, uint64(len(sp.Data))
		fc.ProofHeight, fc.ExpirationHeight = sp.ProofHeight, sp.ExpirationHeight
		if sp.ZeroRoot {
			fc.FileMerkleRoot = types.Hash256{}
		}
		if sp.Twin && prev != nil {
			fc = *prev
		}
		pf := fc
		prev = &pf
		cost := fc.RenterOutput.Value.Add(fc.HostOutput.Value).Add(x.cs.V2FileContractTax(fc))
		if cost.Cmp(total) > 0 {
			x.release(ins)
			continue
		}
		var txn types.V2Transaction
		x.v2Inputs(&txn, ins)
		txn.FileContracts = []types.V2FileContract{fc}
		if rest := total.Sub(cost); !rest.IsZero() {
			x.v2Distribute(&txn, rest)
		}
		c.SignV2(x.cs, &txn, x.curV2)
		x.addV2(txn)
		ids[i] = txn.V2FileContractID(txn.ID(), 0)
	}
	b, bs, err := x.finish("schedule")
	return b, bs, ids, err
}

// EmptyBlock builds an empty block on the tip.
func (c *Chain) EmptyBlock() (types.Block, consensus.V1BlockSupplement, error) {
	return c.newCtx().finish("schedule")
}

// EmptyBlockAt builds an empty block on the tip with the given timestamp (the
// caller keeps it legal: not before the median of the previous timestamps).
func (c *Chain) EmptyBlockAt(ts time.Time) (types.Block, consensus.V1BlockSupplement, error) {
	x := c.newCtx()
	x.forceTS = &ts
	return x.finish("schedule")
}

// BlockWithAt is BlockWith with an explicit timestamp.
func (c *Chain) BlockWithAt(v1 []types.Transaction, v2 []types.V2Transaction, ts time.Time) (types.Block, consensus.V1BlockSupplement, error) {
	x := c.newCtx()
	x.v1, x.v2 = v1, v2
	x.forceTS = &ts
	return x.finish("schedule")
}

// BlockWith builds a block on the tip carrying the given, already final
// transactions.
func (c *Chain) BlockWith(v1 []types.Transaction, v2 []types.V2Transaction) (types.Block, consensus.V1BlockSupplement, error) {
	x := c.newCtx()
	x.v1, x.v2 = v1, v2
	return x.finish("schedule")
}

// DescribeBlock summarises a block for evidence samples.
func DescribeBlock(cs consensus.State, b types.Block, kinds []string) map[string]any {
	d := map[string]any{"child_height": cs.Index.Height + 1, "parent_leaves": cs.Elements.NumLeaves, "kinds": kinds, "id": b.ID().String(), "miner_payouts": len(b.MinerPayouts)}
	var v1 []map[string]any
	for _, t := range b.Transactions {
		v1 = append(v1, map[string]any{"siacoin_inputs": len(t.SiacoinInputs), "siacoin_outputs": len(t.SiacoinOutputs), "siafund_inputs": len(t.SiafundInputs), "contracts": len(t.FileContracts),
			"revisions": len(t.FileContractRevisions), "storage_proofs": len(t.StorageProofs), "fees": len(t.MinerFees), "arbitrary": len(t.ArbitraryData), "signatures": len(t.Signatures)})
	}
	var v2 []map[string]any
	for _, t := range b.V2Transactions() {
		m := map[string]any{"siacoin_inputs": len(t.SiacoinInputs), "siacoin_outputs": len(t.SiacoinOutputs), "siafund_inputs": len(t.SiafundInputs), "contracts": len(t.FileContracts),
			"revisions": len(t.FileContractRevisions), "resolutions": len(t.FileContractResolutions), "attestations": len(t.Attestations), "fee": t.MinerFee.String()}
		var pol []string
		for _, in := range t.SiacoinInputs {
			s := in.SatisfiedPolicy.Policy.String()
			if len(s) > 60 {
				s = s[:60] + "…"
			}
			pol = append(pol, s)
		}
		if len(pol) > 0 {
			m["input_policies"] = pol
		}
		v2 = append(v2, m)
	}
	d["v1_transactions"], d["v2_transactions"] = v1, v2
	return d
}
