package chaingen

import (
	"go.sia.tech/core/types"
	"verif/internal/refmodel"
)

func (x *bctx) addV2(txn types.V2Transaction) {
	id := txn.ID()
	for i := range txn.SiacoinOutputs {
		x.newSC = append(x.newSC, ephSC{el: txn.EphemeralSiacoinOutput(i)})
	}
	for i := range txn.SiafundOutputs {
		e := txn.EphemeralSiafundOutput(i)
		x.newSF = append(x.newSF, ephSF{el: e})
	}
	_ = id
	x.v2 = append(x.v2, txn)
}

func (x *bctx) v2Inputs(txn *types.V2Transaction, ins []scIn) {
	for _, in := range ins {
		txn.SiacoinInputs = append(txn.SiacoinInputs, types.V2SiacoinInput{Parent: in.el, SatisfiedPolicy: types.SatisfiedPolicy{Policy: in.lock.Policy}})
	}
}

func (x *bctx) v2Distribute(txn *types.V2Transaction, amount types.Currency) {
	if x.rng.IntN(3) > 0 && amount.Cmp(types.NewCurrency64(10)) > 0 {
		f := randAmount(x.rng, amount.Div64(20))
		txn.MinerFee = txn.MinerFee.Add(f)
		amount = amount.Sub(f)
	}
	for _, v := range splitAmount(x.rng, amount, 1+x.rng.IntN(3)) {
		txn.SiacoinOutputs = append(txn.SiacoinOutputs, types.SiacoinOutput{Value: v, Address: x.dest().Addr})
	}
}

func (x *bctx) release(ins []scIn) {
	for _, in := range ins {
		delete(x.usedSC, in.el.ID)
	}
}

func (x *bctx) buildV2(kind string) bool {
	c := x.c
	n := c.Net.N
	switch kind {
	case "v2-pay", "v2-eph":
		if kind == "v2-eph" && len(x.newSC) == 0 {
			// create a parent first
			if !x.buildV2("v2-pay") {
				return false
			}
		}
		x.forceEph = kind == "v2-eph"
		ins, total, ok := x.fundV2(types.NewCurrency64(1), 3)
		x.forceEph = false
		if !ok {
			return false
		}
		var txn types.V2Transaction
		x.v2Inputs(&txn, ins)
		x.v2Distribute(&txn, total)
		if x.rng.IntN(4) == 0 {
			txn.ArbitraryData = []byte("memo")
		}
		if kind == "v2-eph" && !c.NoStaleEphemeralProofs && x.rng.IntN(3) == 0 {
			// an in-block parent carrying a (meaningless) Merkle proof: validation does not look at it, the
			// transaction ID does not cover it, so any relayer can attach one
			for i := range txn.SiacoinInputs {
				if se := &txn.SiacoinInputs[i].Parent.StateElement; se.LeafIndex == types.UnassignedLeafIndex {
					for k := 1 + x.rng.IntN(5); k > 0; k-- {
						se.MerkleProof = append(se.MerkleProof, types.Hash256{0xEE, byte(k), byte(x.rng.IntN(256))})
					}
					c.Stats["ephemeral_parent_with_attached_proof"]++
				}
			}
		}
		c.SignV2(x.cs, &txn, x.curV2)
		x.addV2(txn)
		return true

	case "v2-sf":
		ph := x.cs.Index.Height
		var e types.SiafundElement
		found := false
		// legacy window: ephemeral siafund parents are allowed below the fix height
		if !c.NoLegacyEphemeralSF && x.h < n.HardforkV2.EphemeralOutputHeight && len(x.newSF) > 0 && x.rng.IntN(2) == 0 {
			for _, i := range x.rng.Perm(len(x.newSF)) {
				cand := x.newSF[i].el
				l := c.W.Locks[cand.SiafundOutput.Address]
				if !x.usedSF[cand.ID] && l != nil && l.SpendableV2(ph, x.median) {
					e, found = cand.Copy(), true
					c.Stats["legacy_ephemeral_siafund_spend"]++
					if !c.NoStaleEphemeralProofs && x.rng.IntN(2) == 0 {
						// like in-block siacoin parents: a meaningless Merkle proof attached by whoever relays it
						for k := 1 + x.rng.IntN(4); k > 0; k-- {
							e.StateElement.MerkleProof = append(e.StateElement.MerkleProof, types.Hash256{0xEF, byte(k), byte(x.rng.IntN(256))})
						}
						c.Stats["ephemeral_siafund_parent_with_attached_proof"]++
					}
					break
				}
			}
		}
		if !found {
			var ok bool
			e, ok = c.S.PickSF(x.rng, func(id types.SiafundOutputID, e types.SiafundElement) bool {
				l := c.W.Locks[e.SiafundOutput.Address]
				return !x.usedSF[id] && l != nil && l.SpendableV2(ph, x.median)
			})
			if !ok {
				return false
			}
			e = e.Copy()
		}
		x.usedSF[e.ID] = true
		l := c.W.Locks[e.SiafundOutput.Address]
		var txn types.V2Transaction
		txn.SiafundInputs = []types.V2SiafundInput{{Parent: e, ClaimAddress: x.dest().Addr, SatisfiedPolicy: types.SatisfiedPolicy{Policy: l.Policy}}}
		rest := e.SiafundOutput.Value
		for rest > 0 {
			v := rest
			if rest > 1 && x.rng.IntN(2) == 0 {
				v = 1 + x.rng.Uint64N(rest-1)
			}
			txn.SiafundOutputs = append(txn.SiafundOutputs, types.SiafundOutput{Value: v, Address: x.dest().Addr})
			rest -= v
		}
		if x.rng.IntN(2) == 0 {
			if ins, total, ok := x.fundV2(types.NewCurrency64(1), 1); ok {
				x.v2Inputs(&txn, ins)
				x.v2Distribute(&txn, total)
			}
		}
		c.SignV2(x.cs, &txn, x.curV2)
		x.addV2(txn)
		return true

	case "v2-form":
		ins, total, ok := x.fundV2(types.Siacoins(1), 2)
		if !ok {
			return false
		}
		budget := randAmount(x.rng, total.Div64(2))
		if budget.Cmp(types.NewCurrency64(1000)) < 0 {
			x.release(ins)
			return false
		}
		fc := x.newV2Contract(budget)
		cost := fc.RenterOutput.Value.Add(fc.HostOutput.Value).Add(x.cs.V2FileContractTax(fc))
		if cost.Cmp(total) > 0 {
			x.release(ins)
			return false
		}
		var txn types.V2Transaction
		x.v2Inputs(&txn, ins)
		txn.FileContracts = []types.V2FileContract{fc}
		if rest := total.Sub(cost); !rest.IsZero() {
			x.v2Distribute(&txn, rest)
		}
		c.SignV2(x.cs, &txn, x.curV2)
		x.addV2(txn)
		return true

	case "v2-revise":
		return x.v2Revise() != nil

	case "v2-revise+resolve":
		id := x.v2Revise()
		if id == nil {
			return false
		}
		k := []string{"v2-renew", "v2-proof", "v2-expire"}[x.rng.IntN(3)]
		if x.v2Resolve(k, id) {
			x.kinds = append(x.kinds, k+"-after-revision")
		}
		return true

	case "v2-renew", "v2-proof", "v2-expire":
		return x.v2Resolve(kind, nil)

	case "v2-attest":
		k := c.W.randKey(x.rng)
		val := make([]byte, x.rng.IntN(20))
		for i := range val {
			val[i] = byte(x.rng.IntN(256))
		}
		txn := types.V2Transaction{Attestations: []types.Attestation{{PublicKey: k.PublicKey(), Key: []string{"HostAnnouncement", "k", "x/y z"}[x.rng.IntN(3)], Value: val}}}
		if x.rng.IntN(2) == 0 {
			txn.Attestations = append(txn.Attestations, types.Attestation{PublicKey: c.W.randKey(x.rng).PublicKey(), Key: "second", Value: []byte{1}})
		}
		if x.rng.IntN(2) == 0 {
			if ins, total, ok := x.fundV2(types.NewCurrency64(1), 1); ok {
				x.v2Inputs(&txn, ins)
				x.v2Distribute(&txn, total)
			}
		}
		c.SignV2(x.cs, &txn, x.curV2)
		x.addV2(txn)
		return true

	case "v2-foundation":
		ph := x.cs.Index.Height
		e, ok := c.S.PickSC(x.rng, func(id types.SiacoinOutputID, e types.SiacoinElement) bool {
			l := c.W.Locks[e.SiacoinOutput.Address]
			return !x.usedSC[id] && e.SiacoinOutput.Address == x.cs.FoundationManagementAddress && l != nil && l.SpendableV2(ph, x.median) && e.MaturityHeight <= x.h && !e.SiacoinOutput.Value.IsZero()
		})
		if !ok {
			return false
		}
		x.usedSC[e.ID] = true
		var txn types.V2Transaction
		x.v2Inputs(&txn, []scIn{{el: e.Copy(), lock: c.W.Locks[e.SiacoinOutput.Address]}})
		na := c.W.StdV1(c.W.randKey(x.rng)).Addr
		if x.rng.IntN(6) == 0 {
			na = types.VoidAddress
		}
		txn.NewFoundationAddress = &na
		// leave an output at the (possibly new) management address
		keep := na
		if na == types.VoidAddress {
			keep = x.cs.FoundationManagementAddress
		}
		txn.SiacoinOutputs = []types.SiacoinOutput{{Value: e.SiacoinOutput.Value, Address: keep}}
		c.SignV2(x.cs, &txn, x.curV2)
		x.addV2(txn)
		return true

	case "v2-arb":
		data := make([]byte, 1+x.rng.IntN(40))
		for i := range data {
			data[i] = byte(x.rng.IntN(256))
		}
		x.addV2(types.V2Transaction{ArbitraryData: data})
		return true
	}
	return false
}

// newV2Contract draws a consensus-valid new contract whose renter+host value is about budget.
// V2ContractSpec fixes the file and heights of a scripted v2 contract.
type V2ContractSpec struct {
	Data                          []byte
	ProofHeight, ExpirationHeight uint64
	// Twin forms a contract identical to the one of the previous spec (same
	// keys, values and terms; only the ID differs).
	Twin bool
	// ZeroRoot commits the all-zero hash as the Merkle root of a file of
	// len(Data) bytes (no data hashes to it).
	ZeroRoot bool
}

func (x *bctx) newV2Contract(budget types.Currency) types.V2FileContract {
	c := x.c
	r, h := c.W.randKey(x.rng), c.W.randKey(x.rng)
	var fc types.V2FileContract
	fc.Filesize, fc.FileMerkleRoot = x.newFile()
	fc.Capacity = fc.Filesize + uint64(x.rng.IntN(3))*64
	fc.ProofHeight = x.h + uint64(x.rng.IntN(7))
	fc.ExpirationHeight = fc.ProofHeight + 1 + uint64(x.rng.IntN(5))
	vs := splitAmount(x.rng, budget, 2)
	for len(vs) < 2 {
		vs = append(vs, types.ZeroCurrency)
	}
	if x.rng.IntN(8) == 0 {
		vs[0], vs[1] = budget, types.ZeroCurrency // host gets nothing
	}
	fc.RenterOutput = types.SiacoinOutput{Value: vs[0], Address: x.dest().Addr}
	fc.HostOutput = types.SiacoinOutput{Value: vs[1], Address: x.dest().Addr}
	if !vs[1].IsZero() {
		fc.TotalCollateral = randAmount(x.rng, vs[1])
		fc.MissedHostValue = randAmount(x.rng, vs[1])
		if x.rng.IntN(4) == 0 {
			fc.MissedHostValue = vs[1]
		}
		if x.rng.IntN(6) == 0 {
			fc.MissedHostValue = types.ZeroCurrency
		}
	}
	fc.RenterPublicKey, fc.HostPublicKey = r.PublicKey(), h.PublicKey()
	fc.RevisionNumber = x.rng.Uint64N(3)
	return fc
}

func (x *bctx) v2Revise() *types.FileContractID {
	c := x.c
	n := c.Net.N
	e, ok := c.S.PickV2FC(x.rng, func(id types.FileContractID, e types.V2FileContractElement) bool {
		if x.fcTouched[id] == "resolved" {
			return false
		}
		cur := e.V2FileContract
		if cc, ok := x.curV2[id]; ok {
			cur = cc
		}
		_, okR := c.W.Priv(cur.RenterPublicKey)
		_, okH := c.W.Priv(cur.HostPublicKey)
		return okR && okH && e.V2FileContract.ProofHeight >= x.h && cur.ProofHeight >= x.h && cur.RevisionNumber < types.MaxRevisionNumber-5
	})
	if !ok {
		return nil
	}
	cur := e.V2FileContract
	if cc, ok := x.curV2[e.ID]; ok {
		cur = cc
	}
	rev := cur
	rev.RevisionNumber = cur.RevisionNumber + 1 + x.rng.Uint64N(3)
	if x.rng.IntN(2) == 0 {
		rev.Filesize, rev.FileMerkleRoot = x.newFile()
		if rev.Capacity < rev.Filesize {
			rev.Capacity = rev.Filesize
		}
	}
	if x.rng.IntN(3) == 0 {
		rev.Capacity += 64 * uint64(x.rng.IntN(4))
	}
	// move value renter -> host or back, keeping the sum
	sum := cur.RenterOutput.Value.Add(cur.HostOutput.Value)
	// host value must stay >= total collateral and >= missed host value
	minHost := cur.TotalCollateral
	newMissed := cur.MissedHostValue
	if x.rng.IntN(2) == 0 && !newMissed.IsZero() {
		newMissed = newMissed.Sub(randAmount(x.rng, newMissed)) // risk more collateral
	}
	floor := minHost
	if x.h >= n.HardforkV2.EphemeralOutputHeight && newMissed.Cmp(floor) > 0 {
		floor = newMissed
	}
	if floor.Cmp(sum) > 0 {
		return nil
	}
	hostV := floor.Add(randAmount(x.rng, sum.Sub(floor).Add(types.NewCurrency64(1))).Sub(types.NewCurrency64(1)))
	if x.h < n.HardforkV2.EphemeralOutputHeight && x.rng.IntN(2) == 0 {
		hostV = floor // legacy window: the host value may drop below the missed host value
	}
	if hostV.Cmp(sum) > 0 {
		hostV = sum
	}
	rev.HostOutput.Value = hostV
	rev.RenterOutput.Value = sum.Sub(hostV)
	rev.MissedHostValue = newMissed
	if x.rng.IntN(4) == 0 {
		rev.ProofHeight = x.h + uint64(x.rng.IntN(6))
		rev.ExpirationHeight = rev.ProofHeight + 1 + uint64(x.rng.IntN(5))
	}
	if x.rng.IntN(5) == 0 {
		rev.RenterPublicKey = c.W.randKey(x.rng).PublicKey() // key rotation, signed by the current keys
	}
	if x.rng.IntN(6) == 0 {
		rev.RenterOutput.Address = x.dest().Addr
	}
	txn := types.V2Transaction{FileContractRevisions: []types.V2FileContractRevision{{Parent: e.Copy(), Revision: rev}}}
	if x.rng.IntN(2) == 0 {
		if ins, total, ok := x.fundV2(types.NewCurrency64(1), 1); ok {
			x.v2Inputs(&txn, ins)
			x.v2Distribute(&txn, total)
		}
	}
	c.SignV2(x.cs, &txn, x.curV2)
	x.addV2(txn)
	x.curV2[e.ID] = txn.FileContractRevisions[0].Revision
	x.fcTouched[e.ID] = "revised"
	id := e.ID
	return &id
}

func (x *bctx) v2Resolve(kind string, only *types.FileContractID) bool {
	c := x.c
	ph := x.cs.Index.Height
	e, ok := c.S.PickV2FC(x.rng, func(id types.FileContractID, e types.V2FileContractElement) bool {
		if only != nil {
			if id != *only {
				return false
			}
		} else if x.fcTouched[id] != "" {
			return false
		}
		fc := e.V2FileContract // resolutions are judged against the parent as it stands in the accumulator
		switch kind {
		case "v2-renew":
			_, okR := c.W.Priv(fc.RenterPublicKey)
			_, okH := c.W.Priv(fc.HostPublicKey)
			return okR && okH
		case "v2-proof":
			_, have := c.Files[fc.FileMerkleRoot]
			_, haveIdx := c.S.CIEs[fc.ProofHeight]
			return have && fc.Filesize > 0 && fc.ProofHeight <= ph && haveIdx
		case "v2-expire":
			return x.h > fc.ExpirationHeight
		}
		return false
	})
	if !ok {
		return false
	}
	fc := e.V2FileContract
	var txn types.V2Transaction
	switch kind {
	case "v2-renew":
		total := fc.RenterOutput.Value.Add(fc.HostOutput.Value)
		ren := &types.V2FileContractRenewal{}
		// new contract funded partly by rollover
		ins, inTotal, ok := x.fundV2(types.Siacoins(1), 2)
		if !ok {
			return false
		}
		budget := randAmount(x.rng, inTotal.Div64(2))
		if budget.Cmp(types.NewCurrency64(1000)) < 0 {
			x.release(ins)
			return false
		}
		nc := x.newV2Contract(budget)
		nc.RenterPublicKey, nc.HostPublicKey = fc.RenterPublicKey, fc.HostPublicKey
		ncCost := nc.RenterOutput.Value.Add(nc.HostOutput.Value).Add(x.cs.V2FileContractTax(nc))
		// rollover shapes: none / partial / full on each side, bounded by the new contract cost
		pick := func(avail types.Currency) types.Currency {
			switch x.rng.IntN(3) {
			case 0:
				return types.ZeroCurrency
			case 1:
				return avail
			default:
				if avail.IsZero() {
					return avail
				}
				return randAmount(x.rng, avail)
			}
		}
		rr := pick(fc.RenterOutput.Value)
		hr := pick(fc.HostOutput.Value)
		if rr.Add(hr).Cmp(ncCost) > 0 {
			// shrink to fit
			if rr.Cmp(ncCost) > 0 {
				rr = ncCost
			}
			hr = ncCost.Sub(rr)
			if hr.Cmp(fc.HostOutput.Value) > 0 {
				hr = fc.HostOutput.Value
			}
		}
		ren.RenterRollover, ren.HostRollover = rr, hr
		// final outputs may shift value between the parties as long as the total matches
		remain := total.Sub(rr).Sub(hr)
		if x.rng.IntN(3) == 0 {
			fr := types.ZeroCurrency
			if !remain.IsZero() {
				fr = randAmount(x.rng, remain)
			}
			ren.FinalRenterOutput = types.SiacoinOutput{Value: fr, Address: fc.RenterOutput.Address}
			ren.FinalHostOutput = types.SiacoinOutput{Value: remain.Sub(fr), Address: fc.HostOutput.Address}
		} else {
			ren.FinalRenterOutput = types.SiacoinOutput{Value: fc.RenterOutput.Value.Sub(rr), Address: fc.RenterOutput.Address}
			ren.FinalHostOutput = types.SiacoinOutput{Value: fc.HostOutput.Value.Sub(hr), Address: fc.HostOutput.Address}
		}
		ren.NewContract = nc
		need := ncCost.Sub(rr.Add(hr))
		if need.Cmp(inTotal) > 0 {
			x.release(ins)
			return false
		}
		x.v2Inputs(&txn, ins)
		txn.FileContractResolutions = []types.V2FileContractResolution{{Parent: e.Copy(), Resolution: ren}}
		if rest := inTotal.Sub(need); !rest.IsZero() {
			x.v2Distribute(&txn, rest)
		}
	case "v2-proof":
		data := c.Files[fc.FileMerkleRoot]
		if uint64(len(data)) != fc.Filesize {
			return false
		}
		cie := c.S.CIEs[fc.ProofHeight].Copy()
		idx := x.cs.StorageProofLeafIndex(fc.Filesize, cie.ChainIndex.ID, e.ID)
		sp := &types.V2StorageProof{ProofIndex: cie, Leaf: refmodel.FileSegment(data, int(idx))}
		for _, h := range refmodel.Proof(refmodel.FileLeaves(data), int(idx)) {
			sp.Proof = append(sp.Proof, types.Hash256(h))
		}
		txn.FileContractResolutions = []types.V2FileContractResolution{{Parent: e.Copy(), Resolution: sp}}
	case "v2-expire":
		txn.FileContractResolutions = []types.V2FileContractResolution{{Parent: e.Copy(), Resolution: &types.V2FileContractExpiration{}}}
	}
	if kind != "v2-renew" && x.rng.IntN(2) == 0 {
		if ins, total, ok := x.fundV2(types.NewCurrency64(1), 1); ok {
			x.v2Inputs(&txn, ins)
			x.v2Distribute(&txn, total)
		}
	}
	c.SignV2(x.cs, &txn, x.curV2)
	x.addV2(txn)
	x.fcTouched[e.ID] = "resolved"
	return true
}
