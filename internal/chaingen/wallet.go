package chaingen

import (
	"crypto/sha256"
	"encoding/binary"
	"math/rand/v2"
	"time"

	"go.sia.tech/core/types"
)

// A Lock is an address the generator knows how to spend from.
type Lock struct {
	Kind string
	Addr types.Address

	// v1 form (nil if the address is not the hash of unlock conditions)
	UC        *types.UnlockConditions
	UCSigners []int // indices into UC.PublicKeys that sign (len == SignaturesRequired); -1 entries = unknown-algorithm key (any bytes)

	// v2 form: the policy as it must be revealed (unsatisfied threshold
	// children already opaque), the full policy, and the witnesses in order
	Policy     types.SpendPolicy
	FullPolicy types.SpendPolicy
	PolKeys    []types.PublicKey
	Preimages  [][32]byte

	// spendability
	V1MinChild  uint64    // v1: child height must be >= this
	V2MinParent uint64    // v2: parent height must be >= this
	V2AfterTime time.Time // v2: median timestamp must be strictly after this (zero = none)
}

// Wallet holds the actors' keys and every lock the generator created.
type Wallet struct {
	Keys   []types.PrivateKey
	byPub  map[types.PublicKey]types.PrivateKey
	Locks  map[types.Address]*Lock
	order  []types.Address
	seedRd *rand.Rand
}

func NewWallet(rng *rand.Rand, nKeys int) *Wallet {
	w := &Wallet{byPub: map[types.PublicKey]types.PrivateKey{}, Locks: map[types.Address]*Lock{}}
	for i := 0; i < nKeys; i++ {
		var seed [32]byte
		binary.LittleEndian.PutUint64(seed[:], rng.Uint64())
		binary.LittleEndian.PutUint64(seed[8:], rng.Uint64())
		k := types.NewPrivateKeyFromSeed(seed[:])
		w.Keys = append(w.Keys, k)
		w.byPub[k.PublicKey()] = k
	}
	return w
}

// Priv returns the private key for pk (ok=false for foreign keys).
func (w *Wallet) Priv(pk types.PublicKey) (types.PrivateKey, bool) {
	k, ok := w.byPub[pk]
	return k, ok
}

func (w *Wallet) add(l *Lock) *Lock {
	if old, ok := w.Locks[l.Addr]; ok {
		return old
	}
	w.Locks[l.Addr] = l
	w.order = append(w.order, l.Addr)
	return l
}

func (w *Wallet) randKey(rng *rand.Rand) types.PrivateKey { return w.Keys[rng.IntN(len(w.Keys))] }

// StdV1 is the standard 1-of-1 unlock-conditions address of key k.
func (w *Wallet) StdV1(k types.PrivateKey) *Lock {
	uc := types.StandardUnlockConditions(k.PublicKey())
	return w.add(&Lock{Kind: "uc-std", Addr: uc.UnlockHash(), UC: &uc, UCSigners: []int{0},
		Policy: types.SpendPolicy{Type: types.PolicyTypeUnlockConditions(uc)}, FullPolicy: types.SpendPolicy{Type: types.PolicyTypeUnlockConditions(uc)},
		PolKeys: []types.PublicKey{k.PublicKey()}})
}

// StdV2 is the standard v2 public-key address of key k.
func (w *Wallet) StdV2(k types.PrivateKey) *Lock {
	p := types.PolicyPublicKey(k.PublicKey())
	return w.add(&Lock{Kind: "pk", Addr: p.Address(), Policy: p, FullPolicy: p, PolKeys: []types.PublicKey{k.PublicKey()}})
}

// Anyone is the anyone-can-spend address.
func (w *Wallet) Anyone() *Lock {
	p := types.AnyoneCanSpend()
	return w.add(&Lock{Kind: "anyone", Addr: p.Address(), Policy: p, FullPolicy: p})
}

// NewUCLock draws unlock conditions: m-of-n, optional timelock, optionally
// with an unknown-algorithm key. nearHeight is the current height (timelocks are
// placed close to it so the output becomes spendable within the run).
func (w *Wallet) NewUCLock(rng *rand.Rand, nearHeight uint64) *Lock {
	n := 1 + rng.IntN(3)
	m := 1 + rng.IntN(n)
	uc := types.UnlockConditions{SignaturesRequired: uint64(m)}
	kind := "uc-multisig"
	var priv []types.PrivateKey
	unknownAt := -1
	if rng.IntN(5) == 0 {
		unknownAt = rng.IntN(n)
		kind = "uc-unknown-alg"
	}
	for i := 0; i < n; i++ {
		if i == unknownAt {
			uc.PublicKeys = append(uc.PublicKeys, types.UnlockKey{Algorithm: types.NewSpecifier("futurealg"), Key: []byte{1, 2, 3, byte(rng.IntN(256))}})
			priv = append(priv, nil)
			continue
		}
		k := w.randKey(rng)
		uc.PublicKeys = append(uc.PublicKeys, k.PublicKey().UnlockKey())
		priv = append(priv, k)
	}
	if rng.IntN(3) == 0 {
		uc.Timelock = nearHeight + uint64(rng.IntN(6))
		kind += "-timelock"
	}
	// choose signers: the first m indices of a random permutation, sorted ascending
	perm := rng.Perm(n)[:m]
	for i := 0; i < len(perm); i++ {
		for j := i + 1; j < len(perm); j++ {
			if perm[j] < perm[i] {
				perm[i], perm[j] = perm[j], perm[i]
			}
		}
	}
	// The v2 uc policy consumes signatures greedily in key order: with listed
	// key i it tries sigs[0]; an ed25519 key whose signature does not match is
	// skipped. Signing with the chosen ascending subset works there as well.
	l := &Lock{Kind: kind, Addr: uc.UnlockHash(), UC: &uc, UCSigners: perm,
		Policy: types.SpendPolicy{Type: types.PolicyTypeUnlockConditions(uc)}, FullPolicy: types.SpendPolicy{Type: types.PolicyTypeUnlockConditions(uc)},
		V1MinChild: uc.Timelock, V2MinParent: uc.Timelock}
	for _, i := range perm {
		if priv[i] == nil {
			l.PolKeys = append(l.PolKeys, types.PublicKey{}) // placeholder: any signature
		} else {
			l.PolKeys = append(l.PolKeys, priv[i].PublicKey())
		}
	}
	if _, ok := uc.PublicKeys[0], true; ok && kind == "uc-multisig" && n == 1 && uc.Timelock == 0 {
		l.Kind = "uc-std"
	}
	return w.add(l)
}

type polGen struct {
	full, revealed types.SpendPolicy
	keys           []types.PublicKey
	pre            [][32]byte
	minParent      uint64
	after          time.Time
	kind           string
}

func (w *Wallet) genPolicy(rng *rand.Rand, depth int, nearHeight uint64, nearTime time.Time) polGen {
	c := rng.IntN(10)
	if depth <= 0 && c >= 6 {
		c = rng.IntN(6)
	}
	switch {
	case c < 3:
		k := w.randKey(rng)
		p := types.PolicyPublicKey(k.PublicKey())
		return polGen{full: p, revealed: p, keys: []types.PublicKey{k.PublicKey()}, kind: "pk"}
	case c == 3:
		var pre [32]byte
		binary.LittleEndian.PutUint64(pre[:], rng.Uint64())
		p := types.PolicyHash(sha256.Sum256(pre[:]))
		return polGen{full: p, revealed: p, pre: [][32]byte{pre}, kind: "hash"}
	case c == 4:
		h := nearHeight + uint64(rng.IntN(5))
		if nearHeight > 2 && rng.IntN(2) == 0 {
			h = nearHeight - uint64(rng.IntN(3))
		}
		p := types.PolicyAbove(h)
		return polGen{full: p, revealed: p, minParent: h, kind: "above"}
	case c == 5:
		t := nearTime.Add(time.Duration(rng.IntN(5)-2) * time.Hour)
		p := types.PolicyAfter(t)
		return polGen{full: p, revealed: p, after: t, kind: "after"}
	default:
		m := 1 + rng.IntN(3)
		n := rng.IntN(m + 1)
		subs := make([]polGen, m)
		for i := range subs {
			subs[i] = w.genPolicy(rng, depth-1, nearHeight, nearTime)
		}
		chosen := map[int]bool{}
		for _, i := range rng.Perm(m)[:n] {
			chosen[i] = true
		}
		g := polGen{kind: "thresh"}
		var fullOf, revOf []types.SpendPolicy
		for i, s := range subs {
			fullOf = append(fullOf, s.full)
			if chosen[i] {
				revOf = append(revOf, s.revealed)
				g.keys = append(g.keys, s.keys...)
				g.pre = append(g.pre, s.pre...)
				if s.minParent > g.minParent {
					g.minParent = s.minParent
				}
				if s.after.After(g.after) {
					g.after = s.after
				}
			} else {
				revOf = append(revOf, types.PolicyOpaque(s.full))
			}
		}
		g.full = types.PolicyThreshold(uint8(n), fullOf)
		g.revealed = types.PolicyThreshold(uint8(n), revOf)
		return g
	}
}

// NewPolicyLock draws a v2 policy lock (pk, hash, above, after, thresholds of
// those up to depth 3).
func (w *Wallet) NewPolicyLock(rng *rand.Rand, nearHeight uint64, nearTime time.Time) *Lock {
	g := w.genPolicy(rng, 3, nearHeight, nearTime)
	return w.add(&Lock{Kind: g.kind, Addr: g.full.Address(), Policy: g.revealed, FullPolicy: g.full, PolKeys: g.keys, Preimages: g.pre,
		V1MinChild: never, V2MinParent: g.minParent, V2AfterTime: g.after})
}

// PickLock returns a destination for a new output. v2ok says whether v2-only
// lock kinds may be used (they are unspendable on a chain that never reaches v2).
func (w *Wallet) PickLock(rng *rand.Rand, v2ok bool, nearHeight uint64, nearTime time.Time) *Lock {
	switch rng.IntN(30) {
	case 0:
		return w.NewManyKeyUCLock(rng)
	case 1:
		return w.ZeroSigUC(rng)
	}
	c := rng.IntN(10)
	switch {
	case c < 3:
		return w.StdV1(w.randKey(rng))
	case c < 5:
		return w.NewUCLock(rng, nearHeight)
	case c < 7 && v2ok:
		return w.StdV2(w.randKey(rng))
	case c < 9 && v2ok:
		return w.NewPolicyLock(rng, nearHeight, nearTime)
	case v2ok:
		return w.Anyone()
	default:
		return w.StdV1(w.randKey(rng))
	}
}

// SpendableV1 reports whether l can be spent by a v1 transaction in a block at childHeight.
func (l *Lock) SpendableV1(childHeight uint64) bool {
	return l.UC != nil && l.V1MinChild <= childHeight
}

// SpendableV2 reports whether l can be spent by a v2 transaction on a parent
// state of the given height and median timestamp.
func (l *Lock) SpendableV2(parentHeight uint64, median time.Time) bool {
	if l.V2MinParent > parentHeight {
		return false
	}
	if !l.V2AfterTime.IsZero() && !median.After(l.V2AfterTime) {
		return false
	}
	return true
}

// Satisfy builds the v2 SatisfiedPolicy for sigHash.
func (w *Wallet) Satisfy(l *Lock, sigHash types.Hash256) types.SatisfiedPolicy {
	sp := types.SatisfiedPolicy{Policy: l.Policy}
	for _, pk := range l.PolKeys {
		if k, ok := w.byPub[pk]; ok {
			sp.Signatures = append(sp.Signatures, k.SignHash(sigHash))
		} else {
			sp.Signatures = append(sp.Signatures, types.Signature{0xAA}) // unknown-algorithm key: any bytes
		}
	}
	sp.Preimages = append(sp.Preimages, l.Preimages...)
	return sp
}

// NewManyKeyUCLock draws unlock conditions with more than 64 listed keys
// (m-of-n with the signers among the highest indices).
func (w *Wallet) NewManyKeyUCLock(rng *rand.Rand) *Lock {
	n := 65 + rng.IntN(8)
	m := 2 + rng.IntN(2)
	uc := types.UnlockConditions{SignaturesRequired: uint64(m)}
	// distinct keys: derive fresh keys so that indices identify keys uniquely
	var privs []types.PrivateKey
	for i := 0; i < n; i++ {
		var seed [32]byte
		binary.LittleEndian.PutUint64(seed[:], rng.Uint64())
		binary.LittleEndian.PutUint64(seed[8:], uint64(i))
		k := types.NewPrivateKeyFromSeed(seed[:])
		privs = append(privs, k)
		w.byPub[k.PublicKey()] = k
		uc.PublicKeys = append(uc.PublicKeys, k.PublicKey().UnlockKey())
	}
	var signers []int
	for i := n - m; i < n; i++ {
		signers = append(signers, i)
	}
	if rng.IntN(2) == 0 {
		signers[0] = rng.IntN(n - m) // one low index, the rest high
	}
	l := &Lock{Kind: "uc-many-keys", Addr: uc.UnlockHash(), UC: &uc, UCSigners: signers,
		Policy: types.SpendPolicy{Type: types.PolicyTypeUnlockConditions(uc)}, FullPolicy: types.SpendPolicy{Type: types.PolicyTypeUnlockConditions(uc)}}
	for _, i := range signers {
		l.PolKeys = append(l.PolKeys, privs[i].PublicKey())
	}
	return w.add(l)
}

// ZeroSigUC is an unlock-conditions address that requires no signature
// (anyone can spend it); with an optional list of keys that are never needed.
func (w *Wallet) ZeroSigUC(rng *rand.Rand) *Lock {
	uc := types.UnlockConditions{}
	if rng.IntN(2) == 0 {
		uc.PublicKeys = []types.UnlockKey{w.randKey(rng).PublicKey().UnlockKey()}
	}
	return w.add(&Lock{Kind: "uc-zero-sigs", Addr: uc.UnlockHash(), UC: &uc, UCSigners: nil,
		Policy: types.SpendPolicy{Type: types.PolicyTypeUnlockConditions(uc)}, FullPolicy: types.SpendPolicy{Type: types.PolicyTypeUnlockConditions(uc)}})
}
