package chaingen

import (
	"bytes"

	"go.sia.tech/core/types"
	"verif/internal/refmodel"
)

func (x *bctx) addV1(txn types.Transaction) {
	// register outputs for in-block spending
	for i, o := range txn.SiacoinOutputs {
		x.newSC = append(x.newSC, ephSC{byV1: true, el: types.SiacoinElement{
			ID: txn.SiacoinOutputID(i), StateElement: types.StateElement{LeafIndex: types.UnassignedLeafIndex}, SiacoinOutput: o}})
	}
	x.v1 = append(x.v1, txn)
}

func (x *bctx) v1Inputs(txn *types.Transaction, ins []scIn) {
	for _, in := range ins {
		txn.SiacoinInputs = append(txn.SiacoinInputs, types.SiacoinInput{ParentID: in.el.ID, UnlockConditions: *in.lock.UC})
	}
}

// payOut distributes amount over 1..3 outputs (plus optional fees) on a v1 txn.
func (x *bctx) v1Distribute(txn *types.Transaction, amount types.Currency, allowFees bool) {
	if allowFees && x.rng.IntN(3) > 0 && amount.Cmp(types.NewCurrency64(10)) > 0 {
		nf := 1 + x.rng.IntN(2)
		for i := 0; i < nf; i++ {
			f := randAmount(x.rng, amount.Div64(20))
			txn.MinerFees = append(txn.MinerFees, f)
			amount = amount.Sub(f)
		}
	}
	for _, v := range splitAmount(x.rng, amount, 1+x.rng.IntN(3)) {
		txn.SiacoinOutputs = append(txn.SiacoinOutputs, types.SiacoinOutput{Value: v, Address: x.dest().Addr})
	}
}

func (x *bctx) buildV1(kind string) bool {
	c := x.c
	n := c.Net.N
	switch kind {
	case "v1-pay", "v1-pay-partial":
		ins, total, ok := x.fundV1(types.NewCurrency64(1), 3)
		if !ok {
			return false
		}
		var txn types.Transaction
		x.v1Inputs(&txn, ins)
		x.v1Distribute(&txn, total, true)
		if x.rng.IntN(4) == 0 {
			txn.ArbitraryData = append(txn.ArbitraryData, []byte("note"))
		}
		partial := kind == "v1-pay-partial"
		c.SignV1(x.cs, &txn, func(types.Hash256) bool { return partial })
		x.addV1(txn)
		return true

	case "v1-sf", "v1-sf-devaddr":
		var e types.SiafundElement
		var uc types.UnlockConditions
		if kind == "v1-sf-devaddr" {
			if x.h < n.HardforkDevAddr.Height {
				return false
			}
			var ok bool
			e, ok = c.S.PickSF(x.rng, func(id types.SiafundOutputID, e types.SiafundElement) bool {
				return !x.usedSF[id] && e.SiafundOutput.Address == c.DevOld.Addr
			})
			if !ok {
				return false
			}
			uc = *c.DevNew.UC
		} else {
			var ok bool
			e, ok = c.S.PickSF(x.rng, func(id types.SiafundOutputID, e types.SiafundElement) bool {
				l := c.W.Locks[e.SiafundOutput.Address]
				return !x.usedSF[id] && l != nil && l.SpendableV1(x.h)
			})
			if !ok {
				return false
			}
			uc = *c.W.Locks[e.SiafundOutput.Address].UC
		}
		x.usedSF[e.ID] = true
		var txn types.Transaction
		txn.SiafundInputs = []types.SiafundInput{{ParentID: e.ID, UnlockConditions: uc, ClaimAddress: x.dest().Addr}}
		rest := e.SiafundOutput.Value
		for rest > 0 {
			v := rest
			if rest > 1 && x.rng.IntN(2) == 0 {
				v = 1 + x.rng.Uint64N(rest-1)
			}
			txn.SiafundOutputs = append(txn.SiafundOutputs, types.SiafundOutput{Value: v, Address: x.dest().Addr})
			rest -= v
		}
		// optionally pay a fee from a siacoin input
		if x.rng.IntN(2) == 0 {
			if ins, total, ok := x.fundV1(types.NewCurrency64(1), 1); ok {
				x.v1Inputs(&txn, ins)
				x.v1Distribute(&txn, total, true)
			}
		}
		c.SignV1(x.cs, &txn, nil)
		// the claim output is immature; not registered for in-block spends
		x.addV1(txn)
		return true

	case "v1-form":
		return x.v1Form() != nil

	case "v1-revise":
		return x.v1Revise(false)

	case "v1-revise+proof":
		// a contract whose window opens exactly at this height: revise, then prove in the same block
		return x.v1Revise(true)

	case "v1-proof":
		return x.v1Proof(nil)

	case "v1-form+revise":
		// a contract formed and revised by two transactions of the same block
		t := x.v1Form()
		if t == nil {
			return false
		}
		id := t.FileContractID(0)
		return x.v1ReviseOf(&id, false)

	case "v1-form+proof":
		// a contract formed with its window opening in this very block and proven in the same block
		if x.h < 1 {
			return false
		}
		data := make([]byte, []int{0, 1, 64, 65, 200, 1000}[x.rng.IntN(6)])
		for i := range data {
			data[i] = byte(x.rng.IntN(256))
		}
		t := x.v1FormSpec(&V1ContractSpec{Data: data, WindowStart: x.h, WindowEnd: x.h + 1 + uint64(x.rng.IntN(4))})
		if t == nil {
			return false
		}
		id := t.FileContractID(0)
		x.v1Proof(&id)
		return true

	case "v1-foundation":
		if x.h < n.HardforkFoundation.Height {
			return false
		}
		e, ok := c.S.PickSC(x.rng, func(id types.SiacoinOutputID, e types.SiacoinElement) bool {
			a := e.SiacoinOutput.Address
			l := c.W.Locks[a]
			return !x.usedSC[id] && (a == x.cs.FoundationSubsidyAddress || a == x.cs.FoundationManagementAddress) && l != nil && l.SpendableV1(x.h) && e.MaturityHeight <= x.h
		})
		if !ok {
			return false
		}
		x.usedSC[e.ID] = true
		var txn types.Transaction
		x.v1Inputs(&txn, []scIn{{el: e, lock: c.W.Locks[e.SiacoinOutput.Address]}})
		// keep one output at each (new) foundation address so later updates stay possible
		np := c.W.StdV1(c.W.randKey(x.rng)).Addr
		nf := c.W.StdV1(c.W.randKey(x.rng)).Addr
		half := e.SiacoinOutput.Value.Div64(2)
		if half.IsZero() {
			return false
		}
		txn.SiacoinOutputs = []types.SiacoinOutput{{Value: half, Address: nf}, {Value: e.SiacoinOutput.Value.Sub(half), Address: np}}
		var buf bytes.Buffer
		enc := types.NewEncoder(&buf)
		types.FoundationAddressUpdate{NewPrimary: np, NewFailsafe: nf}.EncodeTo(enc)
		enc.Flush()
		txn.ArbitraryData = [][]byte{append(append([]byte{}, types.SpecifierFoundation[:]...), buf.Bytes()...)}
		c.SignV1(x.cs, &txn, nil)
		x.addV1(txn)
		return true

	case "v1-arb":
		data := make([]byte, 1+x.rng.IntN(40))
		for i := range data {
			data[i] = byte(x.rng.IntN(256))
		}
		x.addV1(types.Transaction{ArbitraryData: [][]byte{data}})
		return true
	}
	return false
}

// contract UC for a renter/host pair
func (x *bctx) v1ContractUC() (types.UnlockConditions, *V1ContractInfo) {
	r, h := x.c.W.randKey(x.rng), x.c.W.randKey(x.rng)
	uc := types.UnlockConditions{PublicKeys: []types.UnlockKey{r.PublicKey().UnlockKey(), h.PublicKey().UnlockKey()}, SignaturesRequired: 2}
	info := &V1ContractInfo{UC: uc, Renter: r, Host: h}
	x.c.V1Infos[uc.UnlockHash()] = info
	return uc, info
}

// V1ContractSpec fixes the file and window of a scripted v1 contract.
type V1ContractSpec struct {
	Data                   []byte
	WindowStart, WindowEnd uint64
}

func (x *bctx) v1Form() *types.Transaction { return x.v1FormSpec(nil) }

func (x *bctx) v1FormSpec(spec *V1ContractSpec) *types.Transaction {
	c := x.c
	// payout first, then tax, then split the remainder
	ins, total, ok := x.fundV1(types.Siacoins(1), 2)
	if !ok {
		return nil
	}
	payout := randAmount(x.rng, total.Div64(2))
	if payout.Cmp(types.NewCurrency64(100000)) < 0 {
		payout = types.NewCurrency64(100000 + x.rng.Uint64N(1000000))
		if payout.Cmp(total) > 0 {
			for _, in := range ins {
				delete(x.usedSC, in.el.ID)
			}
			return nil
		}
	}
	fc := types.FileContract{Payout: payout, RevisionNumber: x.rng.Uint64N(3)}
	tax := x.cs.FileContractTax(fc)
	validSum := payout.Sub(tax)
	if validSum.IsZero() {
		for _, in := range ins {
			delete(x.usedSC, in.el.ID)
		}
		return nil
	}
	fc.Filesize, fc.FileMerkleRoot = x.newFile()
	fc.WindowStart = x.h + uint64(x.rng.IntN(7))
	fc.WindowEnd = fc.WindowStart + 1 + uint64(x.rng.IntN(5))
	if spec != nil {
		r := types.Hash256(refmodel.FileRoot(spec.Data))
		c.Files[r] = spec.Data
		fc.Filesize, fc.FileMerkleRoot = uint64(len(spec.Data)), r
		fc.WindowStart, fc.WindowEnd = spec.WindowStart, spec.WindowEnd
	}
	uc, _ := x.v1ContractUC()
	fc.UnlockHash = uc.UnlockHash()
	rAddr, hAddr := x.dest().Addr, x.dest().Addr
	vs := splitAmount(x.rng, validSum, 2)
	for len(vs) < 2 {
		vs = append(vs, types.ZeroCurrency)
	}
	fc.ValidProofOutputs = []types.SiacoinOutput{{Value: vs[0], Address: rAddr}, {Value: vs[1], Address: hAddr}}
	ms := splitAmount(x.rng, validSum, 3)
	for len(ms) < 3 {
		ms = append(ms, types.ZeroCurrency)
	}
	fc.MissedProofOutputs = []types.SiacoinOutput{{Value: ms[0], Address: rAddr}, {Value: ms[1], Address: hAddr}, {Value: ms[2], Address: types.VoidAddress}}
	var txn types.Transaction
	x.v1Inputs(&txn, ins)
	txn.FileContracts = []types.FileContract{fc}
	rest := total.Sub(payout)
	if !rest.IsZero() {
		x.v1Distribute(&txn, rest, true)
	}
	c.SignV1(x.cs, &txn, func(types.Hash256) bool { return x.rng.IntN(4) == 0 })
	x.addV1(txn)
	if x.formedV1 == nil {
		x.formedV1 = map[types.FileContractID]types.FileContract{}
	}
	x.formedV1[txn.FileContractID(0)] = fc
	return &x.v1[len(x.v1)-1]
}

func sumOutputs(os []types.SiacoinOutput) (s types.Currency) {
	for _, o := range os {
		s = s.Add(o.Value)
	}
	return
}

func (x *bctx) v1Revise(thenProve bool) bool { return x.v1ReviseOf(nil, thenProve) }

// v1ReviseOf revises a contract of the store, or (only != nil) the contract with that ID formed earlier in the block.
func (x *bctx) v1ReviseOf(only *types.FileContractID, thenProve bool) bool {
	c := x.c
	if only != nil {
		fc, ok := x.formedV1[*only]
		if !ok {
			return false
		}
		return x.v1ReviseElem(types.FileContractElement{ID: *only, FileContract: fc}, thenProve)
	}
	e, ok := c.S.PickFC(x.rng, func(id types.FileContractID, e types.FileContractElement) bool {
		if x.fcTouched[id] == "resolved" {
			return false
		}
		cur := e.FileContract
		if cc, ok := x.curV1[id]; ok {
			cur = cc
		}
		if _, known := c.V1Infos[cur.UnlockHash]; !known {
			return false
		}
		if thenProve {
			return cur.WindowStart == x.h && x.fcTouched[id] == ""
		}
		return cur.WindowStart >= x.h && cur.RevisionNumber < types.MaxRevisionNumber-5
	})
	if !ok {
		return false
	}
	return x.v1ReviseElem(e, thenProve)
}

func (x *bctx) v1ReviseElem(e types.FileContractElement, thenProve bool) bool {
	c := x.c
	cur := e.FileContract
	if cc, ok := x.curV1[e.ID]; ok {
		cur = cc
	}
	info := c.V1Infos[cur.UnlockHash]
	if info == nil || cur.WindowStart < x.h {
		return false
	}
	rev := cur
	rev.RevisionNumber = cur.RevisionNumber + 1 + x.rng.Uint64N(3)
	if x.rng.IntN(2) == 0 {
		rev.Filesize, rev.FileMerkleRoot = x.newFile()
	}
	if !thenProve && x.rng.IntN(3) == 0 {
		rev.WindowStart = x.h + uint64(x.rng.IntN(6))
		rev.WindowEnd = rev.WindowStart + 1 + uint64(x.rng.IntN(5))
	}
	// move value between the outputs keeping each sum
	vs := splitAmount(x.rng, sumOutputs(cur.ValidProofOutputs), 2)
	for len(vs) < 2 {
		vs = append(vs, types.ZeroCurrency)
	}
	rev.ValidProofOutputs = []types.SiacoinOutput{{Value: vs[0], Address: cur.ValidProofOutputs[0].Address}, {Value: vs[1], Address: cur.ValidProofOutputs[1].Address}}
	msum := sumOutputs(cur.MissedProofOutputs)
	ms := splitAmount(x.rng, msum, 3)
	for len(ms) < 3 {
		ms = append(ms, types.ZeroCurrency)
	}
	rev.MissedProofOutputs = []types.SiacoinOutput{{Value: ms[0], Address: cur.MissedProofOutputs[0].Address}, {Value: ms[1], Address: cur.MissedProofOutputs[1].Address}, {Value: ms[2], Address: types.VoidAddress}}
	if x.rng.IntN(4) == 0 {
		uc2, _ := x.v1ContractUC()
		rev.UnlockHash = uc2.UnlockHash()
	}
	txn := types.Transaction{FileContractRevisions: []types.FileContractRevision{{ParentID: e.ID, UnlockConditions: info.UC, FileContract: rev}}}
	if x.rng.IntN(2) == 0 {
		if ins, total, ok := x.fundV1(types.NewCurrency64(1), 1); ok {
			x.v1Inputs(&txn, ins)
			x.v1Distribute(&txn, total, true)
		}
	}
	c.SignV1(x.cs, &txn, func(types.Hash256) bool { return x.rng.IntN(4) == 0 })
	x.addV1(txn)
	rev.Payout = cur.Payout
	x.curV1[e.ID] = rev
	x.fcTouched[e.ID] = "revised"
	if thenProve {
		id := e.ID
		if x.v1Proof(&id) {
			x.kinds = append(x.kinds, "v1-proof-after-revision")
		}
	}
	return true
}

// honestProofPossible reports whether an honest storage proof of leaf idx is
// accepted by the rules of the era of child height h (see DESIGN C07).
func HonestV1ProofPossible(taxH, spH, h, filesize, idx uint64) bool {
	if filesize == 0 {
		return h >= spH && h >= taxH // only the post-fork rule accepts (any proof) for an empty file
	}
	last := (filesize - 1) / 64
	if h >= taxH && h < spH && idx == last && filesize%64 == 0 {
		return false // middle era hashes the last leaf of an aligned file as zeros
	}
	return true
}

func (x *bctx) v1Proof(only *types.FileContractID) bool {
	var e types.FileContractElement
	ok := false
	if only != nil {
		if fc, formed := x.formedV1[*only]; formed {
			e, ok = types.FileContractElement{ID: *only, FileContract: fc}, true
		}
	}
	if !ok {
		e, ok = x.pickFCForProof(only)
	}
	if !ok {
		return false
	}
	return x.v1ProofOf(e)
}

func (x *bctx) pickFCForProof(only *types.FileContractID) (types.FileContractElement, bool) {
	c := x.c
	return c.S.PickFC(x.rng, func(id types.FileContractID, e types.FileContractElement) bool {
		if only != nil {
			return id == *only
		}
		if x.fcTouched[id] != "" {
			return false
		}
		fc := e.FileContract
		_, have := c.Files[fc.FileMerkleRoot]
		return have && fc.WindowStart >= 1 && fc.WindowStart <= x.h && x.h <= fc.WindowEnd
	})
}

func (x *bctx) v1ProofOf(e types.FileContractElement) bool {
	c := x.c
	n := c.Net.N
	fc := e.FileContract
	if cc, ok := x.curV1[e.ID]; ok {
		fc = cc
	}
	if fc.WindowStart < 1 {
		return false
	}
	data, have := c.Files[fc.FileMerkleRoot]
	if !have || uint64(len(data)) != fc.Filesize {
		return false
	}
	windowID, ok := c.BlockIDAt(fc.WindowStart - 1)
	if !ok {
		return false
	}
	idx := x.cs.StorageProofLeafIndex(fc.Filesize, windowID, e.ID)
	if !HonestV1ProofPossible(n.HardforkTax.Height, n.HardforkStorageProof.Height, x.h, fc.Filesize, idx) {
		c.Stats["v1_proof_skipped_historical_incomplete"]++
		return false
	}
	sp := types.StorageProof{ParentID: e.ID}
	if fc.Filesize > 0 {
		leaves := refmodel.FileLeaves(data)
		sp.Leaf = refmodel.FileSegment(data, int(idx))
		for _, h := range refmodel.Proof(leaves, int(idx)) {
			sp.Proof = append(sp.Proof, types.Hash256(h))
		}
	}
	// several proofs may share one transaction (no signature covers an input-less proof transaction): joined to the
	// previous proof-only transaction of the block, in front of or behind its proofs
	if k := len(x.v1); k > 0 && x.rng.IntN(2) == 0 {
		last := &x.v1[k-1]
		if len(last.StorageProofs) > 0 && len(last.StorageProofs) < 4 && len(last.SiacoinInputs) == 0 && len(last.Signatures) == 0 && len(last.MinerFees) == 0 {
			if x.rng.IntN(2) == 0 {
				last.StorageProofs = append(last.StorageProofs, sp)
			} else {
				last.StorageProofs = append([]types.StorageProof{sp}, last.StorageProofs...)
			}
			x.kinds = append(x.kinds, "v1-proofs-sharing-a-txn")
			x.fcTouched[e.ID] = "resolved"
			return true
		}
	}
	txn := types.Transaction{StorageProofs: []types.StorageProof{sp}}
	// a storage-proof transaction may not have outputs; fees only
	if x.rng.IntN(2) == 0 {
		if in, ok := x.pickSCv1(); ok {
			x.v1Inputs(&txn, []scIn{in})
			txn.MinerFees = []types.Currency{in.el.SiacoinOutput.Value}
		}
	}
	c.SignV1(x.cs, &txn, nil)
	x.addV1(txn)
	x.fcTouched[e.ID] = "resolved"
	return true
}
