// Package wirereg is the REGISTRY of every type of go.sia.tech/core that has a
// binary encoder/decoder pair: exported EncodeTo/DecodeFrom, the gateway
// Objects (through the verif hooks VerifEncode*/VerifDecode*), the rhp/v4
// Objects (through rhp4.WriteResponse/ReadResponse), and the rhp/v2 and
// rhp/v3 protocol objects.
//
// API:
//
//	Registry() []Entry                  all entries (stable order)
//	ByName(name) (Entry, bool)
//	Normalise(ptr any)                  the type-driven documented normalisations (see below)
//	FixDomain(rng, ptr any)             make a generated value satisfy the documented domain restrictions
//	MissingFromRegistry(repoDir) (missing, stale []string, err error)   completeness self-check (go/parser)
//	Excluded                            types deliberately not registered, with the reason
//
// Documented normalisations implemented by Normalise (a decoded value equals
// Normalise(original); a field whose every change is erased by Normalise is
// "documented as not transmitted"):
//
//   - time.Time (and PolicyTypeAfter): second resolution, location dropped.
//   - types.FileContractRevision: FileContract.Payout = 2^128-1 sentinel ("not really part of a revision").
//   - consensus.ElementAccumulator: Trees[i] zero where bit i of NumLeaves is clear.
//   - consensus.State: Network = nil ("network parameters are not encoded");
//     PrevTimestamps[i] zero for i >= min(Index.Height+1, 11).
//   - rhp/v3 InstrReadRegistryNoVersion.Version = 1, InstrUpdateRegistryNoType.EntryType = EntryTypeArbitrary
//     ("without the version byte" / "without the entry type byte").
//   - gateway.OutlineTransaction: Hash is recomputed from the transaction when one is present;
//     a value holds at most one of Transaction / V2Transaction.
//   - empty vs absent lists are not distinguished (valgen.Canon).
//
// Per-entry normalisations (Entry.Normalise): types.V1Block drops Block.V2;
// each gateway Object direction drops the fields of the other direction (and
// pins the receiver-side Max used for the size limit).
package wirereg

import (
	"bytes"
	"io"
	"math"
	"math/rand/v2"
	"reflect"
	"sync"
	"time"

	"go.sia.tech/core/consensus"
	"go.sia.tech/core/gateway"
	rhp2 "go.sia.tech/core/rhp/v2"
	rhp3 "go.sia.tech/core/rhp/v3"
	rhp4 "go.sia.tech/core/rhp/v4"
	"go.sia.tech/core/types"
	"verif/internal/valgen"
)

// Entry is one registered codec.
type Entry struct {
	Name     string   // unique, e.g. "types.V2Transaction", "gateway.RPCSendHeaders/response"
	GoTypes  []string // source types whose codec methods this entry exercises ("dir.Type", e.g. "rhp/v4.AccountToken")
	Pkg      string   // types | consensus | gateway | rhp/v2 | rhp/v3 | rhp/v4
	Critical bool     // consensus-critical: hashed into IDs / commitments / sighashes, layout conformance is required
	// Multiproof: the codec carries v2 transactions in multiproof form (Merkle
	// proofs of all elements must be valid for one accumulator state).
	Multiproof bool
	EncodeOnly bool   // no decoder exists (V2TransactionSemantics)
	Limit      int    // receiver-side size limit the generator keeps values under (0 = none)
	Notes      string // normalisations / non-transmitted fields specific to this entry

	New       func() any                                      // pointer to a zero value
	Encode    func(v any) []byte                              // v is the pointer returned by New/Gen/Decode
	Decode    func(b []byte) (any, error)                     // error = d.Err()
	DecodeN   func(b []byte) (v any, consumed int, err error) // also reports how many bytes the decoder consumed
	// DecodeInto decodes into an existing value (a pointer obtained from New/Gen/Decode), as a caller does that
	// reuses one variable for successive messages; nil where the entry has no such form.
	DecodeInto func(dst any, b []byte) error
	Gen       func(rng *rand.Rand, o *valgen.Opts) any        // a generated in-domain value (pointer)
	Normalise func(v any)                                     // all documented lossy normalisations, in place
	// MultiproofTxns returns the transaction sets that are encoded in multiproof form (nil otherwise).
	MultiproofTxns func(v any) []MultiproofSet

	postGen func(rng *rand.Rand, v any)
}

// MultiproofSet is one []V2Transaction encoded as a multiproof, with the path prefix of the slice inside the entry's value.
type MultiproofSet struct {
	Prefix string
	Txns   []types.V2Transaction
	// PathOf maps a path relative to Txns ("[i].SiacoinInputs[j]…") to the path inside the value; nil = Prefix+rel.
	PathOf func(rel string) string
}

func encodeWith(fn func(e *types.Encoder)) []byte {
	var buf bytes.Buffer
	e := types.NewEncoder(&buf)
	fn(e)
	e.Flush()
	return buf.Bytes()
}

func decodeWith(b []byte, fn func(d *types.Decoder)) (int, error) {
	r := bytes.NewReader(b)
	d := types.NewDecoder(io.LimitedReader{R: r, N: int64(len(b))})
	fn(d)
	return len(b) - r.Len(), d.Err()
}

type codec interface {
	types.EncoderTo
	types.DecoderFrom
}

func base(name, pkg string, newFn func() any) Entry {
	e := Entry{Name: name, GoTypes: []string{name}, Pkg: pkg, New: newFn}
	return e
}

func finish(e Entry) Entry {
	if e.DecodeN != nil && e.Decode == nil {
		dn := e.DecodeN
		e.Decode = func(b []byte) (any, error) { v, _, err := dn(b); return v, err }
	}
	inner := e.Normalise
	e.Normalise = func(v any) {
		if inner != nil {
			inner(v)
		}
		Normalise(v)
	}
	if e.Gen == nil {
		ent := e
		e.Gen = func(rng *rand.Rand, o *valgen.Opts) any { return genDefault(&ent, rng, o) }
	}
	return e
}

func genDefault(e *Entry, rng *rand.Rand, o *valgen.Opts) any {
	var oo valgen.Opts
	if o != nil {
		oo = *o
	}
	if oo.Budget <= 0 {
		oo.Budget = 300
	}
	for try := 0; ; try++ {
		v := e.New()
		valgen.Fill(rng, reflect.ValueOf(v).Elem(), &oo)
		FixDomain(rng, v)
		if e.postGen != nil {
			e.postGen(rng, v)
		}
		if e.Limit <= 0 || try > 12 || len(e.Encode(v)) <= e.Limit {
			if try > 12 {
				// give up on randomness: the zero value always fits
				v = e.New()
				FixDomain(rng, v)
			}
			return v
		}
		oo.Budget /= 2
		if oo.Budget < 1 {
			oo.Budget = 1
			oo.MaxLen = 1
		}
	}
}

// std registers a type with exported EncodeTo/DecodeFrom.
func std[T any, PT interface {
	*T
	codec
}](name, pkg string, mods ...func(*Entry)) Entry {
	e := base(name, pkg, func() any { return new(T) })
	e.Encode = func(v any) []byte { return encodeWith(PT(v.(*T)).EncodeTo) }
	e.DecodeN = func(b []byte) (any, int, error) {
		v := new(T)
		n, err := decodeWith(b, PT(v).DecodeFrom)
		return v, n, err
	}
	e.DecodeInto = func(dst any, b []byte) error {
		_, err := decodeWith(b, PT(dst.(*T)).DecodeFrom)
		return err
	}
	for _, m := range mods {
		m(&e)
	}
	return finish(e)
}

func critical(e *Entry)   { e.Critical = true }
func multiproof(e *Entry) { e.Multiproof = true }
func notes(s string) func(*Entry) {
	return func(e *Entry) { e.Notes = s }
}
func limit(n int) func(*Entry) { return func(e *Entry) { e.Limit = n } }
func covers(ts ...string) func(*Entry) {
	return func(e *Entry) { e.GoTypes = append(e.GoTypes, ts...) }
}
func norm(fn func(v any)) func(*Entry) { return func(e *Entry) { e.Normalise = fn } }
func mpsets(fn func(v any) []MultiproofSet) func(*Entry) {
	return func(e *Entry) { e.MultiproofTxns = fn; e.Multiproof = true }
}

// ---------------------------------------------------------------------------
// gateway Objects (through the verif hooks)

const (
	gwHeadersMax = 1000 // receiver-side Max pinned for the response-direction size limit
	gwBlocksMax  = 10
)

func gw[T any, PT interface {
	*T
	gateway.Object
}](name string, request bool, newFn func() *T, drop func(*T), mods ...func(*Entry)) Entry {
	dir := "/response"
	if request {
		dir = "/request"
	}
	e := base("gateway."+name+dir, "gateway", func() any { return newFn() })
	e.GoTypes = []string{"gateway." + name}
	e.Encode = func(v any) []byte {
		var buf bytes.Buffer
		var err error
		if request {
			err = gateway.VerifEncodeRequest(PT(v.(*T)), &buf)
		} else {
			err = gateway.VerifEncodeResponse(PT(v.(*T)), &buf)
		}
		if err != nil {
			panic(err)
		}
		return buf.Bytes()
	}
	e.DecodeN = func(b []byte) (any, int, error) {
		v := newFn()
		r := bytes.NewReader(b)
		var err error
		if request {
			err = gateway.VerifDecodeRequest(PT(v), r)
		} else {
			err = gateway.VerifDecodeResponse(PT(v), r)
		}
		return v, len(b) - r.Len(), err
	}
	e.DecodeInto = func(dst any, b []byte) error {
		r := bytes.NewReader(b)
		if request {
			return gateway.VerifDecodeRequest(PT(dst.(*T)), r)
		}
		return gateway.VerifDecodeResponse(PT(dst.(*T)), r)
	}
	e.Normalise = func(v any) { drop(v.(*T)) }
	e.Notes = "fields of the other direction are not transmitted (the generator leaves them zero, except in 1 of 8 values)"
	e.postGen = func(rng *rand.Rand, v any) {
		if rng.IntN(8) != 0 {
			drop(v.(*T))
		}
	}
	for _, m := range mods {
		m(&e)
	}
	return finish(e)
}

// ---------------------------------------------------------------------------
// rhp/v4 Objects (through WriteResponse/ReadResponse; RPCError through WriteRequest/ReadRequest)

func obj4[T any, PT interface {
	*T
	rhp4.Object
}](name string, mods ...func(*Entry)) Entry {
	e := base("rhp/v4."+name, "rhp/v4", func() any { return new(T) })
	_, isErr := any(new(T)).(*rhp4.RPCError)
	e.Encode = func(v any) []byte {
		var buf bytes.Buffer
		if isErr {
			if err := rhp4.WriteRequest(&buf, types.Specifier{}, PT(v.(*T))); err != nil {
				panic(err)
			}
			return buf.Bytes()[16:]
		}
		if err := rhp4.WriteResponse(&buf, PT(v.(*T))); err != nil {
			panic(err)
		}
		return buf.Bytes()[1:]
	}
	e.DecodeN = func(b []byte) (any, int, error) {
		v := new(T)
		if isErr {
			r := bytes.NewReader(b)
			err := rhp4.ReadRequest(r, PT(v))
			return v, len(b) - r.Len(), err
		}
		r := bytes.NewReader(append([]byte{0}, b...))
		err := rhp4.ReadResponse(r, PT(v))
		return v, len(b) + 1 - r.Len() - 1, err
	}
	e.DecodeInto = func(dst any, b []byte) error {
		if isErr {
			return rhp4.ReadRequest(bytes.NewReader(b), PT(dst.(*T)))
		}
		return rhp4.ReadResponse(bytes.NewReader(append([]byte{0}, b...)), PT(dst.(*T)))
	}
	e.Notes = "encoded/decoded through rhp4.WriteResponse/ReadResponse (1 framing byte stripped)"
	for _, m := range mods {
		m(&e)
	}
	return finish(e)
}

// ---------------------------------------------------------------------------

var (
	once sync.Once
	reg  []Entry
	idx  map[string]int
)

// Registry returns all entries.
func Registry() []Entry {
	once.Do(build)
	return reg
}

// ByName looks an entry up.
func ByName(name string) (Entry, bool) {
	once.Do(build)
	i, ok := idx[name]
	if !ok {
		return Entry{}, false
	}
	return reg[i], true
}

// Excluded lists types that declare codec methods but are deliberately not registered.
var Excluded = map[string]string{
	"types.EncoderFunc":              "function adapter, no data",
	"types.DecoderFunc":              "function adapter, no data",
	"types.txnSansSigs":              "unexported encode-only view of Transaction; observed through Transaction.ID() in the layout check",
	"gateway.emptyRequest":           "encodes nothing (maxRequestLen 0); unexported",
	"gateway.emptyResponse":          "encodes nothing (maxResponseLen 0); unexported",
	"rhp/v2.rpcResponse":             "unexported framing type without a hook; exercised through the Transport in C19",
	"rhp/v2.loopKeyExchangeRequest":  "unexported handshake type without a hook; exercised through the Transport in C19",
	"rhp/v2.loopKeyExchangeResponse": "unexported handshake type without a hook; exercised through the Transport in C19",
	"rhp/v3.rpcResponse":             "unexported framing type without a hook; exercised through the Stream in C19",
}

func blockSets(prefix string, b *types.Block) []MultiproofSet {
	if b.V2 == nil {
		return nil
	}
	return []MultiproofSet{{Prefix: prefix + "V2.Transactions", Txns: b.V2.Transactions}}
}

func build() {
	T, C := "types", "consensus"
	reg = []Entry{
		// --- types: fixed-size identifiers
		std[types.Hash256]("types.Hash256", T, critical),
		std[types.BlockID]("types.BlockID", T, critical),
		std[types.TransactionID]("types.TransactionID", T, critical),
		std[types.Address]("types.Address", T, critical),
		std[types.PublicKey]("types.PublicKey", T, critical),
		std[types.Signature]("types.Signature", T, critical),
		std[types.Specifier]("types.Specifier", T, critical),
		std[types.AttestationID]("types.AttestationID", T, critical),
		std[types.SiacoinOutputID]("types.SiacoinOutputID", T, critical),
		std[types.SiafundOutputID]("types.SiafundOutputID", T, critical),
		std[types.FileContractID]("types.FileContractID", T, critical),
		// --- types: v1
		std[types.UnlockKey]("types.UnlockKey", T, critical),
		std[types.UnlockConditions]("types.UnlockConditions", T, critical),
		std[types.V1Currency]("types.V1Currency", T, critical),
		std[types.V2Currency]("types.V2Currency", T, critical),
		std[types.ChainIndex]("types.ChainIndex", T, critical),
		std[types.V1SiacoinOutput]("types.V1SiacoinOutput", T, critical),
		std[types.V2SiacoinOutput]("types.V2SiacoinOutput", T, critical),
		std[types.V1SiafundOutput]("types.V1SiafundOutput", T, critical, notes("a constant zero 'ClaimStart' currency follows the address (siad compatibility)")),
		std[types.V2SiafundOutput]("types.V2SiafundOutput", T, critical),
		std[types.SiacoinInput]("types.SiacoinInput", T, critical),
		std[types.SiafundInput]("types.SiafundInput", T, critical),
		std[types.FileContract]("types.FileContract", T, critical),
		std[types.FileContractRevision]("types.FileContractRevision", T, critical, notes("FileContract.Payout is not transmitted; decodes to the 2^128-1 sentinel")),
		std[types.StorageProof]("types.StorageProof", T, critical),
		std[types.FoundationAddressUpdate]("types.FoundationAddressUpdate", T, critical),
		std[types.CoveredFields]("types.CoveredFields", T, critical),
		std[types.TransactionSignature]("types.TransactionSignature", T, critical),
		std[types.Transaction]("types.Transaction", T, critical, covers("types.txnSansSigs")),
		// --- types: v2
		std[types.SpendPolicy]("types.SpendPolicy", T, critical),
		std[types.SatisfiedPolicy]("types.SatisfiedPolicy", T, critical),
		std[types.StateElement]("types.StateElement", T, critical, notes("unexported 'shared' flag is not transmitted")),
		std[types.ChainIndexElement]("types.ChainIndexElement", T, critical),
		std[types.SiacoinElement]("types.SiacoinElement", T, critical),
		std[types.SiafundElement]("types.SiafundElement", T, critical),
		std[types.FileContractElement]("types.FileContractElement", T, critical),
		std[types.V2FileContractElement]("types.V2FileContractElement", T, critical),
		std[types.V2SiacoinInput]("types.V2SiacoinInput", T, critical),
		std[types.V2SiafundInput]("types.V2SiafundInput", T, critical),
		std[types.V2FileContract]("types.V2FileContract", T, critical),
		std[types.V2FileContractRevision]("types.V2FileContractRevision", T, critical),
		std[types.V2FileContractRenewal]("types.V2FileContractRenewal", T, critical),
		std[types.V2StorageProof]("types.V2StorageProof", T, critical),
		std[types.V2FileContractExpiration]("types.V2FileContractExpiration", T, critical, notes("empty encoding")),
		std[types.V2FileContractResolution]("types.V2FileContractResolution", T, critical),
		std[types.Attestation]("types.Attestation", T, critical),
		std[types.V2Transaction]("types.V2Transaction", T, critical),
		std[types.V2TransactionsMultiproof]("types.V2TransactionsMultiproof", T, critical, mpsets(func(v any) []MultiproofSet {
			return []MultiproofSet{{Prefix: "", Txns: *v.(*types.V2TransactionsMultiproof)}}
		})),
		std[types.V2BlockData]("types.V2BlockData", T, critical, mpsets(func(v any) []MultiproofSet {
			return []MultiproofSet{{Prefix: "Transactions", Txns: v.(*types.V2BlockData).Transactions}}
		})),
		std[types.BlockHeader]("types.BlockHeader", T, critical),
		std[types.V1Block]("types.V1Block", T, critical, norm(func(v any) { v.(*types.V1Block).V2 = nil }), notes("Block.V2 is not transmitted by the V1Block codec")),
		std[types.V2Block]("types.V2Block", T, critical, mpsets(func(v any) []MultiproofSet {
			return blockSets("", (*types.Block)(v.(*types.V2Block)))
		})),
		// --- consensus
		std[consensus.Work]("consensus.Work", C, critical),
		std[consensus.ElementAccumulator]("consensus.ElementAccumulator", C, critical, notes("Trees[i] transmitted only where bit i of NumLeaves is set")),
		std[consensus.State]("consensus.State", C, critical, notes("Network not encoded; PrevTimestamps[i] transmitted only for i < min(Index.Height+1, 11)")),
		std[consensus.V1StorageProofSupplement]("consensus.V1StorageProofSupplement", C, critical),
		std[consensus.V1TransactionSupplement]("consensus.V1TransactionSupplement", C, critical),
		std[consensus.V1BlockSupplement]("consensus.V1BlockSupplement", C, critical),
	}
	// encode-only
	{
		e := base("types.V2TransactionSemantics", T, func() any { return new(types.V2TransactionSemantics) })
		e.Encode = func(v any) []byte { return encodeWith(v.(*types.V2TransactionSemantics).EncodeTo) }
		e.EncodeOnly, e.Critical = true, true
		e.Notes = "encode-only semantic view used for IDs and sighashes: signatures, Merkle proofs, leaf indices and element contents other than IDs are deliberately omitted"
		reg = append(reg, finish(e))
	}

	// --- gateway
	{
		e := base("gateway.Header", "gateway", func() any { return new(gateway.Header) })
		e.Encode = func(v any) []byte {
			return encodeWith(func(e *types.Encoder) { gateway.VerifEncodeHeader(v.(*gateway.Header), e) })
		}
		e.DecodeN = func(b []byte) (any, int, error) {
			v := new(gateway.Header)
			n, err := decodeWith(b, func(d *types.Decoder) { gateway.VerifDecodeHeader(v, d) })
			return v, n, err
		}
		reg = append(reg, finish(e))
	}
	outlineSets := func(prefix string, ob *gateway.V2BlockOutline) []MultiproofSet {
		var txns []types.V2Transaction
		var pos []int
		for i := range ob.Transactions {
			if ob.Transactions[i].Transaction == nil && ob.Transactions[i].V2Transaction != nil {
				txns = append(txns, *ob.Transactions[i].V2Transaction)
				pos = append(pos, i)
			}
		}
		return []MultiproofSet{{Prefix: prefix + "Transactions", Txns: txns, PathOf: func(rel string) string {
			// rel = "[k]...." -> Transactions[pos[k]].V2Transaction....
			j := 1
			k := 0
			for j < len(rel) && rel[j] != ']' {
				k = k*10 + int(rel[j]-'0')
				j++
			}
			return prefix + "Transactions[" + itoa(pos[k]) + "].V2Transaction" + rel[j+1:]
		}}}
	}
	{
		e := base("gateway.V2BlockOutline", "gateway", func() any { return new(gateway.V2BlockOutline) })
		e.Encode = func(v any) []byte {
			return encodeWith(func(e *types.Encoder) { gateway.VerifEncodeOutline(v.(*gateway.V2BlockOutline), e) })
		}
		e.DecodeN = func(b []byte) (any, int, error) {
			v := new(gateway.V2BlockOutline)
			n, err := decodeWith(b, func(d *types.Decoder) { gateway.VerifDecodeOutline(v, d) })
			return v, n, err
		}
		e.MultiproofTxns = func(v any) []MultiproofSet { return outlineSets("", v.(*gateway.V2BlockOutline)) }
		e.Multiproof = true
		e.Notes = "OutlineTransaction.Hash is recomputed from the transaction when one is present; v2 transactions travel as one multiproof"
		reg = append(reg, finish(e))
	}
	reg = append(reg,
		gw("RPCShareNodes", false, func() *gateway.RPCShareNodes { return new(gateway.RPCShareNodes) }, func(r *gateway.RPCShareNodes) {}, limit(100*128)),
		gw("RPCDiscoverIP", false, func() *gateway.RPCDiscoverIP { return new(gateway.RPCDiscoverIP) }, func(r *gateway.RPCDiscoverIP) {}, limit(128)),
		gw("RPCSendHeaders", true, func() *gateway.RPCSendHeaders { return new(gateway.RPCSendHeaders) },
			func(r *gateway.RPCSendHeaders) { r.Headers, r.Remaining = nil, 0 }),
		gw("RPCSendHeaders", false, func() *gateway.RPCSendHeaders { return &gateway.RPCSendHeaders{Max: gwHeadersMax} },
			func(r *gateway.RPCSendHeaders) { r.Index, r.Max = types.ChainIndex{}, gwHeadersMax }, limit(8+gwHeadersMax*80+8)),
		gw("RPCSendV2Blocks", true, func() *gateway.RPCSendV2Blocks { return new(gateway.RPCSendV2Blocks) },
			func(r *gateway.RPCSendV2Blocks) { r.Blocks, r.Remaining = nil, 0 }, limit(8+32*32+8)),
		gw("RPCSendV2Blocks", false, func() *gateway.RPCSendV2Blocks { return &gateway.RPCSendV2Blocks{Max: gwBlocksMax} },
			func(r *gateway.RPCSendV2Blocks) { r.History, r.Max = nil, gwBlocksMax }, limit(gwBlocksMax*5e6),
			mpsets(func(v any) []MultiproofSet {
				var out []MultiproofSet
				r := v.(*gateway.RPCSendV2Blocks)
				for i := range r.Blocks {
					out = append(out, blockSets("Blocks["+itoa(i)+"].", &r.Blocks[i])...)
				}
				return out
			})),
		gw("RPCSendTransactions", true, func() *gateway.RPCSendTransactions { return new(gateway.RPCSendTransactions) },
			func(r *gateway.RPCSendTransactions) { r.Transactions, r.V2Transactions = nil, nil }, limit(8+32+8+100*32)),
		gw("RPCSendTransactions", false, func() *gateway.RPCSendTransactions { return new(gateway.RPCSendTransactions) },
			func(r *gateway.RPCSendTransactions) { r.Index, r.Hashes = types.ChainIndex{}, nil }, limit(5e6)),
		gw("RPCSendCheckpoint", true, func() *gateway.RPCSendCheckpoint { return new(gateway.RPCSendCheckpoint) },
			func(r *gateway.RPCSendCheckpoint) { r.Block, r.State = types.Block{}, consensus.State{} }),
		gw("RPCSendCheckpoint", false, func() *gateway.RPCSendCheckpoint { return new(gateway.RPCSendCheckpoint) },
			func(r *gateway.RPCSendCheckpoint) { r.Index = types.ChainIndex{} }, limit(5e6+4e3),
			mpsets(func(v any) []MultiproofSet { return blockSets("Block.", &v.(*gateway.RPCSendCheckpoint).Block) })),
		gw("RPCRelayV2Header", true, func() *gateway.RPCRelayV2Header { return new(gateway.RPCRelayV2Header) }, func(r *gateway.RPCRelayV2Header) {}),
		gw("RPCRelayV2BlockOutline", true, func() *gateway.RPCRelayV2BlockOutline { return new(gateway.RPCRelayV2BlockOutline) }, func(r *gateway.RPCRelayV2BlockOutline) {}, limit(5e6),
			mpsets(func(v any) []MultiproofSet { return outlineSets("Block.", &v.(*gateway.RPCRelayV2BlockOutline).Block) })),
		gw("RPCRelayV2TransactionSet", true, func() *gateway.RPCRelayV2TransactionSet { return new(gateway.RPCRelayV2TransactionSet) }, func(r *gateway.RPCRelayV2TransactionSet) {}, limit(5e6)),
	)

	// --- rhp/v2
	R2 := "rhp/v2"
	reg = append(reg,
		std[rhp2.Challenge]("rhp/v2.Challenge", R2),
		std[rhp2.RPCError]("rhp/v2.RPCError", R2),
		std[rhp2.RPCFormContractRequest]("rhp/v2.RPCFormContractRequest", R2),
		std[rhp2.RPCFormContractAdditions]("rhp/v2.RPCFormContractAdditions", R2),
		std[rhp2.RPCFormContractSignatures]("rhp/v2.RPCFormContractSignatures", R2),
		std[rhp2.RPCRenewAndClearContractRequest]("rhp/v2.RPCRenewAndClearContractRequest", R2),
		std[rhp2.RPCRenewAndClearContractSignatures]("rhp/v2.RPCRenewAndClearContractSignatures", R2),
		std[rhp2.RPCLockRequest]("rhp/v2.RPCLockRequest", R2),
		std[rhp2.RPCLockResponse]("rhp/v2.RPCLockResponse", R2),
		std[rhp2.RPCReadRequest]("rhp/v2.RPCReadRequest", R2),
		std[rhp2.RPCReadResponse]("rhp/v2.RPCReadResponse", R2),
		std[rhp2.RPCSectorRootsRequest]("rhp/v2.RPCSectorRootsRequest", R2),
		std[rhp2.RPCSectorRootsResponse]("rhp/v2.RPCSectorRootsResponse", R2),
		std[rhp2.RPCSettingsResponse]("rhp/v2.RPCSettingsResponse", R2),
		std[rhp2.RPCWriteRequest]("rhp/v2.RPCWriteRequest", R2),
		std[rhp2.RPCWriteMerkleProof]("rhp/v2.RPCWriteMerkleProof", R2),
		std[rhp2.RPCWriteResponse]("rhp/v2.RPCWriteResponse", R2),
	)

	// --- rhp/v3
	R3 := "rhp/v3"
	reg = append(reg,
		std[rhp3.RPCError]("rhp/v3.RPCError", R3),
		std[rhp3.SettingsID]("rhp/v3.SettingsID", R3),
		std[rhp3.Account]("rhp/v3.Account", R3, notes("encoded as an UnlockKey; the zero account as an empty key")),
		std[rhp3.PayByEphemeralAccountRequest]("rhp/v3.PayByEphemeralAccountRequest", R3),
		std[rhp3.PayByContractRequest]("rhp/v3.PayByContractRequest", R3),
		std[rhp3.PaymentResponse]("rhp/v3.PaymentResponse", R3),
		std[rhp3.RPCPriceTableResponse]("rhp/v3.RPCPriceTableResponse", R3, notes("empty encoding")),
		std[rhp3.RPCUpdatePriceTableResponse]("rhp/v3.RPCUpdatePriceTableResponse", R3),
		std[rhp3.RPCFundAccountRequest]("rhp/v3.RPCFundAccountRequest", R3),
		std[rhp3.FundAccountReceipt]("rhp/v3.FundAccountReceipt", R3),
		std[rhp3.RPCFundAccountResponse]("rhp/v3.RPCFundAccountResponse", R3),
		std[rhp3.RPCAccountBalanceRequest]("rhp/v3.RPCAccountBalanceRequest", R3),
		std[rhp3.RPCAccountBalanceResponse]("rhp/v3.RPCAccountBalanceResponse", R3),
		std[rhp3.RPCExecuteProgramRequest]("rhp/v3.RPCExecuteProgramRequest", R3),
		std[rhp3.RPCExecuteProgramResponse]("rhp/v3.RPCExecuteProgramResponse", R3, notes("domain: OutputLength == len(Output); Error travels as its string")),
		std[rhp3.RPCFinalizeProgramRequest]("rhp/v3.RPCFinalizeProgramRequest", R3),
		std[rhp3.RPCFinalizeProgramResponse]("rhp/v3.RPCFinalizeProgramResponse", R3),
		std[rhp3.RPCLatestRevisionRequest]("rhp/v3.RPCLatestRevisionRequest", R3),
		std[rhp3.RPCLatestRevisionResponse]("rhp/v3.RPCLatestRevisionResponse", R3),
		std[rhp3.RPCRenewContractRequest]("rhp/v3.RPCRenewContractRequest", R3),
		std[rhp3.RPCRenewContractHostAdditions]("rhp/v3.RPCRenewContractHostAdditions", R3),
		std[rhp3.RPCRenewSignatures]("rhp/v3.RPCRenewSignatures", R3),
		std[rhp3.InstrAppendSector]("rhp/v3.InstrAppendSector", R3),
		std[rhp3.InstrAppendSectorRoot]("rhp/v3.InstrAppendSectorRoot", R3),
		std[rhp3.InstrDropSectors]("rhp/v3.InstrDropSectors", R3),
		std[rhp3.InstrHasSector]("rhp/v3.InstrHasSector", R3),
		std[rhp3.InstrReadOffset]("rhp/v3.InstrReadOffset", R3),
		std[rhp3.InstrReadSector]("rhp/v3.InstrReadSector", R3),
		std[rhp3.InstrSwapSector]("rhp/v3.InstrSwapSector", R3),
		std[rhp3.InstrUpdateSector]("rhp/v3.InstrUpdateSector", R3),
		std[rhp3.InstrStoreSector]("rhp/v3.InstrStoreSector", R3),
		std[rhp3.InstrRevision]("rhp/v3.InstrRevision", R3, notes("empty encoding")),
		std[rhp3.InstrReadRegistry]("rhp/v3.InstrReadRegistry", R3),
		std[rhp3.InstrReadRegistryNoVersion]("rhp/v3.InstrReadRegistryNoVersion", R3, notes("pre-1.5.7 form 'without the version byte': Version not transmitted, decodes to 1")),
		std[rhp3.InstrUpdateRegistry]("rhp/v3.InstrUpdateRegistry", R3),
		std[rhp3.InstrUpdateRegistryNoType]("rhp/v3.InstrUpdateRegistryNoType", R3, notes("pre-1.5.7 form 'without the entry type byte': EntryType not transmitted, decodes to EntryTypeArbitrary")),
	)

	// --- rhp/v4
	R4 := "rhp/v4"
	const obj, txset = 10 * 1024, 100 * 1024
	reg = append(reg,
		std[rhp4.Account]("rhp/v4.Account", R4),
		std[rhp4.AccountDeposit]("rhp/v4.AccountDeposit", R4),
		std[rhp4.HostPrices]("rhp/v4.HostPrices", R4),
		std[rhp4.HostSettings]("rhp/v4.HostSettings", R4),
		std[rhp4.PoolAttachment]("rhp/v4.PoolAttachment", R4),
		std[rhp4.PoolDetachment]("rhp/v4.PoolDetachment", R4),
		obj4[rhp4.RPCError]("RPCError", limit(1024)),
		obj4[rhp4.RPCSettingsRequest]("RPCSettingsRequest", notes("empty encoding")),
		obj4[rhp4.RPCSettingsResponse]("RPCSettingsResponse", limit(obj)),
		obj4[rhp4.RPCFormContractRequest]("RPCFormContractRequest", limit(txset), covers("rhp/v4.RPCFormContractParams")),
		obj4[rhp4.RPCFormContractResponse]("RPCFormContractResponse", limit(txset)),
		obj4[rhp4.RPCFormContractSecondResponse]("RPCFormContractSecondResponse", limit(obj)),
		obj4[rhp4.RPCFormContractThirdResponse]("RPCFormContractThirdResponse", limit(txset)),
		obj4[rhp4.RPCRenewContractRequest]("RPCRenewContractRequest", limit(txset), covers("rhp/v4.RPCRenewContractParams")),
		obj4[rhp4.RPCRenewContractResponse]("RPCRenewContractResponse", limit(txset)),
		obj4[rhp4.RPCRenewContractSecondResponse]("RPCRenewContractSecondResponse", limit(obj)),
		obj4[rhp4.RPCRenewContractThirdResponse]("RPCRenewContractThirdResponse", limit(txset)),
		obj4[rhp4.RPCRefreshContractRequest]("RPCRefreshContractRequest", limit(txset), covers("rhp/v4.RPCRefreshContractParams")),
		obj4[rhp4.RPCRefreshContractResponse]("RPCRefreshContractResponse", limit(txset)),
		obj4[rhp4.RPCRefreshContractSecondResponse]("RPCRefreshContractSecondResponse", limit(obj)),
		obj4[rhp4.RPCRefreshContractThirdResponse]("RPCRefreshContractThirdResponse", limit(txset)),
		obj4[rhp4.RPCFreeSectorsRequest]("RPCFreeSectorsRequest", limit(obj)),
		obj4[rhp4.RPCFreeSectorsResponse]("RPCFreeSectorsResponse"),
		obj4[rhp4.RPCFreeSectorsSecondResponse]("RPCFreeSectorsSecondResponse"),
		obj4[rhp4.RPCFreeSectorsThirdResponse]("RPCFreeSectorsThirdResponse"),
		obj4[rhp4.RPCAppendSectorsRequest]("RPCAppendSectorsRequest", limit(obj)),
		obj4[rhp4.RPCAppendSectorsResponse]("RPCAppendSectorsResponse"),
		obj4[rhp4.RPCAppendSectorsSecondResponse]("RPCAppendSectorsSecondResponse"),
		obj4[rhp4.RPCAppendSectorsThirdResponse]("RPCAppendSectorsThirdResponse"),
		obj4[rhp4.RPCLatestRevisionRequest]("RPCLatestRevisionRequest"),
		obj4[rhp4.RPCLatestRevisionResponse]("RPCLatestRevisionResponse"),
		obj4[rhp4.RPCReadSectorRequest]("RPCReadSectorRequest", covers("rhp/v4.AccountToken")),
		obj4[rhp4.RPCReadSectorResponse]("RPCReadSectorResponse", limit(obj)),
		obj4[rhp4.RPCWriteSectorRequest]("RPCWriteSectorRequest", covers("rhp/v4.AccountToken")),
		obj4[rhp4.RPCWriteSectorResponse]("RPCWriteSectorResponse"),
		obj4[rhp4.RPCSectorRootsRequest]("RPCSectorRootsRequest"),
		obj4[rhp4.RPCSectorRootsResponse]("RPCSectorRootsResponse"),
		obj4[rhp4.RPCAccountBalanceRequest]("RPCAccountBalanceRequest"),
		obj4[rhp4.RPCAccountBalanceResponse]("RPCAccountBalanceResponse"),
		obj4[rhp4.RPCReplenishAccountsRequest]("RPCReplenishAccountsRequest"),
		obj4[rhp4.RPCReplenishAccountsResponse]("RPCReplenishAccountsResponse"),
		obj4[rhp4.RPCReplenishAccountsSecondResponse]("RPCReplenishAccountsSecondResponse"),
		obj4[rhp4.RPCReplenishAccountsThirdResponse]("RPCReplenishAccountsThirdResponse"),
		obj4[rhp4.RPCFundAccountsRequest]("RPCFundAccountsRequest"),
		obj4[rhp4.RPCFundAccountsResponse]("RPCFundAccountsResponse"),
		obj4[rhp4.RPCAttachPoolsRequest]("RPCAttachPoolsRequest"),
		obj4[rhp4.RPCAttachPoolsResponse]("RPCAttachPoolsResponse", notes("empty encoding")),
		obj4[rhp4.RPCDetachPoolsRequest]("RPCDetachPoolsRequest"),
		obj4[rhp4.RPCDetachPoolsResponse]("RPCDetachPoolsResponse", notes("empty encoding")),
		obj4[rhp4.RPCVerifySectorRequest]("RPCVerifySectorRequest", covers("rhp/v4.AccountToken")),
		obj4[rhp4.RPCVerifySectorResponse]("RPCVerifySectorResponse", limit(obj)),
	)
	idx = map[string]int{}
	for i, e := range reg {
		if _, dup := idx[e.Name]; dup {
			panic("wirereg: duplicate entry " + e.Name)
		}
		idx[e.Name] = i
	}
}

func itoa(i int) string {
	if i == 0 {
		return "0"
	}
	var b [20]byte
	n := len(b)
	for i > 0 {
		n--
		b[n] = byte('0' + i%10)
		i /= 10
	}
	return string(b[n:])
}

func init() {
	valgen.Register(reflect.TypeOf((*rhp3.Instruction)(nil)).Elem(),
		reflect.TypeOf(&rhp3.InstrAppendSector{}), reflect.TypeOf(&rhp3.InstrAppendSectorRoot{}), reflect.TypeOf(&rhp3.InstrDropSectors{}),
		reflect.TypeOf(&rhp3.InstrHasSector{}), reflect.TypeOf(&rhp3.InstrReadOffset{}), reflect.TypeOf(&rhp3.InstrReadSector{}),
		reflect.TypeOf(&rhp3.InstrSwapSector{}), reflect.TypeOf(&rhp3.InstrUpdateSector{}), reflect.TypeOf(&rhp3.InstrStoreSector{}),
		reflect.TypeOf(&rhp3.InstrRevision{}), reflect.TypeOf(&rhp3.InstrReadRegistry{}), reflect.TypeOf(&rhp3.InstrReadRegistryNoVersion{}),
		reflect.TypeOf(&rhp3.InstrUpdateRegistry{}), reflect.TypeOf(&rhp3.InstrUpdateRegistryNoType{}))
}

// ---------------------------------------------------------------------------
// type-driven walkers

// visit calls fn on every addressable struct/array-of-struct value reachable
// from v through exported fields (pre-order), including the contents of
// interfaces (value-typed contents are copied, visited and stored back).
func visit(v reflect.Value, fn func(v reflect.Value)) {
	t := v.Type()
	switch t.Kind() {
	case reflect.Struct:
		fn(v)
		if valgen.IsTimeLike(t) {
			return
		}
		for i := 0; i < t.NumField(); i++ {
			if t.Field(i).IsExported() {
				visit(v.Field(i), fn)
			}
		}
	case reflect.Ptr:
		if !v.IsNil() {
			visit(v.Elem(), fn)
		}
	case reflect.Slice, reflect.Array:
		k := t.Elem().Kind()
		if k == reflect.Uint8 || k == reflect.Uint64 || k == reflect.Bool || k == reflect.String {
			return
		}
		for i := 0; i < v.Len(); i++ {
			visit(v.Index(i), fn)
		}
	case reflect.Interface:
		if v.IsNil() {
			return
		}
		if t == errorType {
			return
		}
		e := v.Elem()
		if e.Kind() == reflect.Ptr {
			visit(e, fn)
			return
		}
		c := reflect.New(e.Type()).Elem()
		c.Set(e)
		visit(c, fn)
		v.Set(c)
	}
}

var errorType = reflect.TypeOf((*error)(nil)).Elem()

var maxCurrency = types.NewCurrency(math.MaxUint64, math.MaxUint64)

// Normalise applies, in place, the type-driven documented normalisations
// (package comment) to *ptr. It is lossy by design; it does NOT touch
// nil-vs-empty (use valgen.Canon for representation).
func Normalise(ptr any) {
	rv := reflect.ValueOf(ptr)
	if rv.Kind() != reflect.Ptr || rv.IsNil() {
		return
	}
	visit(rv.Elem(), func(v reflect.Value) {
		if valgen.IsTimeLike(v.Type()) {
			tm := v.Convert(reflect.TypeOf(time.Time{})).Interface().(time.Time)
			v.Set(reflect.ValueOf(time.Unix(tm.Unix(), 0)).Convert(v.Type()))
			return
		}
		switch x := v.Addr().Interface().(type) {
		case *types.FileContractRevision:
			x.FileContract.Payout = maxCurrency
		case *consensus.ElementAccumulator:
			for i := range x.Trees {
				if x.NumLeaves&(1<<uint(i)) == 0 {
					x.Trees[i] = types.Hash256{}
				}
			}
		case *consensus.State:
			x.Network = nil
			n := uint64(len(x.PrevTimestamps))
			if h := x.Index.Height + 1; h < n {
				n = h
			}
			for i := int(n); i < len(x.PrevTimestamps); i++ {
				x.PrevTimestamps[i] = time.Time{}
			}
		case *rhp3.InstrReadRegistryNoVersion:
			x.Version = 1
		case *rhp3.InstrUpdateRegistryNoType:
			x.EntryType = rhp3.EntryTypeArbitrary
		case *gateway.OutlineTransaction:
			switch {
			case x.Transaction != nil:
				x.V2Transaction = nil
				x.Hash = x.Transaction.MerkleLeafHash()
			case x.V2Transaction != nil:
				x.Hash = x.V2Transaction.MerkleLeafHash()
			}
		}
	})
}

// FixDomain rewrites, in place, a generated value so that it satisfies the
// documented domain restrictions of the codecs:
//   - every []V2Transaction that travels as a multiproof (Block.V2, V2BlockData,
//     V2TransactionsMultiproof, V2BlockOutline) gets Merkle proofs valid for one accumulator;
//   - gateway.OutlineTransaction holds at most one of Transaction / V2Transaction;
//   - rhp/v3 RPCExecuteProgramResponse.OutputLength == len(Output).
func FixDomain(rng *rand.Rand, ptr any) {
	rv := reflect.ValueOf(ptr)
	if rv.Kind() != reflect.Ptr || rv.IsNil() {
		return
	}
	if mp, ok := ptr.(*types.V2TransactionsMultiproof); ok {
		valgen.MakeProofsConsistent(rng, *mp)
		return
	}
	visit(rv.Elem(), func(v reflect.Value) {
		switch x := v.Addr().Interface().(type) {
		case *types.V2BlockData:
			valgen.MakeProofsConsistent(rng, x.Transactions)
		case *gateway.V2BlockOutline:
			var txns []types.V2Transaction
			var pos []int
			for i := range x.Transactions {
				ot := &x.Transactions[i]
				if ot.Transaction != nil && ot.V2Transaction != nil {
					if rng.IntN(2) == 0 {
						ot.Transaction = nil
					} else {
						ot.V2Transaction = nil
					}
				}
				if ot.V2Transaction != nil {
					txns = append(txns, *ot.V2Transaction)
					pos = append(pos, i)
				}
			}
			valgen.MakeProofsConsistent(rng, txns)
			for k, i := range pos {
				*x.Transactions[i].V2Transaction = txns[k]
			}
		case *rhp3.RPCExecuteProgramResponse:
			x.OutputLength = uint64(len(x.Output))
		}
	})
}
