package wirereg

import (
	"go/ast"
	"go/parser"
	"go/token"
	"os"
	"path/filepath"
	"sort"
	"strings"
)

// codecMethods are the method names that make a type a wire type.
var codecMethods = map[string]bool{
	"EncodeTo": true, "DecodeFrom": true,
	"encodeTo": true, "decodeFrom": true,
	"encodeRequest": true, "decodeRequest": true,
	"encodeResponse": true, "decodeResponse": true,
}

// DeclaredWireTypes parses every non-test Go file under repoDir (run time,
// go/parser; build tags ignored so hook files are seen too) and returns
// "dir.Type" for every type that declares one of the codec methods.
func DeclaredWireTypes(repoDir string) ([]string, error) {
	found := map[string]bool{}
	fset := token.NewFileSet()
	err := filepath.Walk(repoDir, func(path string, info os.FileInfo, err error) error {
		if err != nil {
			return err
		}
		if info.IsDir() {
			n := info.Name()
			if path != repoDir && (strings.HasPrefix(n, ".") || n == "testdata" || n == "internal" || n == "vendor") {
				return filepath.SkipDir
			}
			return nil
		}
		if !strings.HasSuffix(path, ".go") || strings.HasSuffix(path, "_test.go") {
			return nil
		}
		f, err := parser.ParseFile(fset, path, nil, parser.SkipObjectResolution)
		if err != nil {
			return err
		}
		if f.Name.Name == "main" {
			return nil
		}
		rel, _ := filepath.Rel(repoDir, filepath.Dir(path))
		for _, d := range f.Decls {
			fd, ok := d.(*ast.FuncDecl)
			if !ok || fd.Recv == nil || len(fd.Recv.List) != 1 || !codecMethods[fd.Name.Name] {
				continue
			}
			// the single parameter must be a *…Encoder / *…Decoder
			if fd.Type.Params == nil || len(fd.Type.Params.List) != 1 {
				continue
			}
			rt := fd.Recv.List[0].Type
			if s, ok := rt.(*ast.StarExpr); ok {
				rt = s.X
			}
			if ix, ok := rt.(*ast.IndexExpr); ok {
				rt = ix.X
			}
			id, ok := rt.(*ast.Ident)
			if !ok {
				continue
			}
			found[filepath.ToSlash(rel)+"."+id.Name] = true
		}
		return nil
	})
	var out []string
	for k := range found {
		out = append(out, k)
	}
	sort.Strings(out)
	return out, err
}

// MissingFromRegistry is the completeness self-check: missing lists every type
// of the repository that declares EncodeTo/DecodeFrom (or encodeTo/decodeFrom,
// encodeRequest…) but is neither covered by a registry entry nor listed in
// Excluded; stale lists registry/Excluded names that no longer exist in the
// source. A check must fail closed when either is non-empty or err != nil.
func MissingFromRegistry(repoDir string) (missing, stale []string, err error) {
	decl, err := DeclaredWireTypes(repoDir)
	if err != nil {
		return nil, nil, err
	}
	declared := map[string]bool{}
	for _, d := range decl {
		declared[d] = true
	}
	covered := map[string]bool{}
	for _, e := range Registry() {
		for _, g := range e.GoTypes {
			covered[g] = true
		}
	}
	for k := range Excluded {
		covered[k] = true
	}
	for _, d := range decl {
		if !covered[d] {
			missing = append(missing, d)
		}
	}
	for k := range covered {
		if !declared[k] {
			stale = append(stale, k)
		}
	}
	sort.Strings(stale)
	return missing, stale, nil
}
