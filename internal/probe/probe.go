// Package probe holds reflection probes: a deep fingerprint that sees
// unexported fields, and an alias walker that lists the mutable memory regions
// reachable from a value.
package probe

import (
	"crypto/sha256"
	"encoding/binary"
	"hash"
	"reflect"
	"sort"
	"time"
	"unsafe"
)

var timeType = reflect.TypeOf(time.Time{})

// Fingerprint hashes everything reachable from the values (including
// unexported fields such as StateElement.shared, slice lengths, nil-ness).
func Fingerprint(vals ...any) [32]byte {
	h := sha256.New()
	seen := map[uintptr]bool{}
	for _, v := range vals {
		fp(reflect.ValueOf(v), h, seen)
	}
	var out [32]byte
	h.Sum(out[:0])
	return out
}

func w64(h hash.Hash, u uint64) {
	var b [8]byte
	binary.LittleEndian.PutUint64(b[:], u)
	h.Write(b[:])
}

func fp(v reflect.Value, h hash.Hash, seen map[uintptr]bool) {
	if !v.IsValid() {
		w64(h, 0xdead)
		return
	}
	switch v.Kind() {
	case reflect.Bool:
		if v.Bool() {
			w64(h, 1)
		} else {
			w64(h, 0)
		}
	case reflect.Int, reflect.Int8, reflect.Int16, reflect.Int32, reflect.Int64:
		w64(h, uint64(v.Int()))
	case reflect.Uint, reflect.Uint8, reflect.Uint16, reflect.Uint32, reflect.Uint64, reflect.Uintptr:
		w64(h, v.Uint())
	case reflect.String:
		w64(h, uint64(v.Len()))
		h.Write([]byte(v.String()))
	case reflect.Ptr:
		if v.IsNil() {
			w64(h, 0)
			return
		}
		w64(h, 1)
		p := v.Pointer()
		if seen[p] {
			return
		}
		seen[p] = true
		fp(v.Elem(), h, seen)
	case reflect.Interface:
		if v.IsNil() {
			w64(h, 0)
			return
		}
		h.Write([]byte(v.Elem().Type().String()))
		fp(v.Elem(), h, seen)
	case reflect.Struct:
		if v.Type() == timeType || v.Type().ConvertibleTo(timeType) {
			// instant only (the location pointer is not content)
			var t time.Time
			if v.CanInterface() {
				t = v.Convert(timeType).Interface().(time.Time)
			} else if v.CanAddr() {
				t = *(*time.Time)(unsafe.Pointer(v.UnsafeAddr()))
			} else {
				cp := reflect.New(v.Type()).Elem()
				cp.Set(v)
				t = *(*time.Time)(unsafe.Pointer(cp.UnsafeAddr()))
			}
			w64(h, uint64(t.Unix()))
			w64(h, uint64(t.Nanosecond()))
			return
		}
		for i := 0; i < v.NumField(); i++ {
			fp(v.Field(i), h, seen)
		}
	case reflect.Slice:
		if v.IsNil() {
			w64(h, 0xfffffffe)
			return
		}
		w64(h, uint64(v.Len()))
		if v.Type().Elem().Kind() == reflect.Uint8 {
			b := make([]byte, v.Len())
			for i := range b {
				b[i] = byte(v.Index(i).Uint()) // works for values reached through unexported fields too
			}
			h.Write(b)
			return
		}
		for i := 0; i < v.Len(); i++ {
			fp(v.Index(i), h, seen)
		}
		// the memory between len and cap belongs to whoever owns the slice too (another slice of the same array may
		// hold it): a callee that appends to a slice it was handed writes there
		if v.Cap() > v.Len() && v.Cap()-v.Len() <= 64 {
			full := v.Slice(0, v.Cap())
			for i := v.Len(); i < v.Cap(); i++ {
				fp(full.Index(i), h, seen)
			}
		}
	case reflect.Array:
		for i := 0; i < v.Len(); i++ {
			fp(v.Index(i), h, seen)
		}
	case reflect.Map:
		w64(h, uint64(v.Len()))
		// order-independent: hash of sorted entry hashes
		var ents []string
		it := v.MapRange()
		for it.Next() {
			eh := sha256.New()
			fp(it.Key(), eh, seen)
			fp(it.Value(), eh, seen)
			ents = append(ents, string(eh.Sum(nil)))
		}
		sort.Strings(ents)
		for _, e := range ents {
			h.Write([]byte(e))
		}
	default:
		// funcs, chans: identity only
		w64(h, 0xabcdef)
	}
}

// Region is a span of heap memory reachable from a value.
type Region struct {
	Start, End uintptr
	Path       string
}

// Regions lists the backing arrays of non-empty slices and the targets of
// non-nil pointers reachable from v (a pointer to the value to inspect).
func Regions(v any) []Region {
	var out []Region
	seen := map[uintptr]bool{}
	regions(reflect.ValueOf(v), "", &out, seen, true)
	return out
}

func regions(v reflect.Value, path string, out *[]Region, seen map[uintptr]bool, root bool) {
	if !v.IsValid() {
		return
	}
	switch v.Kind() {
	case reflect.Ptr:
		if v.IsNil() {
			return
		}
		p := v.Pointer()
		if !root {
			sz := v.Type().Elem().Size()
			if sz > 0 {
				*out = append(*out, Region{p, p + sz, path + "->"})
			}
		}
		if seen[p] {
			return
		}
		seen[p] = true
		regions(v.Elem(), path, out, seen, false)
	case reflect.Interface:
		if !v.IsNil() {
			regions(v.Elem(), path+"<"+v.Elem().Type().String()+">", out, seen, false)
		}
	case reflect.Struct:
		if v.Type() == timeType || v.Type().ConvertibleTo(timeType) {
			return // the *Location of a time value is immutable shared data
		}
		for i := 0; i < v.NumField(); i++ {
			regions(v.Field(i), path+"."+v.Type().Field(i).Name, out, seen, false)
		}
	case reflect.Slice:
		if v.IsNil() || v.Len() == 0 {
			return
		}
		p := v.Pointer()
		sz := v.Type().Elem().Size() * uintptr(v.Len())
		if sz > 0 {
			*out = append(*out, Region{p, p + sz, path + "[]"})
		}
		k := v.Type().Elem().Kind()
		if k == reflect.Uint8 {
			return
		}
		for i := 0; i < v.Len(); i++ {
			regions(v.Index(i), path+"[]", out, seen, false)
		}
	case reflect.Array:
		for i := 0; i < v.Len(); i++ {
			regions(v.Index(i), path+"[]", out, seen, false)
		}
	}
}

// Overlap returns the path pairs of regions of a and b that intersect.
func Overlap(a, b []Region) [][2]string {
	var out [][2]string
	for _, x := range a {
		for _, y := range b {
			if x.Start < y.End && y.Start < x.End {
				out = append(out, [2]string{x.Path, y.Path})
			}
		}
	}
	return out
}

// Scribble overwrites every byte of slice backing arrays and pointer targets
// reachable from v (a pointer) with a pattern, leaving lengths and pointers
// intact: anything an alias would let a holder of the copy change.
func Scribble(v any) int {
	n := 0
	seen := map[uintptr]bool{}
	scribble(reflect.ValueOf(v), seen, &n)
	return n
}

func scribble(v reflect.Value, seen map[uintptr]bool, n *int) {
	if !v.IsValid() {
		return
	}
	switch v.Kind() {
	case reflect.Ptr:
		if v.IsNil() || seen[v.Pointer()] {
			return
		}
		seen[v.Pointer()] = true
		scribble(v.Elem(), seen, n)
	case reflect.Interface:
		if !v.IsNil() {
			e := v.Elem()
			if e.Kind() == reflect.Ptr {
				scribble(e, seen, n)
			} else if v.CanSet() {
				cp := reflect.New(e.Type()).Elem()
				cp.Set(e)
				scribble(cp, seen, n)
				v.Set(cp)
			}
		}
	case reflect.Struct:
		if v.Type() == timeType || v.Type().ConvertibleTo(timeType) {
			return
		}
		for i := 0; i < v.NumField(); i++ {
			f := v.Field(i)
			if !f.CanSet() {
				continue
			}
			scribble(f, seen, n)
		}
	case reflect.Slice:
		for i := 0; i < v.Len(); i++ {
			scribble(v.Index(i), seen, n)
		}
	case reflect.Array:
		for i := 0; i < v.Len(); i++ {
			scribble(v.Index(i), seen, n)
		}
	case reflect.Uint8, reflect.Uint16, reflect.Uint32, reflect.Uint64, reflect.Uint:
		if v.CanSet() {
			v.SetUint(v.Uint() ^ 0x55)
			*n++
		}
	case reflect.Bool:
		if v.CanSet() {
			v.SetBool(!v.Bool())
			*n++
		}
	case reflect.String:
		if v.CanSet() {
			v.SetString(v.String() + "~")
			*n++
		}
	}
}
