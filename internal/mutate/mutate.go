// Package mutate enumerates every exported leaf field of a value by reflection
// (so "every field" means every field the Go types have today) and applies a
// single-leaf mutation at a chosen path.
package mutate

import (
	"fmt"
	"reflect"
	"regexp"
	"time"
)

var timeType = reflect.TypeOf(time.Time{})

// visit walks v; for each leaf it calls fn(path, leaf) where leaf is settable.
// It returns true if fn asked to stop. Interfaces holding non-pointer values are
// copied, walked and written back.
func visit(v reflect.Value, path string, fn func(path string, leaf reflect.Value) bool) bool {
	switch v.Kind() {
	case reflect.Ptr:
		if v.IsNil() {
			return fn(path+"(nil)", v)
		}
		return visit(v.Elem(), path, fn)
	case reflect.Interface:
		if v.IsNil() {
			return false
		}
		dyn := v.Elem()
		if dyn.Kind() == reflect.Ptr {
			return visit(dyn, path+"<"+dyn.Type().Elem().Name()+">", fn)
		}
		cp := reflect.New(dyn.Type()).Elem()
		cp.Set(dyn)
		stop := visit(cp, path+"<"+dyn.Type().Name()+">", fn)
		if v.CanSet() {
			v.Set(cp)
		}
		return stop
	case reflect.Struct:
		if v.Type() == timeType {
			return fn(path, v)
		}
		for i := 0; i < v.NumField(); i++ {
			f := v.Type().Field(i)
			if f.PkgPath != "" { // unexported
				continue
			}
			name := f.Name
			if f.Anonymous {
				name = "(" + f.Name + ")"
			}
			if visit(v.Field(i), path+"."+name, fn) {
				return true
			}
		}
		return false
	case reflect.Slice:
		if v.Type().Elem().Kind() == reflect.Uint8 {
			return fn(path, v)
		}
		for i := 0; i < v.Len(); i++ {
			if visit(v.Index(i), fmt.Sprintf("%s[%d]", path, i), fn) {
				return true
			}
		}
		return false
	case reflect.Array:
		if v.Type().Elem().Kind() == reflect.Uint8 {
			return fn(path, v)
		}
		for i := 0; i < v.Len(); i++ {
			if visit(v.Index(i), fmt.Sprintf("%s[%d]", path, i), fn) {
				return true
			}
		}
		return false
	case reflect.Map, reflect.Func, reflect.Chan:
		return false
	default:
		return fn(path, v)
	}
}

// Leaves lists the paths of all exported leaves reachable from root (a pointer).
func Leaves(root any) []string {
	var out []string
	visit(reflect.ValueOf(root), "", func(p string, leaf reflect.Value) bool {
		out = append(out, p)
		return false
	})
	return out
}

// Apply mutates the leaf at path (one of Leaves(root)); variant selects among a
// few different mutations of that leaf (0 = smallest change). It reports
// whether a change was made.
func Apply(root any, path string, variant int) bool {
	changed := false
	visit(reflect.ValueOf(root), "", func(p string, leaf reflect.Value) bool {
		if p != path {
			return false
		}
		if !leaf.CanSet() {
			return true
		}
		changed = mutateLeaf(leaf, variant)
		return true
	})
	return changed
}

func mutateLeaf(v reflect.Value, variant int) bool {
	switch v.Kind() {
	case reflect.Ptr: // nil pointer: allocate a zero value
		v.Set(reflect.New(v.Type().Elem()))
		return true
	case reflect.Bool:
		v.SetBool(!v.Bool())
		return true
	case reflect.Uint8, reflect.Uint16, reflect.Uint32, reflect.Uint64, reflect.Uint:
		switch variant % 3 {
		case 0:
			v.SetUint(v.Uint() + 1)
		case 1:
			v.SetUint(v.Uint() ^ 1)
		default:
			if v.Uint() > 0 {
				v.SetUint(v.Uint() - 1)
			} else {
				v.SetUint(2)
			}
		}
		return true
	case reflect.Int, reflect.Int64, reflect.Int32:
		v.SetInt(v.Int() + 1)
		return true
	case reflect.String:
		v.SetString(v.String() + "x")
		return true
	case reflect.Slice: // []byte
		b := append([]byte(nil), v.Bytes()...)
		if len(b) == 0 || variant%3 == 2 {
			b = append(b, 0x5a)
		} else if variant%3 == 1 && len(b) > 1 {
			b = b[:len(b)-1]
		} else {
			b[len(b)/2] ^= 0x04
		}
		v.SetBytes(b)
		return true
	case reflect.Array: // [N]byte
		n := v.Len()
		if n == 0 {
			return false
		}
		i := 0
		switch variant % 3 {
		case 1:
			i = n - 1
		case 2:
			i = n / 2
		}
		e := v.Index(i)
		e.SetUint(e.Uint() ^ 0x10)
		return true
	case reflect.Struct:
		if v.Type() == timeType {
			t := v.Interface().(time.Time)
			v.Set(reflect.ValueOf(t.Add(time.Second)))
			return true
		}
	}
	return false
}

var reIdx = regexp.MustCompile(`\[[0-9]+\]`)

// Class strips slice indices from a path: the field class used in rule tables
// and finding keys.
func Class(path string) string { return reIdx.ReplaceAllString(path, "[]") }
