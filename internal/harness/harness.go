// Package harness is the shared runner for every property check: flags, seeds,
// child-process batches, three-valued verdicts, known findings, replay
// witnesses and schema-valid evidence.
//
// A check is a function run in *batches*. The parent process starts one child
// process per batch (the same binary with -child k), in parallel, each under a
// watchdog; a child that panics, is killed by a sanitizer or runs away only
// loses its own batch. Children report counters, distinct case-shape hashes,
// samples, violations and inconclusive notes as JSON; the parent merges them,
// decides the verdict and writes evidence/<id>.json.
package harness

import (
	"crypto/sha256"
	"encoding/hex"
	"encoding/json"
	"flag"
	"fmt"
	"math/rand/v2"
	"os"
	"os/exec"
	"path/filepath"
	"runtime"
	"runtime/debug"
	"sort"
	"strings"
	"sync"
	"syscall"
	"time"
)

// Violation is one refuting observation.
type Violation struct {
	Key     string `json:"key"`     // finding identity (stable, specific)
	Detail  string `json:"detail"`  // human-readable: expected vs observed
	Witness any    `json:"witness"` // concrete input / history (JSON-able)
	Batch   int    `json:"batch"`
}

// Result is what one batch reports.
type Result struct {
	Batch        int               `json:"batch"`
	Evaluations  int64             `json:"evaluations"`
	Counters     map[string]int64  `json:"counters"`
	Max          map[string]int64  `json:"max"`
	Distinct     []string          `json:"distinct"` // short hashes of non-trivial case shapes
	Sets         map[string][]string `json:"sets"` // named small sets (e.g. error classes seen)
	Samples      []any             `json:"samples"`
	Violations   []Violation       `json:"violations"`
	Inconclusive map[string]int64  `json:"inconclusive"`
	Done         bool              `json:"done"`
}

// B is the per-batch context handed to a check.
type B struct {
	ID    string
	Tier  string
	Seed  uint64
	Batch int
	NB    int // number of batches
	Rng   *rand.Rand
	Work  string // scratch dir for this check
	Replay json.RawMessage // non-nil in replay mode: the witness to re-run

	mu       sync.Mutex
	res      Result
	distinct map[string]struct{}
	sets     map[string]map[string]struct{}
	maxSamples int
	journal  *os.File
}

func (b *B) Quick() bool { return b.Tier == "quick" }

// Pick returns q in quick tier, t in thorough.
func (b *B) Pick(q, t int) int {
	if b.Quick() {
		return q
	}
	return t
}

// SubRng returns an independent deterministic PRNG for a named purpose.
func (b *B) SubRng(name string) *rand.Rand {
	h := sha256.Sum256([]byte(fmt.Sprintf("%s/%d/%d/%s", b.ID, b.Seed, b.Batch, name)))
	var s1, s2 uint64
	for i := 0; i < 8; i++ {
		s1 = s1<<8 | uint64(h[i])
		s2 = s2<<8 | uint64(h[8+i])
	}
	return rand.New(rand.NewPCG(s1, s2))
}

// Eval counts n evaluated cases.
func (b *B) Eval(n int) { b.mu.Lock(); b.res.Evaluations += int64(n); b.mu.Unlock() }

// Count adds n to a named counter.
func (b *B) Count(name string, n int) {
	b.mu.Lock()
	b.res.Counters[name] += int64(n)
	b.mu.Unlock()
}

// MaxOf records the maximum of a named gauge.
func (b *B) MaxOf(name string, v int64) {
	b.mu.Lock()
	if v > b.res.Max[name] {
		b.res.Max[name] = v
	}
	b.mu.Unlock()
}

// Distinct records a non-trivial case shape; the evidence reports the number of
// distinct shapes over all batches.
func (b *B) Distinct(parts ...any) {
	s := fmt.Sprint(parts...)
	h := sha256.Sum256([]byte(s))
	k := hex.EncodeToString(h[:6])
	b.mu.Lock()
	if len(b.distinct) < 400000 {
		b.distinct[k] = struct{}{}
	}
	b.mu.Unlock()
}

// SetAdd records a member of a named small set (error classes, kinds seen...).
func (b *B) SetAdd(set, member string) {
	b.mu.Lock()
	m := b.sets[set]
	if m == nil {
		m = map[string]struct{}{}
		b.sets[set] = m
	}
	if len(m) < 2000 {
		m[member] = struct{}{}
	}
	b.mu.Unlock()
}

// Sample keeps up to a few concrete cases for the evidence.
func (b *B) Sample(v any) {
	b.mu.Lock()
	if len(b.res.Samples) < b.maxSamples {
		b.res.Samples = append(b.res.Samples, v)
	}
	b.mu.Unlock()
}

// Inconclusive notes a case that could not be judged.
func (b *B) Inconclusive(reason string) {
	b.mu.Lock()
	b.res.Inconclusive[reason]++
	b.mu.Unlock()
}

// Violate records a refuting observation.
func (b *B) Violate(key, detail string, witness any) {
	b.mu.Lock()
	defer b.mu.Unlock()
	// keep at most 5 witnesses per key and 200 overall per batch
	n := 0
	for _, v := range b.res.Violations {
		if v.Key == key {
			n++
		}
	}
	if n >= 3 || len(b.res.Violations) >= 200 {
		b.res.Counters["violations_dropped_duplicates"]++
		return
	}
	b.res.Violations = append(b.res.Violations, Violation{Key: key, Detail: detail, Witness: witness, Batch: b.Batch})
}

// Journal appends a record to the batch's on-disk journal *before* a risky
// call so that the last record is the witness if the process dies.
func (b *B) Journal(rec string) {
	if b.journal == nil {
		return
	}
	b.journal.WriteString(rec)
	b.journal.WriteString("\n")
}

// JournalReset truncates the journal (call periodically to bound its size; the
// last record before a crash is what matters).
func (b *B) JournalReset() {
	if b.journal != nil {
		b.journal.Truncate(0)
		b.journal.Seek(0, 0)
	}
}

// Guard runs f, converting a panic into a violation with the given key prefix.
// It returns true if f panicked.
func (b *B) Guard(keyPrefix string, witness func() any, f func()) (panicked bool) {
	defer func() {
		if r := recover(); r != nil {
			panicked = true
			st := string(debug.Stack())
			fr := FirstCoreFrame(st)
			b.Violate(fmt.Sprintf("%s/panic/%s", keyPrefix, fr), fmt.Sprintf("panic: %v", r), map[string]any{"input": witness(), "panic": fmt.Sprint(r), "stack": TrimStack(st)})
		}
	}()
	f()
	return false
}

// FirstCoreFrame extracts the innermost go.sia.tech/core function of a stack.
func FirstCoreFrame(stack string) string {
	for _, ln := range strings.Split(stack, "\n") {
		ln = strings.TrimSpace(ln)
		if strings.HasPrefix(ln, "go.sia.tech/core/") {
			if i := strings.LastIndex(ln, "("); i > 0 {
				ln = ln[:i]
			}
			ln = strings.TrimPrefix(ln, "go.sia.tech/core/")
			// drop closure suffixes like .func1.2
			for {
				j := strings.LastIndex(ln, ".func")
				if j < 0 {
					break
				}
				ln = ln[:j]
			}
			return ln
		}
	}
	return "unknown"
}

// TrimStack keeps the first frames of a stack trace.
func TrimStack(st string) string {
	lines := strings.Split(st, "\n")
	if len(lines) > 40 {
		lines = lines[:40]
	}
	return strings.Join(lines, "\n")
}

// Spec describes a check.
type Spec struct {
	ID        string
	Rule      string // how cases are generated / what makes one non-trivial
	Assume    []string
	Batches   func(tier string) int // number of batches (child processes)
	Run       func(b *B)            // one batch
	ReplayFn  func(b *B)            // re-run b.Replay witness (optional; default Run is not used)
	MinEvals  int64                 // fail closed below this
	MinDistinct int                 // fail closed below this
	Require   []string              // counters that must be > 0 (fail closed)
	RaceBatches func(tier string) []int // batch indices to run from the -race binary
	// Arch386Batches: batch indices to run from the GOARCH=386 build of this binary (32-bit int and pointers)
	Arch386Batches func(tier string) []int
	ChildTimeout func(tier string) time.Duration
	ChildEnv  func(batch int) []string // extra env per batch
	MemLimitMB int                    // RLIMIT_AS per child via `prlimit`-less approach (GOMEMLIMIT + watchdog)
	MaxParallel int
	Extra     func(merged *Result, cov map[string]any) // add per-check observations to coverage
}

type knownFinding struct {
	Property string `json:"property"`
	Key      string `json:"key"`
	Status   string `json:"status"` // open | fixed
	Commit   string `json:"commit,omitempty"`
	What     string `json:"what"`
	Line     string `json:"line,omitempty"`
}

func verifRoot() string {
	if r := os.Getenv("VERIF_ROOT"); r != "" {
		return r
	}
	return "/verif"
}

func loadKnown(id string) map[string]knownFinding {
	out := map[string]knownFinding{}
	raw, err := os.ReadFile(filepath.Join(verifRoot(), "KNOWN_FINDINGS.json"))
	if err != nil {
		return out
	}
	var f struct {
		Findings []knownFinding `json:"findings"`
	}
	if json.Unmarshal(raw, &f) != nil {
		return out
	}
	for _, k := range f.Findings {
		if k.Property == id && k.Status == "open" {
			out[k.Key] = k
		}
	}
	return out
}

// Main is the entry point of every check binary.
func Main(spec Spec) {
	tier := flag.String("tier", "quick", "quick|thorough")
	seed := flag.Uint64("seed", 1, "seed")
	child := flag.Int("child", -1, "run batch k (internal)")
	nb := flag.Int("nb", 0, "number of batches (internal)")
	work := flag.String("work", "", "scratch dir")
	out := flag.String("out", "", "evidence path")
	replay := flag.String("replay", "", "replay witness file")
	raceBin := flag.String("racebin", "", "path of the -race build of this binary")
	bin386 := flag.String("bin386", "", "path of the GOARCH=386 build of this binary")
	only := flag.Int("only", -1, "run only this batch (debug)")
	flag.Parse()
	if *work == "" {
		*work = filepath.Join(verifRoot(), ".work", spec.ID)
	}
	os.MkdirAll(*work, 0o755)

	if *child >= 0 {
		runChild(spec, *tier, *seed, *child, *nb, *work, nil)
		return
	}
	if *replay != "" {
		raw, err := os.ReadFile(*replay)
		if err != nil {
			fmt.Println("cannot read replay:", err)
			os.Exit(2)
		}
		var rf struct {
			Seed    uint64          `json:"seed"`
			Tier    string          `json:"tier"`
			Batch   int             `json:"batch"`
			NB      int             `json:"nb"`
			Key     string          `json:"key"`
			Witness json.RawMessage `json:"witness"`
		}
		json.Unmarshal(raw, &rf)
		if spec.ReplayFn == nil {
			// re-run the whole batch deterministically
			fmt.Printf("replaying batch %d of seed %d tier %s\n", rf.Batch, rf.Seed, rf.Tier)
			b := newB(spec, rf.Tier, rf.Seed, rf.Batch, rf.NB, *work)
			spec.Run(b)
			reportReplay(spec, b, rf.Key)
			return
		}
		b := newB(spec, rf.Tier, rf.Seed, rf.Batch, rf.NB, *work)
		b.Replay = rf.Witness
		spec.ReplayFn(b)
		reportReplay(spec, b, rf.Key)
		return
	}
	arch386Bin = *bin386
	runParent(spec, *tier, *seed, *work, *out, *raceBin, *only)
}

func reportReplay(spec Spec, b *B, key string) {
	hit := false
	for _, v := range b.res.Violations {
		fmt.Printf("replay: violation key=%s detail=%s\n", v.Key, v.Detail)
		if v.Key == key {
			hit = true
		}
	}
	if hit {
		fmt.Printf("REPLAY-REPRODUCED property=%s key=%s\n", spec.ID, key)
		os.Exit(1)
	}
	fmt.Printf("REPLAY-NOT-REPRODUCED property=%s key=%s\n", spec.ID, key)
	os.Exit(0)
}

func newB(spec Spec, tier string, seed uint64, batch, nb int, work string) *B {
	b := &B{ID: spec.ID, Tier: tier, Seed: seed, Batch: batch, NB: nb, Work: work, maxSamples: 3}
	b.res = Result{Batch: batch, Counters: map[string]int64{}, Max: map[string]int64{}, Inconclusive: map[string]int64{}}
	b.distinct = map[string]struct{}{}
	b.sets = map[string]map[string]struct{}{}
	b.Rng = b.SubRng("main")
	return b
}

func (b *B) finish() *Result {
	b.mu.Lock()
	defer b.mu.Unlock()
	b.res.Distinct = b.res.Distinct[:0]
	for k := range b.distinct {
		b.res.Distinct = append(b.res.Distinct, k)
	}
	b.res.Sets = map[string][]string{}
	for n, m := range b.sets {
		for k := range m {
			b.res.Sets[n] = append(b.res.Sets[n], k)
		}
		sort.Strings(b.res.Sets[n])
	}
	b.res.Done = true
	return &b.res
}

func runChild(spec Spec, tier string, seed uint64, k, nb int, work string, _ any) {
	b := newB(spec, tier, seed, k, nb, work)
	jf, err := os.OpenFile(filepath.Join(work, fmt.Sprintf("batch-%d.journal", k)), os.O_CREATE|os.O_TRUNC|os.O_RDWR, 0o644)
	if err == nil {
		b.journal = jf
	}
	func() {
		defer func() {
			if r := recover(); r != nil {
				st := string(debug.Stack())
				b.Violate(fmt.Sprintf("%s/uncaught-panic/%s", spec.ID, FirstCoreFrame(st)), fmt.Sprintf("panic: %v", r), map[string]any{"panic": fmt.Sprint(r), "stack": TrimStack(st)})
			}
		}()
		spec.Run(b)
	}()
	res := b.finish()
	raw, _ := json.Marshal(res)
	tmp := filepath.Join(work, fmt.Sprintf("batch-%d.json.tmp", k))
	os.WriteFile(tmp, raw, 0o644)
	os.Rename(tmp, filepath.Join(work, fmt.Sprintf("batch-%d.json", k)))
}

func tailFile(path string, n int) string {
	raw, err := os.ReadFile(path)
	if err != nil {
		return ""
	}
	if len(raw) > n {
		raw = raw[len(raw)-n:]
	}
	return string(raw)
}

func headFile(path string, n int) string {
	raw, err := os.ReadFile(path)
	if err != nil {
		return ""
	}
	if len(raw) > n {
		raw = raw[:n]
	}
	return string(raw)
}

var arch386Bin string

func runParent(spec Spec, tier string, seed uint64, work, out, raceBin string, only int) {
	start := time.Now()
	nb := 1
	if spec.Batches != nil {
		nb = spec.Batches(tier)
	}
	// clean previous batch files
	olds, _ := filepath.Glob(filepath.Join(work, "batch-*"))
	for _, o := range olds {
		os.Remove(o)
	}
	raceSet := map[int]bool{}
	if spec.RaceBatches != nil {
		for _, k := range spec.RaceBatches(tier) {
			raceSet[k] = true
		}
	}
	set386 := map[int]bool{}
	if spec.Arch386Batches != nil {
		for _, k := range spec.Arch386Batches(tier) {
			set386[k] = true
		}
	}
	timeout := 20 * time.Minute
	if spec.ChildTimeout != nil {
		timeout = spec.ChildTimeout(tier)
	}
	exe, _ := os.Executable()
	par := runtime.NumCPU()
	if spec.MaxParallel > 0 && spec.MaxParallel < par {
		par = spec.MaxParallel
	}
	sem := make(chan struct{}, par)
	var wg sync.WaitGroup
	type childOutcome struct {
		k        int
		exit     int
		timedOut bool
		race     bool
	}
	outcomes := make([]childOutcome, nb)
	for k := 0; k < nb; k++ {
		if only >= 0 && k != only {
			outcomes[k] = childOutcome{k: k, exit: -999}
			continue
		}
		wg.Add(1)
		go func(k int) {
			defer wg.Done()
			sem <- struct{}{}
			defer func() { <-sem }()
			bin := exe
			if raceSet[k] {
				if raceBin == "" {
					outcomes[k] = childOutcome{k: k, exit: -998, race: true}
					return
				}
				bin = raceBin
			}
			if set386[k] {
				if arch386Bin == "" {
					outcomes[k] = childOutcome{k: k, exit: -998}
					return
				}
				bin = arch386Bin
			}
			args := []string{"-child", fmt.Sprint(k), "-nb", fmt.Sprint(nb), "-tier", tier, "-seed", fmt.Sprint(seed), "-work", work}
			cmdline := bin + " " + strings.Join(args, " ")
			os.WriteFile(filepath.Join(work, fmt.Sprintf("batch-%d.cmd", k)), []byte(cmdline+"\n"), 0o644)
			cmd := exec.Command(bin, args...)
			so, _ := os.Create(filepath.Join(work, fmt.Sprintf("batch-%d.stdout", k)))
			se, _ := os.Create(filepath.Join(work, fmt.Sprintf("batch-%d.stderr", k)))
			cmd.Stdout, cmd.Stderr = so, se
			cmd.Env = append(os.Environ(), "GOTRACEBACK=all")
			if raceSet[k] {
				cmd.Env = append(cmd.Env, fmt.Sprintf("GORACE=halt_on_error=0 history_size=5 log_path=%s", filepath.Join(work, fmt.Sprintf("batch-%d.race", k))))
			}
			if spec.MemLimitMB > 0 {
				cmd.Env = append(cmd.Env, fmt.Sprintf("VERIF_MEMLIMIT_MB=%d", spec.MemLimitMB))
			}
			if spec.ChildEnv != nil {
				cmd.Env = append(cmd.Env, spec.ChildEnv(k)...)
			}
			cmd.SysProcAttr = &syscall.SysProcAttr{Setpgid: true}
			oc := childOutcome{k: k, race: raceSet[k]}
			if err := cmd.Start(); err != nil {
				oc.exit = -997
				outcomes[k] = oc
				return
			}
			done := make(chan error, 1)
			go func() { done <- cmd.Wait() }()
			select {
			case err := <-done:
				if err != nil {
					if ee, ok := err.(*exec.ExitError); ok {
						oc.exit = ee.ExitCode()
						if oc.exit == -1 {
							oc.exit = 128
						}
					} else {
						oc.exit = -996
					}
				}
			case <-time.After(timeout):
				oc.timedOut = true
				syscall.Kill(-cmd.Process.Pid, syscall.SIGQUIT)
				select {
				case <-done:
				case <-time.After(5 * time.Second):
					syscall.Kill(-cmd.Process.Pid, syscall.SIGKILL)
					<-done
				}
			}
			so.Close()
			se.Close()
			outcomes[k] = oc
		}(k)
	}
	wg.Wait()

	// merge
	merged := Result{Counters: map[string]int64{}, Max: map[string]int64{}, Inconclusive: map[string]int64{}, Sets: map[string][]string{}}
	distinct := map[string]struct{}{}
	sets := map[string]map[string]struct{}{}
	broken := []string{}
	for k := 0; k < nb; k++ {
		oc := outcomes[k]
		if oc.exit == -999 {
			continue
		}
		if oc.exit == -998 {
			broken = append(broken, fmt.Sprintf("batch %d needs the -race or GOARCH=386 binary but none was given", k))
			continue
		}
		var r Result
		raw, err := os.ReadFile(filepath.Join(work, fmt.Sprintf("batch-%d.json", k)))
		ok := err == nil && json.Unmarshal(raw, &r) == nil && r.Done
		if oc.timedOut {
			merged.Inconclusive[fmt.Sprintf("watchdog fired after %s (batch %d)", timeout, k)]++
			continue
		}
		if !ok {
			// the child died: crash witness = stderr tail + journal tail
			stderr := tailFile(filepath.Join(work, fmt.Sprintf("batch-%d.stderr", k)), 6000)
			stderrHead := headFile(filepath.Join(work, fmt.Sprintf("batch-%d.stderr", k)), 3000)
			journal := tailFile(filepath.Join(work, fmt.Sprintf("batch-%d.journal", k)), 4000)
			kind := "process-death"
			switch {
			case strings.Contains(stderrHead, "fatal error: checkptr"):
				kind = "checkptr"
			case strings.Contains(stderrHead, "out of memory") || strings.Contains(stderrHead, "cannot allocate memory"):
				kind = "out-of-memory"
			case strings.Contains(stderrHead, "SIGSEGV") || strings.Contains(stderrHead, "unexpected fault address"):
				kind = "fault"
			case strings.Contains(stderrHead, "stack overflow") || strings.Contains(stderrHead, "stack exceeds"):
				kind = "stack-overflow"
			case strings.Contains(stderrHead, "fatal error:"):
				kind = "fatal-error"
			case strings.Contains(stderrHead, "panic:"):
				kind = "panic"
			}
			jkey := "?"
			if ls := strings.Split(strings.TrimSpace(journal), "\n"); len(ls) > 0 {
				last := ls[len(ls)-1]
				if i := strings.IndexByte(last, ' '); i > 0 {
					jkey = last[:i]
				} else if len(last) < 80 {
					jkey = last
				}
			}
			merged.Violations = append(merged.Violations, Violation{
				Key:     fmt.Sprintf("%s/%s/%s/%s", spec.ID, kind, jkey, FirstCoreFrame(stderrHead+stderr)),
				Detail:  fmt.Sprintf("child process for batch %d died (exit %d, %s)", k, oc.exit, kind),
				Witness: map[string]any{"journal_tail": journal, "stderr_head": stderrHead, "stderr_tail": stderr},
				Batch:   k,
			})
			continue
		}
		merged.Evaluations += r.Evaluations
		for n, v := range r.Counters {
			merged.Counters[n] += v
		}
		for n, v := range r.Max {
			if v > merged.Max[n] {
				merged.Max[n] = v
			}
		}
		for n, v := range r.Inconclusive {
			merged.Inconclusive[n] += v
		}
		for _, d := range r.Distinct {
			distinct[d] = struct{}{}
		}
		for n, ms := range r.Sets {
			if sets[n] == nil {
				sets[n] = map[string]struct{}{}
			}
			for _, m := range ms {
				sets[n][m] = struct{}{}
			}
		}
		if len(merged.Samples) < 6 {
			for _, s := range r.Samples {
				if len(merged.Samples) < 6 {
					merged.Samples = append(merged.Samples, s)
				}
			}
		}
		merged.Violations = append(merged.Violations, r.Violations...)
		// race reports
		if oc.race {
			reports := collectRaceReports(work, k)
			merged.Counters["race_report_blocks"] += int64(len(reports))
			for _, rep := range reports {
				key, coreFrame := raceKey(rep)
				if !coreFrame {
					merged.Counters["race_reports_outside_core"]++
					continue
				}
				merged.Violations = append(merged.Violations, Violation{
					Key: fmt.Sprintf("%s/data-race/%s", spec.ID, key), Detail: "race detector report with a go.sia.tech/core frame",
					Witness: map[string]any{"report": rep}, Batch: k})
			}
		}
	}
	for n, m := range sets {
		for k := range m {
			merged.Sets[n] = append(merged.Sets[n], k)
		}
		sort.Strings(merged.Sets[n])
	}

	// verdict
	known := loadKnown(spec.ID)
	knownHit := map[string]int{}
	newViol := 0
	os.MkdirAll(filepath.Join(verifRoot(), "replays"), 0o755)
	seenKey := map[string]bool{}
	for _, v := range merged.Violations {
		kf, ok := known[v.Key]
		if !ok {
			// an entry whose key ends in '*' names a family of call sites by prefix
			for k, f := range known {
				if strings.HasSuffix(k, "*") && strings.HasPrefix(v.Key, strings.TrimSuffix(k, "*")) {
					kf, ok = f, true
					break
				}
			}
		}
		if ok {
			if knownHit[v.Key] == 0 {
				fmt.Printf("KNOWN-FINDING: property=%s %s [%s]\n", spec.ID, kf.What, v.Key)
			}
			knownHit[v.Key]++
			continue
		}
		newViol++
		if seenKey[v.Key] {
			continue
		}
		seenKey[v.Key] = true
		h := sha256.Sum256([]byte(v.Key))
		path := filepath.Join(verifRoot(), "replays", fmt.Sprintf("%s-%s.json", spec.ID, hex.EncodeToString(h[:5])))
		rf := map[string]any{"property": spec.ID, "key": v.Key, "detail": v.Detail, "seed": seed, "tier": tier, "batch": v.Batch, "nb": nb, "witness": v.Witness}
		raw, _ := json.MarshalIndent(rf, "", " ")
		os.WriteFile(path, raw, 0o644)
		fmt.Printf("VIOLATION property=%s replay=%s\n", spec.ID, path)
		fmt.Printf("  key=%s\n  detail=%s\n", v.Key, truncate(v.Detail, 600))
	}
	for r, n := range merged.Inconclusive {
		fmt.Printf("INCONCLUSIVE property=%s reason=%q count=%d\n", spec.ID, r, n)
	}

	// fail-closed conditions
	if merged.Evaluations < spec.MinEvals {
		broken = append(broken, fmt.Sprintf("only %d evaluations (< %d)", merged.Evaluations, spec.MinEvals))
	}
	minD := spec.MinDistinct
	if minD < 2 {
		minD = 2
	}
	if len(distinct) < minD {
		broken = append(broken, fmt.Sprintf("only %d distinct non-trivial cases (< %d)", len(distinct), minD))
	}
	for _, c := range spec.Require {
		if merged.Counters[c] <= 0 && merged.Max[c] <= 0 {
			broken = append(broken, fmt.Sprintf("required observation %q never made", c))
		}
	}

	// evidence
	cov := map[string]any{
		"evaluations":         merged.Evaluations,
		"distinct_nontrivial": len(distinct),
		"rule":                spec.Rule,
		"samples":             merged.Samples,
		"counters":            merged.Counters,
		"max":                 merged.Max,
		"sets":                merged.Sets,
		"inconclusive":        merged.Inconclusive,
		"known_findings_hit":  knownHit,
		"batches":             nb,
		"exhaustive":          false,
	}
	if len(merged.Samples) == 0 {
		cov["samples"] = []any{"(no sample recorded)"}
	}
	if spec.Extra != nil {
		spec.Extra(&merged, cov)
	}
	ev := map[string]any{
		"property_id": spec.ID,
		"tier":        tier,
		"seed":        seed,
		"level":       "exploration",
		"coverage":    cov,
		"assumptions": spec.Assume,
		"wall_s":      time.Since(start).Seconds(),
		"violations":  newViol,
	}
	if out == "" {
		out = filepath.Join(verifRoot(), "evidence", spec.ID+".json")
	}
	os.MkdirAll(filepath.Dir(out), 0o755)
	raw, _ := json.MarshalIndent(ev, "", " ")
	os.WriteFile(out, raw, 0o644)

	fmt.Printf("%s %s seed=%d: evaluations=%d distinct=%d violations=%d known=%d inconclusive=%d wall=%.1fs\n",
		spec.ID, tier, seed, merged.Evaluations, len(distinct), newViol, len(knownHit), len(merged.Inconclusive), time.Since(start).Seconds())
	if newViol > 0 {
		os.Exit(1)
	}
	if len(broken) > 0 {
		for _, b := range broken {
			fmt.Printf("BROKEN-CHECK property=%s %s\n", spec.ID, b)
		}
		os.Exit(3)
	}
	os.Exit(0)
}

func truncate(s string, n int) string {
	if len(s) > n {
		return s[:n] + "…"
	}
	return s
}

func collectRaceReports(work string, k int) []string {
	files, _ := filepath.Glob(filepath.Join(work, fmt.Sprintf("batch-%d.race.*", k)))
	var reps []string
	for _, f := range files {
		raw, err := os.ReadFile(f)
		if err != nil {
			continue
		}
		parts := strings.Split(string(raw), "==================")
		for _, p := range parts {
			if strings.Contains(p, "WARNING: DATA RACE") {
				reps = append(reps, strings.TrimSpace(p))
			}
		}
	}
	return reps
}

// raceKey de-duplicates a report by the pair of outermost core frames of the
// two accesses (line numbers stripped); coreFrame=false if no frame of the
// report is inside go.sia.tech/core.
func raceKey(rep string) (string, bool) {
	var frames []string
	sections := strings.Split(rep, "\n\n")
	for _, sec := range sections {
		if !(strings.Contains(sec, "Write at") || strings.Contains(sec, "Read at") || strings.Contains(sec, "Previous write") || strings.Contains(sec, "Previous read")) {
			continue
		}
		inner := ""
		for _, ln := range strings.Split(sec, "\n") {
			ln = strings.TrimSpace(ln)
			if strings.HasPrefix(ln, "go.sia.tech/core/") {
				if i := strings.LastIndex(ln, "("); i > 0 {
					ln = ln[:i]
				}
				inner = strings.TrimPrefix(ln, "go.sia.tech/core/")
				break
			}
		}
		if inner != "" {
			frames = append(frames, inner)
		}
	}
	if len(frames) == 0 {
		return "", false
	}
	sort.Strings(frames)
	return strings.Join(frames, "+"), true
}
