// Package netgen generates consensus.Network parameter sets (DESIGN §2.3).
//
// Properties quantify over configurations; every check that needs a network
// takes it from here so that "forall network parameter sets" means the same
// thing everywhere. All randomness comes from the *rand.Rand handed in
// (math/rand/v2, seeded by the harness), so the result is a pure function of the
// PRNG state and the options.
//
// Families (Net.Family):
//
//   - CompressedMainnet: every hardfork at a small distinct height in mainnet
//     order DevAddr < Tax < StorageProof < Oak < OakFix < ASIC < Foundation <
//     V2.Allow < V2.EphemeralOutput < V2.Require < V2.FinalCut, all <= Span, so
//     that a chain of Span+1 blocks crosses every era boundary.
//   - V1Only: v1 forks as above, every v2 height = Unreachable.
//   - V2FromGenesis: V2.Allow in {0,1}; the remaining v2 heights ordered and
//     <= Span (sometimes all equal to Allow); v1 forks at 0..few or compressed.
//   - Scrambled: all eleven heights drawn independently from [0,Span], through a
//     small pool of values so that equal and "wrong-order" heights are common;
//     MaturityDelay in {0,1,2,5}; BlockInterval in {1s,10s,10min,24h};
//     NonceFactor in {1,1009}; InitialTarget from 2^256-1 down to 2^192; a
//     coinbase schedule that reaches MinimumCoinbase within Span blocks.
//   - Testnet: the literal parameters of testnet() in the repo's own tests.
//
// The three ordered families use the same parameter sets as Scrambled for
// MaturityDelay / BlockInterval / NonceFactor / coinbase, but an InitialTarget
// that real mining can meet in a few tries (>= 2^248) unless Options.HardPoW.
//
// Stated domain restrictions (DESIGN §2.3), kept by construction for every
// generated network (NOT for Testnet, whose BlockInterval is 10 ms — callers
// whose property needs BlockInterval >= 1 s must skip it, see Net.InDomain):
//
//   - BlockInterval >= 1 s;
//   - V2.FinalCutHeight >= V2.AllowHeight, also in Scrambled. From FinalCutHeight
//     on ApplyHeader zeroes ChildTarget/Depth/OakTarget while heights below
//     AllowHeight still divide by them, so a network that cuts v1 fields before
//     v2 is allowed cannot exist as a chain (see FinalCutBeforeAllow for the
//     out-of-domain probe);
//   - NonceFactor >= 1; MinimumCoinbase >= 1 SC.
package netgen

import (
	"fmt"
	"math/big"
	"math/rand/v2"
	"sort"
	"time"

	"go.sia.tech/core/consensus"
	"go.sia.tech/core/types"
)

// Family names.
const (
	CompressedMainnet = "compressed-mainnet"
	V1Only            = "v1-only"
	V2FromGenesis     = "v2-from-genesis"
	Scrambled         = "scrambled"
	Testnet           = "testnet"
)

// Families lists the four generated families in the order Networks cycles
// through them.
var Families = []string{CompressedMainnet, V1Only, V2FromGenesis, Scrambled}

// Unreachable is the height used for hardforks that must never activate.
const Unreachable = uint64(1) << 62

// DefaultSpan is the default upper bound of reachable fork heights.
const DefaultSpan = 200

// Options tune generation. The zero value is valid.
type Options struct {
	// Span bounds every reachable fork height (0 means DefaultSpan). Checks
	// about the pre-Oak retarget (every 500 blocks) need Span >= 1000.
	Span uint64
	// HardPoW lets the ordered families also draw InitialTarget from the whole
	// range 2^192..2^256-1 (header-only workloads that never mine).
	HardPoW bool
}

// A Net is one generated configuration.
type Net struct {
	Name    string             // "<family>-<index>", unique within one call
	Family  string             // one of the family constants
	Network *consensus.Network // fresh value, the caller may modify it
	Genesis types.Block        // types.Block{Timestamp: Network.HardforkOak.GenesisTimestamp}
}

// A Fork is a named hardfork height.
type Fork struct {
	Name   string
	Height uint64
}

// Forks returns all eleven hardfork heights of n in mainnet order (including
// unreachable ones).
func (n Net) Forks() []Fork {
	c := n.Network
	return []Fork{
		{"DevAddr", c.HardforkDevAddr.Height},
		{"Tax", c.HardforkTax.Height},
		{"StorageProof", c.HardforkStorageProof.Height},
		{"Oak", c.HardforkOak.Height},
		{"OakFix", c.HardforkOak.FixHeight},
		{"ASIC", c.HardforkASIC.Height},
		{"Foundation", c.HardforkFoundation.Height},
		{"V2Allow", c.HardforkV2.AllowHeight},
		{"V2EphemeralOutput", c.HardforkV2.EphemeralOutputHeight},
		{"V2Require", c.HardforkV2.RequireHeight},
		{"V2FinalCut", c.HardforkV2.FinalCutHeight},
	}
}

// LastFork returns the largest reachable (< Unreachable) fork height; a chain
// of LastFork()+1 blocks above genesis has crossed every era boundary.
func (n Net) LastFork() uint64 {
	var m uint64
	for _, f := range n.Forks() {
		if f.Height < Unreachable && f.Height > m {
			m = f.Height
		}
	}
	return m
}

// InDomain reports whether n satisfies the stated domain restrictions; the
// error names the first one that does not hold.
func (n Net) InDomain() error {
	c := n.Network
	switch {
	case c.BlockInterval < time.Second:
		return fmt.Errorf("BlockInterval %v < 1s", c.BlockInterval)
	case c.HardforkV2.FinalCutHeight < c.HardforkV2.AllowHeight:
		return fmt.Errorf("V2.FinalCutHeight %d < V2.AllowHeight %d", c.HardforkV2.FinalCutHeight, c.HardforkV2.AllowHeight)
	case c.HardforkASIC.NonceFactor == 0:
		return fmt.Errorf("NonceFactor 0")
	}
	return nil
}

// Networks returns n generated networks, cycling through Families in order
// (so n >= 4 contains every family), with DefaultSpan.
func Networks(rng *rand.Rand, n int) []Net { return NetworksOpt(rng, n, Options{}) }

// NetworksOpt is Networks with options.
func NetworksOpt(rng *rand.Rand, n int, opt Options) []Net {
	out := make([]Net, 0, n)
	for i := 0; i < n; i++ {
		nt := Generate(rng, Families[i%len(Families)], opt)
		nt.Name = fmt.Sprintf("%s-%d", nt.Family, i)
		nt.Network.Name = nt.Name
		out = append(out, nt)
	}
	return out
}

var (
	blockIntervals = []time.Duration{time.Second, 10 * time.Second, 10 * time.Minute, 24 * time.Hour}
	maturityDelays = []uint64{0, 1, 2, 5}
	nonceFactors   = []uint64{1, 1009}
	genesisTimes   = []int64{1618033988, 1433600000, 1000000000, 0, 1618033988}
)

// MaxTarget is 2^256-1.
var MaxTarget = new(big.Int).Sub(new(big.Int).Lsh(big.NewInt(1), 256), big.NewInt(1))

// TargetFromBig converts 1 <= v <= 2^256-1 to a target.
func TargetFromBig(v *big.Int) (t types.BlockID) {
	if v.Sign() <= 0 || v.Cmp(MaxTarget) > 0 {
		panic("netgen: target out of range")
	}
	v.FillBytes(t[:])
	return
}

// easyTarget: a target that real mining meets within ~256 tries.
func easyTarget(rng *rand.Rand) types.BlockID {
	switch rng.IntN(6) {
	case 0:
		return TargetFromBig(MaxTarget)
	case 1, 2:
		return types.BlockID{0xFF} // testnet's
	case 3:
		return TargetFromBig(new(big.Int).Lsh(big.NewInt(1), 255))
	default:
		return randTarget(rng, 248+rng.IntN(8))
	}
}

// randTarget returns a target with the given bit length minus one as exponent:
// 2^e <= t < 2^(e+1), random or extreme mantissa.
func randTarget(rng *rand.Rand, e int) types.BlockID {
	v := new(big.Int).Lsh(big.NewInt(1), uint(e))
	switch rng.IntN(4) {
	case 0: // exact power of two
	case 1: // all ones below
		v.Sub(v.Lsh(v, 1), big.NewInt(1))
	default:
		m := new(big.Int).SetUint64(rng.Uint64())
		if e >= 64 {
			m.Lsh(m, uint(e-64))
		} else {
			m.Rsh(m, uint(64-e))
		}
		v.Add(v, m)
	}
	if v.Cmp(MaxTarget) > 0 {
		v.Set(MaxTarget)
	}
	return TargetFromBig(v)
}

// hardTarget: anywhere from 2^256-1 down to 2^192.
func hardTarget(rng *rand.Rand) types.BlockID {
	switch rng.IntN(8) {
	case 0:
		return easyTarget(rng)
	case 1:
		return TargetFromBig(new(big.Int).Lsh(big.NewInt(1), 192))
	default:
		return randTarget(rng, 192+rng.IntN(64))
	}
}

// shiftTarget moves t by sh bits (positive = easier), saturating to [2^184, 2^256-1].
func shiftTarget(t types.BlockID, sh int) types.BlockID {
	v := new(big.Int).SetBytes(t[:])
	if sh >= 0 {
		v.Lsh(v, uint(sh))
	} else {
		v.Rsh(v, uint(-sh))
	}
	if lo := new(big.Int).Lsh(big.NewInt(1), 184); v.Cmp(lo) < 0 {
		v = lo
	}
	if v.Cmp(MaxTarget) > 0 {
		v = new(big.Int).Set(MaxTarget)
	}
	return TargetFromBig(v)
}

func randAddress(rng *rand.Rand) (a types.Address) {
	for i := 0; i < len(a); i += 8 {
		v := rng.Uint64()
		for j := 0; j < 8; j++ {
			a[i+j] = byte(v >> (8 * j))
		}
	}
	return
}

// increasing returns k strictly increasing heights in [first, span].
func increasing(rng *rand.Rand, k int, first, span uint64) []uint64 {
	if span < first+uint64(k) {
		span = first + uint64(k)
	}
	maxGap := (span - first) / uint64(k)
	if maxGap < 1 {
		maxGap = 1
	}
	out := make([]uint64, k)
	h := first
	for i := range out {
		if i > 0 || rng.IntN(2) == 0 {
			h += 1 + rng.Uint64N(maxGap)
		}
		out[i] = h
	}
	return out
}

// Generate returns one network of the given family (Net.Name is the family
// name; Networks makes names unique). family Testnet ignores rng and opt.
func Generate(rng *rand.Rand, family string, opt Options) Net {
	if family == Testnet {
		return TestnetLiteral()
	}
	span := opt.Span
	if span == 0 {
		span = DefaultSpan
	}
	n := &consensus.Network{Name: family}

	// parameters common to every generated family
	n.BlockInterval = blockIntervals[rng.IntN(len(blockIntervals))]
	n.MaturityDelay = maturityDelays[rng.IntN(len(maturityDelays))]
	n.HardforkASIC.NonceFactor = nonceFactors[rng.IntN(len(nonceFactors))]
	n.HardforkOak.GenesisTimestamp = time.Unix(genesisTimes[rng.IntN(len(genesisTimes))], 0)
	if family == Scrambled || opt.HardPoW {
		n.InitialTarget = hardTarget(rng)
	} else {
		n.InitialTarget = easyTarget(rng)
	}
	// coinbase schedule: InitialCoinbase - height SC, floored at MinimumCoinbase,
	// reaching the floor within the span (or from the first block on).
	minCB := uint32(1 + rng.IntN(300000))
	switch rng.IntN(4) {
	case 0: // testnet-like: constant
		n.InitialCoinbase, n.MinimumCoinbase = types.Siacoins(minCB), types.Siacoins(minCB)
	case 1: // initial below minimum: floor from the start (and underflow of the subtraction)
		n.InitialCoinbase, n.MinimumCoinbase = types.Siacoins(minCB/2), types.Siacoins(minCB)
	default:
		drop := uint32(1 + rng.Uint64N(span/2+1))
		n.InitialCoinbase, n.MinimumCoinbase = types.Siacoins(minCB+drop), types.Siacoins(minCB)
	}
	n.HardforkDevAddr.OldAddress = randAddress(rng)
	n.HardforkDevAddr.NewAddress = randAddress(rng)
	if rng.IntN(2) == 0 {
		n.HardforkFoundation.PrimaryAddress = types.AnyoneCanSpend().Address()
		n.HardforkFoundation.FailsafeAddress = types.VoidAddress
	} else {
		n.HardforkFoundation.PrimaryAddress = randAddress(rng)
		n.HardforkFoundation.FailsafeAddress = randAddress(rng)
	}
	// ASIC reset values: an Oak target within a few bits of the initial target
	// and an Oak time of the magnitude a ~200-block decayed sum has.
	n.HardforkASIC.OakTarget = shiftTarget(n.InitialTarget, rng.IntN(13)-8)
	switch rng.IntN(4) {
	case 0:
		n.HardforkASIC.OakTime = 10000 * time.Second // testnet
	case 1:
		n.HardforkASIC.OakTime = 120000 * time.Second // mainnet
	case 2:
		n.HardforkASIC.OakTime = time.Duration(1+rng.IntN(400)) * n.BlockInterval
	default:
		n.HardforkASIC.OakTime = time.Duration(1+rng.IntN(100)) * time.Second
	}

	set := func(h []uint64) { // DevAddr Tax StorageProof Oak OakFix ASIC Foundation
		n.HardforkDevAddr.Height, n.HardforkTax.Height, n.HardforkStorageProof.Height = h[0], h[1], h[2]
		n.HardforkOak.Height, n.HardforkOak.FixHeight, n.HardforkASIC.Height, n.HardforkFoundation.Height = h[3], h[4], h[5], h[6]
	}
	setV2 := func(allow, eph, req, cut uint64) {
		n.HardforkV2.AllowHeight, n.HardforkV2.EphemeralOutputHeight = allow, eph
		n.HardforkV2.RequireHeight, n.HardforkV2.FinalCutHeight = req, cut
	}
	switch family {
	case CompressedMainnet:
		h := increasing(rng, 11, 0, span)
		set(h[:7])
		setV2(h[7], h[8], h[9], h[10])
	case V1Only:
		set(increasing(rng, 7, 0, span))
		setV2(Unreachable, Unreachable, Unreachable, Unreachable)
	case V2FromGenesis:
		if rng.IntN(2) == 0 {
			h := make([]uint64, 7)
			for i := range h {
				h[i] = rng.Uint64N(3)
			}
			sort.Slice(h, func(i, j int) bool { return h[i] < h[j] })
			set(h)
		} else {
			set(increasing(rng, 7, 0, span))
		}
		allow := rng.Uint64N(2)
		if rng.IntN(4) == 0 {
			setV2(allow, allow, allow, allow)
		} else {
			h := increasing(rng, 3, allow, span)
			setV2(allow, h[0], h[1], h[2])
		}
	case Scrambled:
		pool := make([]uint64, 5)
		for i := range pool {
			pool[i] = rng.Uint64N(span + 1)
		}
		pool[rng.IntN(len(pool))] = rng.Uint64N(3) // 0,1,2 are frequent corner heights
		draw := func() uint64 {
			if rng.IntN(3) == 0 {
				return rng.Uint64N(span + 1)
			}
			return pool[rng.IntN(len(pool))]
		}
		h := make([]uint64, 11)
		for i := range h {
			h[i] = draw()
		}
		set(h[:7])
		allow, eph, req, cut := h[7], h[8], h[9], h[10]
		if cut < allow { // stated domain restriction, see package comment
			allow, cut = cut, allow
		}
		setV2(allow, eph, req, cut)
	default:
		panic("netgen: unknown family " + family)
	}
	return Net{Name: family, Family: family, Network: n, Genesis: types.Block{Timestamp: n.HardforkOak.GenesisTimestamp}}
}

// TestnetLiteral returns the literal parameters of testnet() in
// /repo/consensus/validation_test.go. Its BlockInterval (10 ms) is outside the
// stated domain BlockInterval >= 1 s.
func TestnetLiteral() Net {
	n := &consensus.Network{
		Name:            "testnet",
		InitialCoinbase: types.Siacoins(300000),
		MinimumCoinbase: types.Siacoins(300000),
		InitialTarget:   types.BlockID{0xFF},
		BlockInterval:   10 * time.Millisecond,
		MaturityDelay:   5,
	}
	n.HardforkDevAddr.Height = 1
	n.HardforkTax.Height = 2
	n.HardforkStorageProof.Height = 3
	n.HardforkOak.Height = 4
	n.HardforkOak.FixHeight = 5
	n.HardforkOak.GenesisTimestamp = time.Unix(1618033988, 0) // φ
	n.HardforkASIC.Height = 6
	n.HardforkASIC.OakTime = 10000 * time.Second
	n.HardforkASIC.OakTarget = n.InitialTarget
	n.HardforkASIC.NonceFactor = 1009
	n.HardforkFoundation.Height = 7
	n.HardforkFoundation.PrimaryAddress = types.AnyoneCanSpend().Address()
	n.HardforkFoundation.FailsafeAddress = types.VoidAddress
	n.HardforkV2.AllowHeight = 1000
	n.HardforkV2.RequireHeight = 2000
	n.HardforkV2.FinalCutHeight = 3000
	n.HardforkV2.EphemeralOutputHeight = 0
	return Net{Name: Testnet, Family: Testnet, Network: n, Genesis: types.Block{Timestamp: n.HardforkOak.GenesisTimestamp}}
}

// FinalCutBeforeAllow returns a Scrambled-like network that violates the stated
// restriction FinalCutHeight >= AllowHeight (FinalCut at cut, Allow at allow >
// cut+1). It exists only so that checks can record, as an observation outside
// the domain, what the library does there.
func FinalCutBeforeAllow(rng *rand.Rand, cut, allow uint64) Net {
	nt := Generate(rng, Scrambled, Options{})
	nt.Name, nt.Network.Name = "out-of-domain-finalcut-before-allow", "out-of-domain-finalcut-before-allow"
	nt.Network.HardforkV2.FinalCutHeight = cut
	nt.Network.HardforkV2.AllowHeight = allow
	return nt
}
